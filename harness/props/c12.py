"""C12 helper library: tables, harness-side writers (ARFF dense/sparse, CSV, LibSVM, Manik) in the
permitted spellings, and the expected parse of each.  Pure Python, no coba import, deterministic:
every per-cell choice is drawn from Rng(sseed, ...)."""
from core.prng import Rng

# ------------------------------------------------------------------ value alphabets
PLAIN = "abcxyzABC019_-.+"
SPECIAL = [" ", ",", "'", '"', "\\", "%", "?", "{", "}", "\u00e9", "\u4e2d", "\U0001F600", ";", ":", "=", "#", "@", "|", "/"]
NUMTEXT = ["0", "1", "-1", "2", "3", "10", "42", "-7", "0.5", "-0.25", "1.5", "3.14159", "1e3", "1.5E-4", "2.0", "100000", "0.0", "-0.0",
           "7.25", "123456789", "0.001", "+5", ".5", "5."]


def gen_text(rng, maxlen=6, special_p=0.45, allow_empty=True):
    n = rng.randint(0 if allow_empty else 1, maxlen)
    if n == 0:
        return ""
    out = []
    for _ in range(n):
        if rng.chance(special_p):
            out.append(rng.choice(SPECIAL))
        else:
            out.append(rng.choice(PLAIN))
    return "".join(out)


def gen_table(rng, tier="quick", fmt="arff"):
    """typed table: 0-8 rows, 1-6 columns"""
    ncols = rng.choice([1, 1, 2, 2, 3, 3, 4, 5, 6])
    nrows = rng.choice([0, 1, 1, 2, 2, 3, 3, 4, 5, 6, 8])
    cols = []
    names = set()
    plainness = rng.choice([0.0, 0.15, 0.45, 0.8])     # how special the strings of this table are
    for j in range(ncols):
        while True:
            nm = gen_text(rng, 5, plainness, allow_empty=False) if rng.chance(0.6) else rng.choice(["a", "b", "c", "class", "A a", "x1", "y"]) + str(j)
            if nm not in names and nm.strip() == nm and nm != "":
                break
        names.add(nm)
        ty = rng.wchoice([(4, "numeric"), (3, "string"), (1, "date"), (4, "nominal")])
        col = {"name": nm, "type": ty}
        if ty == "nominal":
            k = rng.choice([1, 2, 2, 3, 4])
            lv = []
            while len(lv) < k:
                v = gen_text(rng, 4, plainness, allow_empty=False) if rng.chance(0.7) else rng.choice(["0", "1", "yes", "no", "B", "C", "D", "?"])
                if v not in lv:
                    lv.append(v)
            col["levels"] = lv
        cols.append(col)
    rows = []
    miss_p = rng.choice([0.0, 0.0, 0.1, 0.3])
    for _ in range(nrows):
        r = []
        for c in cols:
            if rng.chance(miss_p):
                r.append(None)
            elif c["type"] == "numeric":
                r.append(rng.choice(NUMTEXT) if rng.chance(0.7) else str(rng.randint(-999, 999)))
            elif c["type"] == "nominal":
                r.append(rng.choice(c["levels"]))
            elif c["type"] == "date":
                r.append("%04d-%02d-%02d" % (rng.randint(1990, 2030), rng.randint(1, 12), rng.randint(1, 28)))
            else:
                r.append(gen_text(rng, 6, plainness))
        rows.append(r)
    return {"cols": cols, "rows": rows}


def gen_rows(rng, cols, nrows, plainness=0.2, miss_p=0.1):
    """fresh rows for given columns (used to build a second file that shares the attribute section of a first one)"""
    rows = []
    for _ in range(nrows):
        r = []
        for c in cols:
            if rng.chance(miss_p):
                r.append(None)
            elif c["type"] == "numeric":
                r.append(rng.choice(NUMTEXT))
            elif c["type"] == "nominal":
                r.append(rng.choice(c["levels"]))
            elif c["type"] == "date":
                r.append("%04d-%02d-%02d" % (rng.randint(1990, 2030), rng.randint(1, 12), rng.randint(1, 28)))
            else:
                r.append(gen_text(rng, 6, plainness))
        rows.append(r)
    return rows


# ------------------------------------------------------------------ ARFF writers
WEKA_ESC = {"\\": "\\\\", "'": "\\'", '"': '\\"', "%": "\\%", "\t": "\\t", "\n": "\\n", "\r": "\\r"}
WEKA_TRIGGER = set("{}, ")


def weka_quote(s):
    """weka.core.Utils.quote"""
    q = False
    if any(ch in s for ch in "\n\r'\"\\\t%\x1e"):
        s = "".join(WEKA_ESC.get(ch, ch) for ch in s)
        q = True
    if q or any(ch in s for ch in "{}, ") or s == "?" or s == "":
        s = "'" + s + "'"
    return s


def liac_quote(s):
    """liac-arff encode_string (the library OpenML uses to produce ARFF): quotes on " ' \\ white space % , and control
    characters -- NOT on braces, so `{x}` is written bare"""
    if s == "" or s == "?" or any(ch in s for ch in "\"'\\ \t\n\r%,") or any(ord(ch) < 32 for ch in s):
        return "'" + "".join(("\\" + ch) if ch in "\\'\"" else ch for ch in s) + "'"
    return s


def alt_quote(s, q, esc_all):
    """other permitted spelling: chosen quote character, backslash-escape the quote char and backslash
    (esc_all: also the other quote char and %, as Weka does)"""
    out = []
    for ch in s:
        if ch == "\\" or ch == q or (esc_all and ch in "'\"%"):
            out.append("\\" + ch)
        else:
            out.append(ch)
    return q + "".join(out) + q


def needs_quote(s, style="weka"):
    return s == "" or s == "?" or any(ch in s for ch in ("\"'\\ \t%,{}" if style == "weka" else "\"'\\ \t%,"))


def _dec(sp, *key):
    """an independent random source per writer decision, so that dropping one spelling option
    does not perturb the others (needed by the feature analysis and the shrinker)"""
    return Rng(sp.get("sseed", 0), *key)


def arff_token(s, sp, key):
    """one string value / name / level in the file's spelling. key: position of the token."""
    style = sp.get("style", "weka")
    t = weka_quote(s) if style == "weka" else liac_quote(s)
    qs = sp.get("quote", "single")
    r = _dec(sp, "tok", *key)
    if t[0] == "'" and len(t) >= 2 and needs_quote(s, style):
        if qs == "double" or (qs == "mix" and r.chance(0.5)):
            t = alt_quote(s, '"', style == "weka")
    elif sp.get("force_quote") and r.chance(0.7):
        q = "'" if qs == "single" or (qs == "mix" and r.chance(0.5)) else '"'
        t = alt_quote(s, q, False)
    return t


def kw(word, case, sp, key):
    if case == "upper":
        return word.upper()
    if case == "mixed":
        r = _dec(sp, "kw", *key)
        return "".join(ch.upper() if r.chance(0.5) else ch for ch in word)
    if case == "title":
        return word[0] + word[1:].capitalize() if word[0] == "@" else word.capitalize()
    return word


def arff_header(table, sp):
    lines = []
    ws = sp.get("attr_ws", " ")
    kc, tc = sp.get("kw_case", "lower"), sp.get("type_case", "lower")
    if sp.get("comments") and _dec(sp, "c0").chance(0.7):
        lines.append("% generated for C12, with a comment, and 'quotes' \" { }")
    lines.append(kw("@relation", kc, sp, ("rel",)) + " " + arff_token(sp.get("relation", "rel"), sp, ("rel",)))
    if sp.get("blanks"):
        lines.append("")
    for j, c in enumerate(table["cols"]):
        if sp.get("comments") and _dec(sp, "ch", j).chance(0.3):
            lines.append("%" + _dec(sp, "ch2", j).choice(["", " c", " @attribute x numeric", " @data"]))
        if sp.get("blanks") and _dec(sp, "bh", j).chance(0.2):
            lines.append(_dec(sp, "bh2", j).choice(["", "  ", "\t"]))
        ty = c["type"]
        if ty == "nominal":
            sep = sp.get("nominal_sep", ",")
            inner = sep.join(arff_token(v, sp, ("lv", j, k)) for k, v in enumerate(c["levels"]))
            pad = sp.get("nominal_pad", "")
            t = "{" + pad + inner + pad + "}"
        elif ty == "date":
            t = kw("date", tc, sp, ("ty", j))
            if sp.get("date_fmt"):
                t += " " + ('"yyyy-MM-dd"' if sp.get("quote") == "double" else "'yyyy-MM-dd'")
        elif ty == "numeric":
            t = kw(c.get("word") or sp.get("numeric_word", "numeric"), tc, sp, ("ty", j))
        else:
            t = kw("string", tc, sp, ("ty", j))
        line = kw("@attribute", kc, sp, ("at", j)) + ws + arff_token(c["name"], sp, ("nm", j)) + ws + t
        if sp.get("trail_ws") and _dec(sp, "th", j).chance(0.3):
            line += _dec(sp, "th2", j).choice([" ", "  ", "\t"])
        if sp.get("lead_ws") and _dec(sp, "lh", j).chance(0.3):
            line = _dec(sp, "lh2", j).choice([" ", "\t"]) + line
        lines.append(line)
    if sp.get("blanks"):
        lines.append("")
    lines.append(kw("@data", kc, sp, ("data",)))
    return lines


def arff_cell(c, v, sp, key):
    if v is None:
        return "?"
    if c["type"] == "numeric":
        return v
    return arff_token(v, sp, key)


def write_arff_dense(table, sp):
    lines = arff_header(table, sp)
    sep = sp.get("sep", ",")
    for i, row in enumerate(table["rows"]):
        if sp.get("comments") and _dec(sp, "cd", i).chance(0.3):
            for m in range(_dec(sp, "cd3", i).choice([1, 1, 2, 3])):
                lines.append(_dec(sp, "cd2", i, m).choice(["%", "% a,b,c", "%?", "% {0 1}", "%'"]))
        if sp.get("blanks") and _dec(sp, "bd", i).chance(0.25):
            lines.append(_dec(sp, "bd2", i).choice(["", " "]))
        line = sep.join(arff_cell(c, v, sp, ("cell", i, j)) for j, (c, v) in enumerate(zip(table["cols"], row)))
        if sp.get("trail_ws") and _dec(sp, "td", i).chance(0.3):
            line += _dec(sp, "td2", i).choice([" ", "  ", "\t"])
        if sp.get("lead_ws") and _dec(sp, "ld", i).chance(0.3):
            line = _dec(sp, "ld2", i).choice([" ", "  "]) + line
        lines.append(line)
    if sp.get("blanks") and _dec(sp, "be").chance(0.5):
        lines.append("")
    if sp.get("comments") and _dec(sp, "ce").chance(0.3):
        lines.append("% end")
    return lines


def sparse_is_default(c, v):
    """what a sparse ARFF writer leaves out: numeric zero.  (Nominal values are always written
    explicitly by the harness' writer; see notes: the index-0 convention is outside the check.)"""
    if v is None:
        return False
    if c["type"] == "numeric":
        try:
            return float(v) == 0.0
        except ValueError:
            return False
    return False


def write_arff_sparse(table, sp):
    lines = arff_header(table, sp)
    sep = sp.get("sparse_sep", ",")
    for i, row in enumerate(table["rows"]):
        if sp.get("comments") and _dec(sp, "cd", i).chance(0.3):
            for m in range(_dec(sp, "cd3", i).choice([1, 1, 2, 3])):
                lines.append(_dec(sp, "cd2", i, m).choice(["%", "% {0 1}", "%?", "% 1,2"]))
        if sp.get("blanks") and _dec(sp, "bd", i).chance(0.25):
            lines.append("")
        items = []
        for j, (c, v) in enumerate(zip(table["cols"], row)):
            if sparse_is_default(c, v) and not (sp.get("sparse_explicit_zero") and _dec(sp, "ez", i, j).chance(0.5)):
                continue
            items.append("%d %s" % (j, arff_cell(c, v, sp, ("cell", i, j))))
        pad = sp.get("sparse_pad", "")
        line = "{" + pad + sep.join(items) + pad + "}"
        if sp.get("trail_ws") and _dec(sp, "td", i).chance(0.3):
            line += _dec(sp, "td2", i).choice([" ", "\t"])
        lines.append(line)
    if sp.get("blanks") and _dec(sp, "be").chance(0.5):
        lines.append("")
    return lines


def expect_arff(table, dense):
    """what the table says: per row list of cells (dense) or dict name->cell (sparse), cell =
    ('num', float) | ('str', s) | ('cat', s, levels) | ('missing',)"""
    out = []
    for row in table["rows"]:
        cells = []
        for c, v in zip(table["cols"], row):
            if v is None:
                cells.append(["missing"])
            elif c["type"] == "numeric":
                cells.append(["num", float(v)])
            elif c["type"] == "nominal":
                cells.append(["cat", v, list(c["levels"])])
            else:
                cells.append(["str", v])
        if dense:
            out.append({"cells": cells, "missing": any(v is None for v in row)})
        else:
            d = {}
            for c, v, cell in zip(table["cols"], row, cells):
                if sparse_is_default(c, v):
                    continue
                d[c["name"]] = cell
            out.append({"cells": d, "missing": any(v is None for v in row)})
    return out


# ------------------------------------------------------------------ CSV
def csv_quote_choice(s, sp, r):
    """RFC 4180: fields with the delimiter, a double quote or a line break MUST be quoted (quotes doubled);
    any other field MAY be quoted.  Returns the writer's free choice (the mandatory part is applied by the renderer)."""
    mode = sp.get("quoting", "minimal")
    if mode == "all":
        return True
    if mode == "nonnumeric":
        try:
            float(s)
            return False
        except ValueError:
            return True
    if mode == "some":
        return r.chance(0.4)
    return False


def csv_plan(rows, sp, header=None):
    """rows of (quote?, field) as an RFC 4180 writer would emit them, one record per line"""
    r = Rng(sp.get("sseed", 0), "csv")
    plan = []
    for row in ([header] if header is not None else []) + rows:
        pr = [[csv_quote_choice(s, sp, r), s] for s in row]
        if len(pr) == 1 and pr[0][1] == "":
            pr[0][0] = True            # a lone empty field is written as "" (what csv.writer does)
        if sp.get("quote_edges"):      # writer that protects leading/trailing white space by quoting
            for k in (0, -1):
                if pr[k][1] != pr[k][1].strip():
                    pr[k][0] = True
        plan.append(pr)
    return plan


def csv_render(plan, sp):
    d = sp.get("delimiter", ",")
    r = Rng(sp.get("sseed", 0), "csvblank")
    lines = []
    for pr in plan:
        if sp.get("blanks") and r.chance(0.3):
            lines.append("")
            if r.chance(0.3):
                lines.append("")
        out = []
        for q, s in pr:
            if q or any(ch in s for ch in (d, '"', "\n", "\r")):
                out.append('"' + s.replace('"', '""') + '"')
            else:
                out.append(s)
        lines.append(d.join(out))
    if sp.get("blanks") and r.chance(0.4):
        lines.append("")
    return lines


def write_csv(rows, sp, header=None):
    return csv_render(csv_plan(rows, sp, header), sp)


def gen_csv_table(rng):
    ncols = rng.choice([1, 1, 2, 2, 3, 4, 5, 6])
    nrows = rng.choice([0, 1, 1, 2, 3, 4, 6, 8])
    p = rng.choice([0.0, 0.2, 0.5, 0.8])
    rows = []
    for _ in range(nrows):
        rows.append([(rng.choice(NUMTEXT) if rng.chance(0.3) else gen_text(rng, 6, p)) for _ in range(ncols)])
    header = None
    if rng.chance(0.5):
        header = []
        while len(header) < ncols:
            h = gen_text(rng, 5, p, allow_empty=False)
            if h not in header:
                header.append(h)
    return rows, header


# ------------------------------------------------------------------ LibSVM / Manik
def gen_svm_rows(rng):
    nrows = rng.choice([0, 1, 1, 2, 3, 4, 6, 8])
    rows = []
    nfeat = rng.choice([1, 2, 3, 6])
    for _ in range(nrows):
        nl = rng.choice([1, 1, 1, 2, 3])
        labels = []
        for _ in range(nl):
            labels.append(rng.choice(["0", "1", "2", "-1", "+1", "7", "12", "1.5", "a", "cat", "\u00e9", "x_y"]))
        ks = sorted(rng.sample(list(range(0, 12)), rng.randint(0, nfeat)))
        feats = [[k, rng.choice(NUMTEXT)] for k in ks]
        rows.append({"labels": labels, "feats": feats})
    return rows


def write_svm(rows, sp, manik=False):
    r = Rng(sp.get("sseed", 0), "svm")
    lines = []
    if manik:
        nf = 1 + max([k for row in rows for k, _ in row["feats"]] + [0])
        lines.append("%d %d %d" % (len(rows), nf, 1 + len({l for row in rows for l in row["labels"]})))
    for row in rows:
        if sp.get("blanks") and r.chance(0.2):
            lines.append("")
        line = ",".join(row["labels"])
        for k, v in row["feats"]:
            line += " %d:%s" % (k, v)
        if sp.get("trail_ws") and r.chance(0.3):
            line += r.choice([" ", "  "])
        lines.append(line)
    if sp.get("blanks") and r.chance(0.5):
        lines.append("")
    return lines


def expect_svm(rows):
    return [[{int(k): float(v) for k, v in row["feats"]}, list(row["labels"])] for row in rows]


# ====================================================================== the property module
import io
import json
import os
import shutil
import tempfile
import zlib

from core.engine import Property, F

BREAKS = "\n\r\x0b\x0c\x1c\x1d\x1e\x85  "
EXOTIC = "\x0b\x0c\x1c\x1d\x1e\x85  "


def cps(s):
    return [ord(ch) for ch in s]


def uncps(l):
    return "".join(chr(c) for c in l)


def errname(e):
    return type(e).__name__


# ---------------------------------------------------------------------- real-code runners
def compress(data, enc, level=6):
    if enc == "gzip":
        co = zlib.compressobj(level, zlib.DEFLATED, 16 + zlib.MAX_WBITS)
    elif enc == "deflate":
        co = zlib.compressobj(level, zlib.DEFLATED, -zlib.MAX_WBITS)
    else:
        return data
    return co.compress(data) + co.flush()


def pieces_of(data, enc, chunk):
    """the decompressed stream in the pieces zlib hands them out when fed `chunk` bytes at a time
    (what `decompChunks D` is for D = zlib; computed by the harness with its own decompressobj)"""
    if enc == "gzip":
        dec = zlib.decompressobj(16 + zlib.MAX_WBITS).decompress
    elif enc == "deflate":
        dec = zlib.decompressobj(-zlib.MAX_WBITS).decompress
    else:
        dec = lambda x: x
    if not chunk:
        return [dec(data)]
    return [dec(data[i:i + chunk]) for i in range(0, len(data), chunk)]


def run_byte_it(enc, chunk, data):
    from coba.pipes.sources import HttpSource
    try:
        r = HttpSource._byte_it_(enc, "utf-8", chunk, io.BytesIO(data))
        return {"ok": r} if isinstance(r, str) else {"ok": list(r)}
    except Exception as e:
        return {"err": errname(e)}


def run_delim(chunks):
    from coba.pipes.sources import DelimSource, IterableSource
    try:
        return {"ok": list(DelimSource(IterableSource(list(chunks))).read())}
    except Exception as e:
        return {"err": errname(e)}


def script_lines(script):
    """all lines a usage script of a DiskSink writes, in order.  op = {"w": str|[str]} | {"with": [op…]}"""
    out = []
    for op in script:
        if "with" in op:
            out += script_lines(op["with"])
        else:
            out += [op["w"]] if isinstance(op["w"], str) else list(op["w"])
    return out


def run_script(sink, script):
    for op in script:
        if "with" in op:
            with sink:
                run_script(sink, op["with"])
        else:
            sink.write(op["w"])


def run_disk(writes, gz, batch, name="f", mode=None, relpath=None, direct=None):
    """one DiskSink(path[,mode][,batch]) used as the script says (plain write calls, with-blocks around writes, nested),
    then list(DiskSource(path).read()); also the raw bytes.  `writes`: a script, or a plain list of write arguments"""
    from coba.pipes.sinks import DiskSink
    from coba.pipes.sources import DiskSource
    script = writes if (writes and isinstance(writes[0], dict)) else [{"w": w} for w in writes]
    d = tempfile.mkdtemp(prefix="c12_")
    try:
        path = os.path.join(d, relpath) if relpath else os.path.join(d, name + (".log.gz" if gz else ".log"))
        os.makedirs(os.path.dirname(path), exist_ok=True)
        try:
            if direct:          # a file produced by something else (gzip / plain text), only read with DiskSource
                import gzip
                data = "".join(l + "\n" for l in script_lines(script)).encode("utf-8")
                with (gzip.open(path, "wb") if direct == "gzip" else open(path, "wb")) as f:
                    f.write(data)
                return {"ok": list(DiskSource(path).read()), "raw": None}
            kw = {}
            if batch:
                kw["batch"] = batch
            if mode:
                kw["mode"] = mode
            sink = DiskSink(path, **kw)
            run_script(sink, script)
            raw = None
            if os.path.exists(path):
                with open(path, "rb") as f:
                    raw = f.read()
            return {"ok": list(DiskSource(path).read()), "raw": raw}
        except Exception as e:
            return {"err": errname(e)}
    finally:
        shutil.rmtree(d, ignore_errors=True)


def run_disk_history(paths, batches, ops):
    """phase 6: ONE DiskSink and ONE DiskSource object per path, used in the order of `ops` (write / complete read /
    read abandoned after k lines / two simultaneous reads of the same source object / read through a fresh sibling object).
    Returns one observation per op; also reports a write that changed the caller's list."""
    from coba.pipes.sinks import DiskSink
    from coba.pipes.sources import DiskSource
    d = tempfile.mkdtemp(prefix="c12h_")
    outs, mutated = [], []
    try:
        full = [os.path.join(d, q) for q in paths]
        for f in full:
            os.makedirs(os.path.dirname(f), exist_ok=True)
        sinks = [DiskSink(f, **({"batch": b} if b else {})) for f, b in zip(full, batches)]
        srcs = [DiskSource(f) for f in full]
        held = {}
        for i, op in enumerate(ops):
            pi = op["p"]
            try:
                if op["o"] == "w":
                    lines = list(op["lines"])
                    how = op.get("as", "list")
                    if how == "str" and len(lines) == 1:
                        arg = lines[0]
                    elif how == "tuple":
                        arg = tuple(lines)
                    elif how == "gen":
                        arg = (l for l in lines)
                    elif how == "same" and op.get("of") in held and held[op["of"]] is not None and held[op["of"]] == lines:
                        arg = held[op["of"]]
                    else:
                        arg = list(lines)
                    held[i] = arg if isinstance(arg, list) else None
                    sinks[pi].write(arg)
                    if isinstance(arg, list) and arg != lines:
                        mutated.append(i)
                    if isinstance(arg, list) and op.get("scribble"):
                        # the list belongs to the caller: changing it afterwards must not change the file
                        held[i] = None
                        arg.append("SCRIBBLED")
                        if len(arg) > 1:
                            arg[0] = "SCRIBBLED"
                    outs.append("wrote")
                elif op["o"] == "r":
                    src = DiskSource(full[pi]) if op.get("how") == "fresh" else srcs[pi]
                    outs.append({"lines": {"ok": list(src.read())}})
                elif op["o"] == "k":
                    it = iter(srcs[pi].read())
                    got = []
                    for _ in range(op["k"]):
                        try:
                            got.append(next(it))
                        except StopIteration:
                            break
                    if op.get("how") == "close":
                        it.close()
                    del it
                    outs.append({"lines": {"ok": got}})
                elif op["o"] == "z":
                    it1, it2 = iter(srcs[pi].read()), iter(srcs[pi].read())
                    g1, g2, live = [], [], [True, True]
                    while any(live):
                        for n, (it, g) in enumerate(((it1, g1), (it2, g2))):
                            if live[n]:
                                try:
                                    g.append(next(it))
                                except StopIteration:
                                    live[n] = False
                    outs.append({"lines2": [{"ok": g1}, {"ok": g2}]})
            except FileNotFoundError:
                outs.append("nofile")
            except Exception as e:
                outs.append({"lines": {"err": errname(e)}} if op["o"] != "w" else {"err": errname(e)})
        return outs, mutated
    finally:
        import gc
        gc.collect()
        shutil.rmtree(d, ignore_errors=True)


def run_delim_history(objs, ops):
    """ONE DelimSource object per chunk list, read several times (complete / abandoned after k lines / two at once)."""
    from coba.pipes.sources import DelimSource, IterableSource
    srcs = [DelimSource(IterableSource(list(c))) for c in objs]
    outs = []
    for op in ops:
        try:
            if op["o"] == "r":
                outs.append({"lines": {"ok": list(srcs[op["p"]].read())}})
            elif op["o"] == "k":
                it = iter(srcs[op["p"]].read())
                got = []
                for _ in range(op["k"]):
                    try:
                        got.append(next(it))
                    except StopIteration:
                        break
                if op.get("how") == "close":
                    it.close()
                del it
                outs.append({"lines": {"ok": got}})
            else:
                it1, it2 = iter(srcs[op["p"]].read()), iter(srcs[op["p"]].read())
                g1, g2, live = [], [], [True, True]
                while any(live):
                    for n, (it, g) in enumerate(((it1, g1), (it2, g2))):
                        if live[n]:
                            try:
                                g.append(next(it))
                            except StopIteration:
                                live[n] = False
                outs.append({"lines2": [{"ok": g1}, {"ok": g2}]})
        except Exception as e:
            outs.append({"lines": {"err": errname(e)}})
    return outs


def keepends(lines, via):
    """the lines as an open file / `text.splitlines(keepends=True)` hands them over: every line still carries its
    terminator ('\\n', '\\r\\n' or a per-line mix), a blank line is '\\n' or '\\r\\n', the last line may lack one"""
    le = via.get("le", "\n")
    out = []
    for i, l in enumerate(lines):
        t = Rng(via.get("tseed", 0), "term", i).choice(["\n", "\r\n"]) if le == "mix" else le
        if i == len(lines) - 1 and not via.get("final_nl", True):
            t = ""
        out.append(l + t)
    return out


def deliver(lines, via):
    """lines -> lines through a delivery path of coba. Returns (result, expected_lines)"""
    mode = via.get("mode", "lines")
    if mode == "lines":
        return {"ok": list(lines)}, list(lines)
    if mode == "keepends":          # no delivery layer of coba involved: the reader itself gets terminated lines
        k = keepends(lines, via)
        return {"ok": k}, k
    if mode == "disk":
        r = run_disk([list(lines)], via.get("gz", False), via.get("batch"))
        r.pop("raw", None)
        return r, list(lines)
    le = via.get("le", "\n")
    text = le.join(lines) + (le if lines and via.get("final_nl", True) else "")
    data = compress(text.encode("utf-8"), via.get("enc"), via.get("level", 6))
    return run_byte_it(via.get("enc"), via.get("chunk", 7), data), text.splitlines()


def canon_cell(v):
    from coba.primitives import Categorical
    if v is None:
        return ["missing"]
    if isinstance(v, Categorical):
        return ["cat", str(v), [str(x) for x in v.levels]]
    if isinstance(v, bool):
        return ["other", repr(v)]
    if isinstance(v, (int, float)):
        return ["num", float(v)]
    if isinstance(v, str):
        return ["str", v]
    return ["other", repr(v)]


def run_arff(lines, dense, src=False, reader=None):
    from coba.pipes.readers import ArffReader
    try:
        if reader is not None:      # a reader object that has been used before
            rows = list(reader.filter(list(lines)))
        elif src:      # the public wrapper of coba/environments/supervised.py
            from coba.environments.supervised import ArffSource
            from coba.pipes import ListSource
            rows = list(ArffSource(ListSource(list(lines))).read())
        else:
            rows = list(ArffReader().filter(list(lines)))
        out = []
        for r in rows:
            # materialise by the shape of the row the reader RETURNED, not by what the case intended: a dense file that coba
            # takes for sparse (known finding C12-F17) yields dict rows (phase 6: corrected false alarm, see notes)
            if not hasattr(r, "keys"):
                cells = [canon_cell(v) for v in r]
                hdr = [k for k, _ in sorted(dict(r.headers).items(), key=lambda kv: kv[1])]
                byname = [canon_cell(r[h]) for h in hdr]
                out.append({"cells": cells, "missing": bool(r.missing), "headers": hdr, "byname": byname})
            else:
                items = {str(k): canon_cell(v) for k, v in r.items()}
                out.append({"cells": items, "missing": bool(r.missing), "keys": sorted(str(k) for k in r.keys())})
        return {"ok": out}
    except Exception as e:
        return {"err": errname(e), "msg": str(e)[:120]}


def run_csv(lines, has_header, delimiter, src=False, reader=None):
    from coba.pipes.readers import CsvReader
    try:
        dialect = {} if delimiter == "," else {"delimiter": delimiter}
        if reader is not None:
            rows = list(reader.filter(list(lines)))
            hdr = None
            if has_header and rows:
                hdr = [k for k, _ in sorted(dict(rows[0].headers).items(), key=lambda kv: kv[1])]
            out = {"header": hdr, "rows": [[x for x in r] for r in rows]}
            if hdr is not None:
                out["byname"] = [[r[h] for h in hdr] for r in rows]
            return {"ok": out}
        if src:
            from coba.environments.supervised import CsvSource
            from coba.pipes import ListSource
            rows = list(CsvSource(ListSource(list(lines)), has_header, **dialect).read())
        else:
            rows = list(CsvReader(has_header=has_header, **dialect).filter(list(lines)))
        hdr = None
        if has_header and rows:
            hdr = [k for k, _ in sorted(dict(rows[0].headers).items(), key=lambda kv: kv[1])]
        return {"ok": {"header": hdr, "rows": [[x for x in r] for r in rows]}}
    except Exception as e:
        return {"err": errname(e)}


def run_svm(lines, manik, src=False, reader=None):
    from coba.pipes.readers import LibsvmReader, ManikReader
    try:
        if reader is not None:
            rows = list(reader.filter(list(lines)))
        elif src:
            from coba.environments.supervised import LibSvmSource, ManikSource
            from coba.pipes import ListSource
            rows = list((ManikSource if manik else LibSvmSource)(ListSource(list(lines))).read())
        else:
            rows = list((ManikReader() if manik else LibsvmReader()).filter(list(lines)))
        return {"ok": [[{int(k): float(v) for k, v in r[0].items()}, [str(l) for l in r[1]]] for r in rows]}
    except Exception as e:
        return {"err": errname(e)}


# ---------------------------------------------------------------------- text / cut generators
ALPHA_TEXT = ["a", "b", "z", "0", " ", ",", "é", "ß", "中", "€", "\U0001F600", "\U00010348", "'", '"', "\t"]
TERMS = ["\n", "\n", "\n", "\r\n", "\r\n", "\r\n", "\r", "\x0b", "\x0c", "\x1c", "\x1d", "\x1e", "\x85", " ", " "]


def gen_doc(rng, maxlines=6, exotic=True):
    n = rng.choice([0, 1, 1, 2, 2, 3, 4, maxlines])
    mode = rng.below(4)
    out = []
    for i in range(n):
        ln = "".join(rng.choice(ALPHA_TEXT) for _ in range(rng.choice([0, 0, 1, 2, 3, 5, 8])))
        if mode == 0:
            t = "\n"
        elif mode == 1:
            t = "\r\n"
        elif mode == 2:
            t = rng.choice(["\n", "\r\n", "\r"])
        else:
            t = rng.choice(TERMS if exotic else TERMS[:7])
        if i == n - 1 and rng.chance(0.4):
            t = ""
        out.append(ln + t)
    return "".join(out)


def interesting_positions(data):
    """byte offsets where a cut is delicate: inside a multi-byte character, between \\r and \\n,
    right after an exotic line boundary"""
    pos = []
    for i in range(1, len(data)):
        if data[i] & 0xC0 == 0x80:
            pos.append(i)
        if data[i - 1] == 13 and data[i] == 10:
            pos.append(i)
    text = data.decode("utf-8", "ignore")
    off = 0
    for ch in text:
        off += len(ch.encode("utf-8"))
        if ch in EXOTIC and off < len(data):
            pos.append(off)
    return sorted(set(pos))


def cut_features(pieces):
    """which delicate cuts a sequence of decompressed byte pieces contains"""
    feats = set()
    joined = b"".join(pieces)
    off = 0
    cuts = []
    for p in pieces[:-1]:
        off += len(p)
        cuts.append(off)
    nonempty_cuts = sorted(set(c for c in cuts if 0 < c < len(joined)))
    for c in nonempty_cuts:
        if joined[c] & 0xC0 == 0x80:
            feats.add("utf8split")
    try:
        text = joined.decode("utf-8")
    except UnicodeDecodeError:
        feats.add("invalid")
        return feats
    # map byte cuts to char cuts
    boff = 0
    bpos = {}
    for i, ch in enumerate(text):
        bpos[boff] = i
        boff += len(ch.encode("utf-8"))
    for c in nonempty_cuts:
        if c in bpos:
            i = bpos[c]
            if i > 0 and text[i - 1] == "\r" and text[i] == "\n":
                feats.add("crlf")
            if i > 0 and text[i - 1] in EXOTIC:
                feats.add("ubreak")
    return feats


def text_cut_features(chunks):
    feats = set()
    ne = [c for c in chunks if c]
    for a, b in zip(ne, ne[1:]):
        if a[-1] == "\r" and b[0] == "\n":
            feats.add("crlf")
        if a[-1] in EXOTIC:
            feats.add("ubreak")
    return feats


def delivery_sig(prefix, impl, expected, feats):
    """signature of a delivery failure: symptom + the delicate cuts present"""
    if "err" in impl:
        if impl["err"] == "UnicodeDecodeError" and "utf8split" in feats:
            return prefix + ":UnicodeDecodeError:utf8split"
        return prefix + ":raises-" + impl["err"]
    f = sorted(feats & {"crlf", "ubreak"})
    return prefix + ":lines-differ:" + ("+".join(f) if f else "no-delicate-cut")


# ---------------------------------------------------------------------- ARFF feature analysis
CHAR_FEATS = [("bs", "\\"), ("sq", "'"), ("dq", '"'), ("pct", "%"), ("comma", ","), ("space", " "), ("lbrace", "{"), ("rbrace", "}"),
              ("qmark", "?"), ("nonascii", None), ("punct", ";:=#@|/")]


def _strip_feat(s, feat):
    name, chars = feat
    if name == "nonascii":
        return "".join(ch if ord(ch) < 128 else "u" for ch in s)
    return "".join(("p" if ch in chars else ch) for ch in s)


def _has_feat(s, feat):
    name, chars = feat
    if name == "nonascii":
        return any(ord(ch) >= 128 for ch in s)
    return any(ch in chars for ch in s)


def _uniq(names):
    seen, out = set(), []
    for n in names:
        m = n
        k = 0
        while m in seen or m == "":
            k += 1
            m = (n or "e") + "x%d" % k
        seen.add(m)
        out.append(m)
    return out


def arff_features(case):
    """removable features of an ARFF case, in a fixed order: (name, present?, remover)"""
    t, sp = case["table"], case["sp"]
    feats = []

    def map_table(fn_name, fn_level, fn_cell):
        cols = []
        newnames = _uniq([fn_name(c["name"]) for c in t["cols"]])
        lvmaps = []
        for c, nn in zip(t["cols"], newnames):
            c2 = dict(c, name=nn)
            if c["type"] == "nominal":
                nl = _uniq([fn_level(v) for v in c["levels"]])
                lvmaps.append(dict(zip(c["levels"], nl)))
                c2["levels"] = nl
            else:
                lvmaps.append(None)
            cols.append(c2)
        rows = []
        for row in t["rows"]:
            r2 = []
            for c, v, lm in zip(t["cols"], row, lvmaps):
                if v is None:
                    r2.append(None)
                elif c["type"] == "nominal":
                    r2.append(lm[v])
                elif c["type"] in ("string", "date"):
                    r2.append(fn_cell(v))
                else:
                    r2.append(v)
            rows.append(r2)
        return dict(case, table={"cols": cols, "rows": rows})

    ident = lambda s: s
    for loc in ("name", "level", "cell"):
        for feat in CHAR_FEATS:
            def strings(loc=loc):
                if loc == "name":
                    return [c["name"] for c in t["cols"]]
                if loc == "level":
                    return [v for c in t["cols"] if c["type"] == "nominal" for v in c["levels"]]
                return [v for row in t["rows"] for c, v in zip(t["cols"], row) if v is not None and c["type"] in ("string", "date")]
            present = any(_has_feat(s, feat) for s in strings())
            f = lambda s, feat=feat: _strip_feat(s, feat)
            rem = (lambda loc=loc, f=f: map_table(f if loc == "name" else ident, f if loc == "level" else ident, f if loc == "cell" else ident))
            feats.append(("%s-%s" % (loc, feat[0]), present, rem))
    # empty strings
    present = any(v == "" for row in t["rows"] for v in row)
    feats.append(("cell-empty", present, lambda: map_table(ident, ident, lambda s: s or "e")))
    # missing cells
    def fill_missing():
        rows = []
        for row in t["rows"]:
            r2 = []
            for c, v in zip(t["cols"], row):
                if v is None:
                    v = "1" if c["type"] == "numeric" else (c["levels"][0] if c["type"] == "nominal" else ("2001-01-01" if c["type"] == "date" else "m"))
                r2.append(v)
            rows.append(r2)
        return dict(case, table=dict(t, rows=rows))
    feats.append(("missing", any(v is None for row in t["rows"] for v in row), fill_missing))
    # unusual numerals
    def plain_nums():
        rows = [[("1" if (c["type"] == "numeric" and v is not None and float(v) != 0) else ("0" if c["type"] == "numeric" and v is not None else v))
                 for c, v in zip(t["cols"], row)] for row in t["rows"]]
        return dict(case, table=dict(t, rows=rows))
    feats.append(("numeral", any(c["type"] == "numeric" and v not in (None, "0", "1") for row in t["rows"] for c, v in zip(t["cols"], row)), plain_nums))
    # spelling options back to the canonical writer
    for k in sorted(sp):
        if k in ("sseed", "style"):
            continue
        if sp[k] in (None, False):
            continue
        feats.append(("sp-" + k + ("=" + str(sp[k]).replace("\t", "TAB").replace(" ", "_") if not isinstance(sp[k], bool) else ""), True,
                      (lambda k=k: dict(case, sp={kk: vv for kk, vv in sp.items() if kk != k}))))
    if sp.get("style", "weka") != "weka":
        feats.append(("sp-style=" + sp["style"], True, lambda: dict(case, sp=dict(sp, style="weka"))))
    if (case.get("via") or {}).get("mode") == "keepends":
        feats.append(("via-keepends", True, lambda: dict(case, via={"mode": "lines"})))
    return feats


def arff_lines(case):
    return (write_arff_dense if case["dense"] else write_arff_sparse)(case["table"], case["sp"])


def arff_compare(case, got):
    """(B) for ARFF: symptom string when what coba returned is not the table that was written, else None.
    Sparse: the extra level '0' coba adds in front of every sparse nominal attribute is accepted (documented)."""
    t, dense = case["table"], case["dense"]
    exp = expect_arff(t, dense)
    names = [c["name"] for c in t["cols"]]
    if "err" in got:
        return "raises-" + got["err"], got.get("msg", "")
    rows = got["ok"]
    if len(rows) != len(exp):
        return "row-count", "%d rows read, %d written" % (len(rows), len(exp))
    for i, (g, e) in enumerate(zip(rows, exp)):
        if dense and "headers" not in g:
            return "rows-are-sparse", "row %d came back as a sparse row %r, a dense row %r was written" % (i, g["cells"], e["cells"])
        if not dense and "headers" in g:
            return "rows-are-dense", "row %d came back as a dense row %r, a sparse row %r was written" % (i, g["cells"], e["cells"])
        if dense:
            if g["headers"] != names:
                return "column-names", "headers %r, written %r" % (g["headers"], names)
            if len(g["cells"]) != len(e["cells"]):
                return "column-count", "row %d has %d cells, written %d" % (i, len(g["cells"]), len(e["cells"]))
            for j, (gc, ec) in enumerate(zip(g["cells"], e["cells"])):
                if gc != ec:
                    kind = "levels" if (gc[0] == ec[0] == "cat" and gc[1] == ec[1]) else ("missing-marker" if "missing" in (gc[0], ec[0]) else "cell-" + ec[0])
                    return kind, "row %d column %r: read %r, written %r" % (i, names[j], gc, ec)
            if g["byname"] != g["cells"]:
                return "by-name", "row %d: access by column name gives %r, by position %r" % (i, g["byname"], g["cells"])
        else:
            gk = dict(g["cells"])
            for k, ec in e["cells"].items():
                if k not in gk:
                    return "cell-absent", "row %d column %r written %r but absent" % (i, k, ec)
                gc = gk.pop(k)
                if gc[0] == "cat" and ec[0] == "cat" and gc[1] == ec[1]:
                    if gc[2] == ["0"] + ec[2] or ("0" in ec[2] and sorted(gc[2]) == sorted(ec[2])):
                        continue
                    return "levels", "row %d column %r: levels %r, written %r" % (i, k, gc[2], ec[2])
                if gc != ec:
                    kind = "missing-marker" if "missing" in (gc[0], ec[0]) else "cell-" + ec[0]
                    return kind, "row %d column %r: read %r, written %r" % (i, k, gc, ec)
            for k, gc in gk.items():
                # left over: must be an implicit default of a column that was not written (numeric 0 / nominal '0')
                col = [c for c in t["cols"] if c["name"] == k]
                if not col:
                    return "column-names", "row %d has unknown column %r" % (i, k)
                c = col[0]
                if c["type"] == "nominal" and gc[0] == "cat" and gc[1] == "0":
                    continue
                if c["type"] == "numeric" and gc == ["num", 0.0]:
                    continue
                return "cell-extra", "row %d column %r: read %r, nothing written" % (i, k, gc)
        if bool(g["missing"]) != bool(e["missing"]):
            return "missing-flag", "row %d: missing=%r but the row %s a '?'" % (i, g["missing"], "has" if e["missing"] else "has no")
    return None


def arff_fail(case):
    lines = arff_lines(case)
    via = case.get("via") or {}
    if via.get("mode") == "keepends":
        lines = keepends(lines, via)
    return arff_compare(case, run_arff(lines, case["dense"]))


def arff_reduce(case):
    """structural reduction (drop rows / columns) while the case keeps failing"""
    cur = case
    changed = True
    while changed:
        changed = False
        t = cur["table"]
        for i in range(len(t["rows"]) - 1, -1, -1):
            cand = dict(cur, table=dict(t, rows=t["rows"][:i] + t["rows"][i + 1:]))
            if arff_fail(cand) is not None:
                cur, changed = cand, True
                break
        if changed:
            continue
        if len(t["cols"]) > 1:
            for j in range(len(t["cols"]) - 1, -1, -1):
                cand = dict(cur, table={"cols": t["cols"][:j] + t["cols"][j + 1:], "rows": [r[:j] + r[j + 1:] for r in t["rows"]]})
                if arff_fail(cand) is not None:
                    cur, changed = cand, True
                    break
    return cur


def arff_culprits(case, symptom_kind):
    """the features of the (structurally reduced) case that cannot be removed without the failure going away"""
    cur = arff_reduce(case)
    names = [f[0] for f in arff_features(cur)]
    for nm in names:
        fs = {f[0]: f for f in arff_features(cur)}
        f = fs.get(nm)
        if f is None or not f[1]:
            continue
        try:
            cand = f[2]()
            res = arff_fail(cand)
        except Exception:
            continue
        if res is not None:
            cur = cand
    left = [f[0] for f in arff_features(cur) if f[1]]
    t = cur["table"]
    if len(t["cols"]) == 1:
        cand = dict(cur, table={"cols": t["cols"] + [{"name": "zz9", "type": "numeric"}], "rows": [r + ["1"] for r in t["rows"]]})
        if arff_fail(cand) is None:
            left.append("single-column")
    if len(t["rows"]) > 1:
        left.append("rows=%d" % len(t["rows"]))
    for c in t["cols"]:
        if c["type"] == "nominal" and len(c["levels"]) > 1:
            # does the failure need several levels?
            pass
    types = sorted({c["type"] for c in t["cols"]})
    res = arff_fail(cur)
    return left, (res[0] if res else symptom_kind), types, cur


ATTR_SYMPTOMS = ("column-names", "levels", "raises-CobaException", "raises-ValueError", "raises-TypeError", "cell-absent", "raises-IndexError")


def arff_family(reduced, symptom, culprits):
    """root-cause family of an ARFF failure (decided on the reduced case), or None when no known
    root cause explains it.  The rules name mechanisms of coba/pipes/readers.py."""
    dense = reduced["dense"]
    C = {c for c in culprits if not c.startswith("rows=")}
    chars = {c for c in C if c.startswith(("name-", "level-", "cell-"))}
    lines = arff_lines(reduced)
    k = [i for i, l in enumerate(lines) if l.strip().lower() == "@data"]
    data = [l for l in lines[k[0] + 1:] if l.strip() and not l.strip().startswith("%")] if k else []
    sq = any("'" in l for l in data)
    dq = any('"' in l for l in data)
    if dense and data and data[0].strip().startswith("{") and data[0].strip().endswith("}") and \
            any(c.endswith("-lbrace") for c in chars) and any(c.endswith("-rbrace") for c in chars):
        # a dense first data row that begins with a bare `{` and ends with a bare `}` is taken for a sparse row
        return "arff-dense:first-row-wrapped-in-bare-braces-read-as-sparse"
    if symptom == "missing-flag" and not dense and "missing" in C and not chars and any(c.startswith("sp-sparse_pad") for c in C):
        return "arff-sparse:missing-flag-blank-before-closing-brace"
    if symptom == "missing-flag" and dense:
        if {"missing", "single-column"} <= C and not chars:
            return "arff-dense:lone-qmark-row-not-flagged-missing"
        if "missing" not in C and ({"cell-qmark", "cell-comma"} <= chars or {"level-qmark", "level-comma"} <= chars):
            return "arff-dense:missing-flag-from-quoted-qmark"      # a quoted value holding "?," / ",?"
        if "missing" in C and not chars and any(c.startswith("sp-sep=TAB") for c in C):
            return "arff-dense:missing-flag-tab-delimited"
    attr_only = bool(chars) and all(c.startswith(("name-", "level-")) for c in chars)
    if attr_only and chars & {"name-bs", "level-bs"} and symptom in ATTR_SYMPTOMS + ("missing-marker",):
        return "arff-attr:backslash-in-name-or-level"       # the failure needs a backslash in a name / nominal level
    if "level-comma" in chars and all(c.startswith("level-") for c in chars) and symptom == "raises-IndexError":
        return "arff-attr:quoted-level-starting-with-comma"
    if symptom == "missing-marker" and {"level-qmark", "missing"} <= C and chars == {"level-qmark"}:
        return "arff:level-named-qmark-shadows-missing"
    if not dense and (sq or dq) and not any(c.startswith("name-") for c in chars) and \
            symptom in ("cell-str", "cell-cat", "raises-ValueError", "raises-CobaException", "raises-IndexError", "missing-marker"):
        return "arff-sparse:quoted-value-in-data"
    if dense and symptom == "missing-marker" and chars == {"cell-qmark"}:
        return "arff-dense:quoted-qmark-string-read-as-missing"
    if dense and any(c.startswith("sp-sep=TAB") for c in C) and chars & {"cell-comma", "level-comma"} and not any(c.startswith("name-") for c in chars):
        return "arff-dense:tab-delimited-with-comma-in-quoted-value"
    if dense and sq and dq and not any(c.startswith("name-") for c in chars) and \
            symptom in ("cell-str", "cell-cat", "raises-IndexError", "raises-CobaException", "raises-ValueError"):
        return "arff-dense:data-lines-with-both-quote-characters"
    return None


# ---------------------------------------------------------------------- spelling generators
def gen_arff_sp(rng, canonical_p=0.45):
    sp = {"sseed": rng.randint(0, 10 ** 6), "style": rng.choice(["weka", "weka", "liac"])}
    if rng.chance(canonical_p):
        return sp
    opts = {
        "quote": rng.choice(["single", "double", "mix"]),
        "kw_case": rng.choice(["lower", "upper", "mixed", "title"]),
        "type_case": rng.choice(["lower", "upper"]),
        "sep": rng.choice([",", ", ", "\t", ",  ", "\t "]),
        "comments": rng.chance(0.4), "blanks": rng.chance(0.4),
        "attr_ws": rng.choice([" ", "  ", "\t"]),
        "nominal_sep": rng.choice([",", ", "]), "nominal_pad": rng.choice(["", " "]),
        "force_quote": rng.chance(0.25), "trail_ws": rng.chance(0.3), "lead_ws": rng.chance(0.2),
        "date_fmt": rng.chance(0.5), "numeric_word": rng.choice(["numeric", "real", "integer"]),
        "sparse_sep": rng.choice([",", ", "]), "sparse_pad": rng.choice(["", " "]), "sparse_explicit_zero": rng.chance(0.3),
    }
    keep = rng.choice([1, 2, 3, 6, 20])
    keys = rng.sample(sorted(opts), min(keep, len(opts)))
    defaults = {"quote": "single", "kw_case": "lower", "type_case": "lower", "sep": ",", "attr_ws": " ", "nominal_sep": ",", "nominal_pad": "",
                "numeric_word": "numeric", "sparse_sep": ",", "sparse_pad": ""}
    for k in keys:
        if opts[k] is not False and opts[k] != defaults.get(k):
            sp[k] = opts[k]
    return sp


def gen_via(rng, allow_http=True):
    r = rng.below(10)
    if r < 4 or not allow_http:
        return {"mode": "lines"}
    if r < 6:
        return {"mode": "keepends", "le": rng.choice(["\n", "\r\n", "mix"]), "final_nl": rng.chance(0.7), "tseed": rng.randint(0, 10 ** 6)}
    if r < 7:
        return {"mode": "disk", "gz": rng.chance(0.5), "batch": rng.choice([None, None, 1, 2, 3])}
    return {"mode": "http", "enc": rng.choice([None, "gzip", "deflate"]), "chunk": rng.choice([1, 2, 3, 5, 7, 16, 64, 1024]),
            "le": rng.choice(["\n", "\r\n"]), "final_nl": rng.chance(0.7), "level": rng.choice([0, 6, 9])}


class C12(Property):
    id = "C12"
    prop_modules = ["CobaVerif.Props.C12"]
    quick_n = 4000
    thorough_n = 150000
    search_n = 2500
    case_timeout = 90
    workers = 8
    rule = ("six case kinds from one PRNG: chunk (text of 0-6 lines, LF/CRLF/CR and the other str.splitlines boundaries, 1-4 byte "
            "characters, identity/gzip/deflate at level 0/6/9, one chunk size or ALL sizes 1..len+1 for short streams; boundary-biased so "
            "that cuts fall inside characters, between CR and LF, after exotic boundaries), delim (arbitrary text chunk lists incl. empty "
            "chunks), disk (DiskSink->DiskSource, plain/.gz, batch none/1/2/3, several writes), csv (0-8 rows x 1-6 columns, RFC 4180 "
            "writer with minimal/all/nonnumeric/random quoting, comma or tab, header, blank lines), svm (LibSVM/Manik rows), arff (typed "
            "table 0-8 x 1-6: numeric/string/date/nominal, missing cells, values with , ' \" \\ space % ? { } non-ASCII; dense or sparse; "
            "Weka/liac canonical writer or a random subset of permitted spellings). csv/svm/arff lines are delivered directly, through "
            "DiskSink/DiskSource, through _byte_it_, or with their terminators kept (LF/CRLF/mixed, blank lines between and after records); reuse (one reader object on 2-3 different inputs, some reads abandoned); hist (phase 6: ONE DiskSink and ONE DiskSource object per path, 1-3 sibling paths (a.log / a.log.gz / d/a.log ...), histories of 3-12 operations: write (list, str, tuple, generator, the SAME list object again, caller changes the list afterwards), complete read, read abandoned after k lines (closed or dropped), two simultaneous reads of one source, read through a fresh sibling object, read before the first write; patterns write/read/write/read, read/abandon/read again/read a sibling, random; and ONE DelimSource object per chunk list read repeatedly); label (csv: every index -n..n-1 and header name, references outside the table and duplicate header names for (A)). non-trivial: >=2 lines and >=2 pieces (chunk/delim), >=1 row otherwise")
    trusted_base = [
        "zlib/gzip: streaming decompression is assumed to be a homomorphism on concatenation (Decomp.Lawful); the harness feeds the model the decompressed pieces its own decompressobj returns",
        "CPython: str.splitlines / bytes.decode / csv.reader / int() / float() / TextIOWrapper(newline=None) are modelled (splitlines, u8step, csvChar, universalNl) and the models are compared with them on every case",
        "text->number conversion: ACCEPTANCE of a token by int()/float() and the integer value are modelled (parseIntPy / isFloatLitPy: ASCII literals, PEP 515 underscores, Py_ISSPACE stripping; non-ASCII decimal digits are not modelled) inside arffReadPy and libsvmReadPy; the float VALUE of an accepted literal is CPython's on both sides",
        "phase 5 kinds: lit/undecided (comma-joined rows with tabs / quote characters inside through the fallback parser with _fallback_delim undecided: (A) vs arffAdvanced / arffLineStepF, (C) arff_fallback_undecided_exact / _iff), lit/svmnum (LibSVM/Manik lines whose indices and values are numeral spellings, repeated indices: (A) vs libsvmReadPy incl. dict order)",
        "ARFF: the whole reader (attribute header, data section, encoders, missing flags, dense simple path + fallback parser, sparse rows) is modelled (`arffRead`) and compared with ArffReader on every ARFF case, errors included; Lean theorems cover the header, dense and sparse data lines and the respellings; str.lower is modelled on ASCII only, int()/float() acceptance by `parseIntPy`/`isFloatLitPy` inside `arffReadPy` (ASCII literals with PEP 515 underscores, Py_ISSPACE stripping; = the older `arffRead` on files free of `_` and \\x1c-\\x1f by theorem arffReadPy_conservative)",
        "reader objects: in the model a reader carries only its constructor arguments (ReaderKind); that the real CsvReader/ArffReader/LibsvmReader/ManikReader objects keep nothing else between inputs is checked by the `reuse` cases ((B) reused = fresh, (A) reused = readerRun)",
        "phase 6: histories of DiskSink/DiskSource operations are modelled as diskRun over a store path -> appended byte strings (theorems disk_history_roundtrip / _gz: every read returns the lines written to that path so far, for every history); the hist cases compare the real long-lived objects with diskRun op by op ((A) A:disk-history) and with the written lines ((B) hist:disk:*). Assumed, not modelled: the operating system's append/flush semantics, gzip multi-member reading (as in disk_roundtrip_gz), TextIOWrapper's own read-ahead (an abandoned read is modelled as a prefix of the complete read)",
        "phase 6: LabelRows on dense CSV rows (label index resolution incl. negative indices and the header dict, LabelDense feats/label) is modelled as csvLabelRead / labelRows (theorem csv_label_roundtrip) and compared with CsvReader | LabelRows on every csv label case ((A) A:csv-label, (C) C:csv_label_roundtrip); which exception a reference outside the table raises is not modelled (model: 'raises')",
        "zlib: Decomp.Lawful (L1 empty input, L2 concatenation) is assumed of decompressobj.decompress; the harness checks on every chunk case that the returned pieces concatenate to the plain stream",
    ]
    assumptions = [
        "values contain no line breaks or tabs (the property's list of value contents: commas, quotes, backslashes, spaces, %, ?, braces, unicode)",
        "sparse ARFF: coba's documented extra level '0' in front of every sparse nominal attribute is accepted; nominal values are written explicitly (the index-0 convention of sparse ARFF is outside the check)",
        "LibSVM rows have at least one label (label-less lines are skipped by design, unit-tested)",
        "charset utf-8",
    ]
    partial_theorems = {
        "chunk_invariance_partial": "the code as it stands is chunk-invariant only on cuts that split no character, no CR LF pair and do not end in an exotic line boundary; the full theorem chunk_invariance is proved for the repaired loop (fixes/C12-utf8-incremental-decoder.diff, fixes/C12-delim-line-boundaries.diff)",
        "arff_dense_roundtrip_partial": "ArffLineReader reads back the data lines of the Weka/OpenML writer only when no value holds the other quote character: such lines go to the fallback parser (_dense_advanced, modelled as advLoop and compared by (A)), which loses backslashes and raises IndexError (known finding C12-F11, no small repair)",
        "arff_sparse_roundtrip_partial": "ArffLineReader._sparse has no quote handling (C12-F10): proved for bare values (no white space, comma, trailing brace); the sparse missing flag and the sparse whole-file composition are not proved (compared by (A) only)",
        "arff_dense_table_roundtrip": "whole dense files: full for the writer's dialect under hypotheses each forced by a recorded finding (F8, F9, F11, F12/F15: no '?' inside strings/levels, F13, F17) or by the format (a data line must not begin with '%', at least one row)",
        "arff_header_roundtrip": "full for the writer's dialect; hypotheses forced by C12-F8 (no backslash in a quoted name/level) and C12-F9 (a quoted level must not begin with a comma; the theorem also asks that it does not begin with white space, which the code would accept)",
        "csv_roundtrip_partial": "CsvReader strips every line (str.strip) and raises StopIteration on an empty input; the full theorem csv_roundtrip is proved for the repaired reader (fixes/C12-csv-strip.diff, fixes/C12-csv-empty.diff)",
    }

    # ------------------------------------------------------------------ generators
    def gen_chunk(self, rng, tier):
        if rng.chance(0.03):
            # a long, highly compressible text: one compressed chunk expands to many kilobytes
            n = rng.choice([400, 1500, 3000])
            le = rng.choice(["\n", "\r\n"])
            text = le.join("row %d,%s,%d" % (i, rng.choice(["x", "é", "中"]) if i % 97 == 0 else "v", i * 7) for i in range(n)) + le
            return {"kind": "chunk", "text": text, "enc": rng.choice(["gzip", "deflate"]), "level": rng.choice([1, 6, 9]), "chunk": rng.choice([64, 256, 1024, 4096])}
        text = gen_doc(rng)
        enc = rng.choice([None, None, "gzip", "deflate"])
        level = rng.choice([0, 0, 6, 9])
        data = text.encode("utf-8")
        if enc is None and len(data) <= (40 if tier == "quick" else 60) and rng.chance(0.5):
            chunk = "all"
        else:
            pos = interesting_positions(data) if enc is None else []
            if pos and rng.chance(0.7):
                p = rng.choice(pos)
                divs = [k for k in range(1, p + 1) if p % k == 0]
                chunk = rng.choice(divs)
            else:
                n = len(compress(data, enc, level))
                chunk = rng.choice([1, 2, 3, 4, 5, 7, 8, 16, max(1, n - 1), max(1, n), n + 1, 1024])
        return {"kind": "chunk", "text": text, "enc": enc, "level": level, "chunk": chunk}

    def gen_delim(self, rng, tier):
        text = gen_doc(rng)
        cuts = sorted(rng.randint(0, len(text)) for _ in range(rng.choice([0, 1, 2, 3, 5, 8])))
        if rng.chance(0.5):
            for i in range(1, len(text)):
                if (text[i - 1] == "\r" and text[i] == "\n") or text[i - 1] in EXOTIC:
                    if rng.chance(0.6):
                        cuts.append(i)
            cuts.sort()
        chunks, prev = [], 0
        for c in cuts:
            chunks.append(text[prev:c])
            prev = c
        chunks.append(text[prev:])
        return {"kind": "delim", "chunks": chunks}

    def gen_disk(self, rng, tier):
        bad = rng.chance(0.12)

        def gen_write():
            n = rng.choice([0, 1, 2, 3, 4, 6])
            w = []
            for _ in range(n):
                l = "".join(rng.choice(ALPHA_TEXT + ["\x0b", "\u2028", "\x85"]) for _ in range(rng.choice([0, 1, 2, 4, 8])))
                if bad and rng.chance(0.4):
                    l += rng.choice(["\r", "\rx", "\n", "\r\n", "x\ny"])
                w.append(l)
            if n == 1 and rng.chance(0.4):
                return {"w": w[0]}                     # DiskSink.write accepts a single str
            return {"w": w}

        def gen_ops(depth):
            ops = []
            for _ in range(rng.choice([1, 1, 2, 3])):
                if depth < 2 and rng.chance(0.35):
                    ops.append({"with": gen_ops(depth + 1)})
                else:
                    ops.append(gen_write())
            return ops

        pattern = rng.below(10)
        if pattern < 4:
            script = [gen_write() for _ in range(rng.choice([1, 1, 1, 2, 3]))]          # plain write calls
        elif pattern < 7:
            script = [{"with": [gen_write() for _ in range(rng.choice([1, 2, 2, 3]))]}]   # one with-block around the writes
            if rng.chance(0.5):
                script.append(gen_write())                                                  # and a write after it
            if rng.chance(0.25):
                script.insert(0, gen_write())
        else:
            script = gen_ops(0)
        mode = None
        if rng.chance(0.3):
            # mode 'w' truncates whenever the file is (re)opened: everything is written inside one outermost with-block
            mode = "w"
            script = [{"with": script}]
        elif rng.chance(0.15):
            mode = "a"
        case = {"kind": "disk", "script": script, "mode": mode, "gz": rng.chance(0.5), "batch": rng.choice([None, None, 1, 2, 3])}
        if rng.chance(0.4):
            # where '.gz' sits in the path: DiskSink and DiskSource must agree on what is a gzip file
            case["path"] = rng.choice(["table.csv.gz", "table.csv.gz.1", "log.gz.bak", "cache.gz/table.csv", "cache.gz/t.log.gz", "a.gzip", "data.GZ",
                                       "plain.txt", "x.gz.d/y.gz.z/f", "f.gz", "archive.tgz", "notgz/f.log"])
            case["gz"] = ".gz" in case["path"]
            if rng.chance(0.3) and (case["path"].endswith(".gz") or ".gz" not in case["path"]) and not bad:
                case["direct"] = "gzip" if case["path"].endswith(".gz") else "plain"
        return case

    def gen_csv(self, rng, tier):
        rows, header = gen_csv_table(rng)
        sp = {"sseed": rng.randint(0, 10 ** 6), "quoting": rng.choice(["minimal", "minimal", "all", "some", "nonnumeric"]),
              "delimiter": rng.choice([",", ",", "\t", ";"]), "blanks": rng.chance(0.4), "quote_edges": rng.chance(0.3)}
        return {"kind": "csv", "rows": rows, "header": header, "sp": sp, "via": gen_via(rng), "src": rng.chance(0.25)}

    def gen_svm(self, rng, tier):
        return {"kind": "svm", "rows": gen_svm_rows(rng), "manik": rng.chance(0.4),
                "sp": {"sseed": rng.randint(0, 10 ** 6), "blanks": rng.chance(0.3), "trail_ws": rng.chance(0.3)}, "via": gen_via(rng), "src": rng.chance(0.25)}

    def gen_arff(self, rng, tier):
        dense = rng.chance(0.65)
        t = gen_table(rng, tier)
        sp0 = None
        if rng.chance(0.12) and t["rows"]:
            # braces at the edges of the first data row (what decides dense vs sparse); liac-arff writes them bare
            which = rng.choice(["first", "last", "both", "last"])
            for j in ([0] if which == "first" else [len(t["cols"]) - 1] if which == "last" else [0, len(t["cols"]) - 1]):
                c = t["cols"][j]
                t["cols"][j] = {"name": c["name"], "type": "string"}
                for i, row in enumerate(t["rows"]):
                    if i == 0:
                        row[j] = rng.choice(["{x}", "{x", "x}", "{", "}", "{a b}", "a{b}"]) if which != "both" else (rng.choice(["{x", "{x}", "{"]) if j == 0 else rng.choice(["x}", "{x}", "}"]))
                    elif row[j] is not None:
                        row[j] = str(row[j])
            sp0 = {"sseed": rng.randint(0, 10 ** 6), "style": "liac" if rng.chance(0.8) else "weka"}
        sp = gen_arff_sp(rng)
        if sp0 is not None and rng.chance(0.7):
            sp = sp0
        elif sp0 is not None:
            sp["style"] = sp0["style"]
        return {"kind": "arff", "table": t, "dense": dense, "sp": sp, "via": gen_via(rng) if rng.chance(0.3) else {"mode": "lines"}, "src": rng.chance(0.2)}

    def gen_reuse(self, rng, tier):
        """ONE reader object applied to several different inputs in sequence (optionally abandoning a read half way)"""
        fmt = rng.wchoice([(4, "csv"), (4, "arff"), (1, "svm"), (1, "manik")])
        n = rng.choice([2, 2, 2, 3])
        inputs = []
        if fmt == "csv":
            has_header = rng.chance(0.8)
            delim = rng.choice([",", ",", "\t", ";"])
            for _ in range(n):
                c = self.gen_csv(rng, tier)
                if has_header and c["header"] is None:
                    w = len(c["rows"][0]) if c["rows"] else rng.randint(1, 4)
                    hdr = []
                    while len(hdr) < w:
                        h = gen_text(rng, 4, 0.2, allow_empty=False)
                        if h not in hdr and h.strip() == h:
                            hdr.append(h)
                    c["header"] = hdr
                    c["rows"] = [r[:w] + [""] * (w - len(r)) for r in c["rows"]]
                if not has_header:
                    c["header"] = None
                c["sp"]["delimiter"] = delim
                c["via"] = {"mode": "lines"}
                c["src"] = False
                inputs.append(c)
        elif fmt == "arff":
            share = rng.chance(0.6)
            for k in range(n):
                if share and k > 0:
                    # a file that SHARES the attribute section of the first one (identical nominal specs / names, same spelling)
                    # but differs in dense-vs-sparse, column order and data
                    base = inputs[0]
                    cols = list(base["table"]["cols"])
                    mode = rng.choice(["same", "same", "reordered", "subset"])
                    if mode == "reordered":
                        cols = rng.shuffle(cols)
                    elif mode == "subset" and len(cols) > 1:
                        cols = cols[:rng.randint(1, len(cols) - 1)]
                    c = {"kind": "arff", "table": {"cols": cols, "rows": gen_rows(rng, cols, rng.choice([1, 2, 3]))},
                         "dense": (not base["dense"]) if rng.chance(0.75) else base["dense"], "sp": dict(base["sp"])}
                else:
                    c = self.gen_arff(rng, tier)
                    if share and not any(col["type"] == "nominal" for col in c["table"]["cols"]):
                        c["table"]["cols"][0] = {"name": c["table"]["cols"][0]["name"], "type": "nominal", "levels": ["a", "b", "c"]}
                        for r in c["table"]["rows"]:
                            r[0] = rng.choice(["a", "b", "c"])
                c["via"] = {"mode": "lines"}
                c["src"] = False
                inputs.append(c)
        else:
            for _ in range(n):
                c = self.gen_svm(rng, tier)
                c["manik"] = fmt == "manik"
                c["via"] = {"mode": "lines"}
                c["src"] = False
                inputs.append(c)
        abandon = [rng.chance(0.25) for _ in range(n)]
        abandon[-1] = False
        return {"kind": "reuse", "fmt": fmt, "inputs": inputs, "abandon": abandon}

    def generate(self, rng, tier):
        k = rng.wchoice([(21, "chunk"), (7, "delim"), (10, "disk"), (15, "csv"), (8, "svm"), (33, "arff"), (6, "reuse"), (5, "lit"), (4, "label"), (3, "undec"), (2, "svmnum"), (6, "hist")])
        return getattr(self, "gen_" + k)(rng, tier)

    # .................................................................. lit (phase 4): numerals as CPython reads them; plain rows on both dense paths
    NUM_BODIES = ["1_000", "1__0", "_1", "1_", "0_7", "007", "0", "12", "1_0.5", "1._5", "1_.5", ".5", "5.", ".", "1e5", "1E+5", "1e_5",
                  "1_0e1_0", "e5", "1e", "1e+", "inf", "Infinity", "NaN", "nan", "iNf", "infinit", "in_f", "1.5e-3", "0x10", "1,5", "--1", "+-1", "1 2",
                  "9_9.9_9", "_", "1_e5", "1e5_", "infinity_", "n_an", "3.", "+.5", "-5.e2", "1__5.0", "1.0_"]
    NUM_WS = ["", "", "", " ", "\t", "  ", "\x0b", "\u2003", "\xa0", "\x1c"]

    def gen_lit(self, rng, tier):
        if rng.chance(0.6):
            body = rng.choice(self.NUM_BODIES) if rng.chance(0.8) else "".join(rng.choice("0123456789_.e+-") for _ in range(rng.randint(1, 6)))
            tok = rng.choice(self.NUM_WS) + rng.choice(["", "", "+", "-"]) + body + rng.choice(self.NUM_WS)
            return {"kind": "lit", "sub": "num", "tok": tok}
        n = rng.randint(2, 4)
        alpha = "abz019.-?%{}_:;" + ("é" if rng.chance(0.3) else "")
        vals = []
        for _ in range(n):
            v = "".join(rng.choice(alpha) for _ in range(rng.randint(1, 4)))
            r = rng.below(100)
            if r < 12:
                v = v[:1] + " " + v[1:]           # a blank inside
            elif r < 18:
                v = "\t" + v                      # starts with a tab: the two paths differ (outside `plainTok`)
            elif r < 22:
                v = v + "\\"                      # a backslash: csv takes it for an escape, the fallback drops it
            elif r < 25:
                v = ""                            # empty value: IndexError in the fallback
            vals.append(v)
        return {"kind": "lit", "sub": "plain", "values": vals, "pad": rng.choice([0, 0, 1, 2])}

    # phase 5: comma-joined rows through the fallback parser with `_fallback_delim` undecided
    def gen_undec(self, rng, tier):
        n = rng.choice([1, 2, 2, 3, 3, 4])
        style = rng.wchoice([(4, "quotes-inside"), (4, "tabs-inside"), (3, "both"), (2, "outside")])
        vals = []
        for i in range(n):
            v = rng.choice("abz09.-?%{}:;") + "".join(rng.choice("abz019.-?%{} ") for _ in range(rng.randint(0, 3)))
            if style in ("quotes-inside", "both") and rng.chance(0.7):
                k = rng.randint(1, len(v))
                v = v[:k] + rng.choice("'\"") + v[k:]
            if style in ("tabs-inside", "both") and rng.chance(0.6):
                k = rng.randint(1, len(v))
                v = v[:k] + "\t" * rng.choice([1, 1, 2]) + rng.choice(["", "", "x", " '", "'", "\""]) + v[k:]
            if style == "outside":
                r = rng.below(6)
                v = [v + "\\", " " + v, "\t" + v, "", "'" + v, v[:1] + "\\" + v[1:]][r]
            vals.append(v)
        if style == "quotes-inside" and n >= 2:      # make the first-row route reachable: both quote characters in the line
            vals[0] = vals[0] + "'"
            vals[-1] = vals[-1] + '"'
        return {"kind": "lit", "sub": "undecided", "values": vals, "style": style}

    def eval_undecided(self, case, driver):
        from coba.pipes.readers import ArffLineReader
        vals = case["values"]
        n = len(vals)
        line = ",".join(vals)
        fails, tags = [], ["kind:lit-undecided", "undecided:" + case.get("style", "corpus")]

        def run(f):
            try:
                return {"ok": [str(x) for x in f()]}
            except Exception as e:
                return {"err": errname(e)}
        lr = ArffLineReader(True, n)
        adv = run(lambda: lr._dense_advanced(line))                 # the fallback parser, delimiter undecided
        delim = getattr(lr, "_fallback_delim", None)
        first = run(lambda: ArffLineReader(True, n).filter(line))   # a fresh reader on the row as first data row
        both = "'" in line and '"' in line
        tags.append("undecided:first-row-" + ("enters-fallback" if both else "csv-first"))
        tags.append("undecided:tabs-%s" % ("none" if "\t" not in line else ("fewer-than-values" if len(line.split("\t")) < n else "at-least-values")))
        tags.append("undecided:read-back" if adv == {"ok": vals} else "undecided:not-read-back")
        model = None
        if driver is not None:
            ans = driver.ask({"op": "undecided", "values": [cps(v) for v in vals]})
            model = ans
            madv, mfirst = self._lines_or_err(ans["adv"]), self._lines_or_err(ans["first"])
            if uncps(ans["line"]) != line:
                fails.append(F("A", "joinWith COMMA %r = %r, harness line %r" % (vals, uncps(ans["line"]), line), "A:undecided-line"))
            if adv != madv:
                fails.append(F("A", "ArffLineReader(True,%d)._dense_advanced(%r): implementation %r, model arffAdvanced %r" % (n, line, adv, madv), "A:undecided-fallback"))
            if "ok" in adv and delim != (None if ans["delim"] is None else chr(ans["delim"])):
                fails.append(F("A", "_fallback_delim after %r: implementation %r, model %r" % (line, delim, ans["delim"]), "A:undecided-delim"))
            if first != mfirst:
                fails.append(F("A", "ArffLineReader(True,%d).filter(%r): implementation %r, model arffLineStepF %r" % (n, line, first, mfirst), "A:undecided-first-row"))
            if ans["unq"]:
                tags.append("undecided:exact-theorem-applies")
                if madv != self._lines_or_err(ans["pred"]):
                    fails.append(F("C", "model: arffAdvanced %r, arff_fallback_undecided_exact predicts %r on %r" % (madv, ans["pred"], line), "C:arff_fallback_undecided_exact"))
            if ans["hyp"]:
                tags.append("undecided:iff-hypotheses-hold")
                tags.append("undecided:iff-" + ("holds-both-true" if ans["rhs"] else "holds-both-false"))
                if (madv == {"ok": vals}) != ans["rhs"]:
                    fails.append(F("C", "model: arffAdvanced reads %r back = %r, right-hand side of arff_fallback_undecided_iff = %r" % (vals, madv == {"ok": vals}, ans["rhs"]), "C:arff_fallback_undecided_iff"))
        return {"fails": fails, "nontrivial": True, "tags": tags, "impl": {"adv": adv, "first": first}, "model": model}

    # phase 5: LibSVM / Manik lines whose indices and values are numeral spellings (int() / float() as CPython reads them)
    INT_BODIES = ["0", "7", "12", "007", "1_0", "1__0", "_1", "1_", "+3", "-2", "3.0", "1e2", "0x10", "", "33", "1 ", "\x0b4", "5\x1c", "\u20036", "9_9_9"]

    def gen_svmnum(self, rng, tier):
        rows = []
        good = rng.chance(0.5)          # half of the cases: only spellings CPython accepts (underscores, sign, white space incl.)
        for _ in range(rng.randint(1, 2)):
            items = []
            used = []
            for _ in range(rng.randint(1, 3)):
                if good:
                    k = rng.choice(["0", "7", "12", "007", "1_0", "+3", "9_9_9", "\x0b4", "\u20036", "3"]) if rng.chance(0.5) else str(rng.randint(0, 12))
                else:
                    k = rng.choice(self.INT_BODIES) if rng.chance(0.3) else str(rng.randint(0, 12))
                if used and rng.chance(0.25):
                    k = rng.choice(used)                      # a repeated index: dict semantics
                used.append(k)
                if good:
                    v = rng.choice(["1", "0.5", "-2.25", "1e3", "nan", "inf", "3.", "1_0.5", "+.5", "1E+5", "-Infinity", "9_9.9_9", "1_0e1_0", "iNf"])
                elif rng.chance(0.35):
                    v = rng.choice(["", "", "+", "-"]) + rng.choice(self.NUM_BODIES)
                else:
                    v = rng.choice(["1", "0.5", "-2.25", "1e3", "nan", "inf", "3."])
                if not good and rng.chance(0.1):
                    v = rng.choice(["\x0b", "\x1c", "\t"]) + v
                items.append([k, v])
            rows.append({"labels": [rng.choice(["0", "1", "a", "-1", "x_y"]) for _ in range(rng.randint(1, 2))], "items": items})
        return {"kind": "lit", "sub": "svmnum", "rows": rows, "manik": rng.chance(0.3)}

    def eval_svmnum(self, case, driver):
        from coba.pipes.readers import LibsvmReader, ManikReader
        lines = [",".join(r["labels"]) + "".join(" %s:%s" % (k, v) for k, v in r["items"]) for r in case["rows"]]
        if case["manik"]:
            lines = ["3 4 5"] + lines
        fails, tags = [], ["kind:lit-svmnum", "svmnum:" + ("manik" if case["manik"] else "libsvm")]
        try:
            rows = list((ManikReader() if case["manik"] else LibsvmReader()).filter(list(lines)))
            impl = {"ok": [[[[k, float(v)] for k, v in r[0].items()], [str(l) for l in r[1]]] for r in rows]}
        except Exception as e:
            impl = {"err": errname(e)}
        toks = [t for r in case["rows"] for kv in r["items"] for t in kv]
        if any("_" in t for t in toks):
            tags.append("svmnum:underscore")
        if any("\x1c" in t for t in toks):
            tags.append("svmnum:fs-char")
        if any(len(set(k for k, _ in r["items"])) < len(r["items"]) for r in case["rows"]):
            tags.append("svmnum:repeated-index")
        tags.append("svmnum:" + ("accepted" if "ok" in impl else "raises-" + impl["err"]))
        model = None
        if driver is not None:
            full = driver.ask({"op": "svm", "lines": [cps(l) for l in lines], "manik": case["manik"]})
            model = self._svm_py(full["py"], ordered=True)
            if self._nonan(impl) != self._nonan(model):
                fails.append(F("A", "%sReader().filter(%r): implementation %r (items in dict order), model libsvmReadPy %r"
                               % ("Manik" if case["manik"] else "Libsvm", lines, impl, model), "A:svmnum"))
            if full["numok"]:
                tags.append("svmnum:theorem-hypotheses-hold")
        return {"fails": fails, "nontrivial": True, "tags": tags, "impl": impl, "model": model}

    @staticmethod
    def _nonan(x):
        if isinstance(x, float) and x != x:
            return "NaN"
        if isinstance(x, list):
            return [C12._nonan(y) for y in x]
        if isinstance(x, dict):
            return {k: C12._nonan(v) for k, v in x.items()}
        return x

    def eval_lit(self, case, driver):
        from coba.pipes.readers import ArffReader, ArffLineReader
        if case["sub"] == "undecided":
            return self.eval_undecided(case, driver)
        if case["sub"] == "svmnum":
            return self.eval_svmnum(case, driver)
        fails, tags = [], ["kind:lit-" + case["sub"]]
        if case["sub"] == "num":
            tok = case["tok"]
            lines = ["@attribute a numeric", "@attribute b numeric", "@data", "'" + tok + "',1"]
            try:
                v = list(ArffReader().filter(lines))[0][0]
                impl_f = {"ok": isinstance(v, float)}
            except Exception as e:
                impl_f = {"err": errname(e)}
            bare = tok != "" and not any(ch.isspace() or ch in ",{}" for ch in tok)
            impl_i = None
            if bare:
                try:
                    impl_i = {"ok": sorted(ArffLineReader(False, 10 ** 9).filter("{" + tok + " 1}").keys())}
                except Exception as e:
                    impl_i = {"err": errname(e)}
            tags.append("float:" + ("accepted" if impl_f == {"ok": True} else "rejected"))
            if "_" in tok:
                tags.append("underscore")
            if tok != tok.strip():
                tags.append("surrounding-whitespace")
            if tok.strip().lstrip("+-").lower() in ("inf", "infinity", "nan"):
                tags.append("inf-nan")
            if tok.strip()[:1] == "+":
                tags.append("leading-plus")
            model = None
            if driver is not None:
                # phase 5: the same numeral inside whole files through the whole-reader model `arffReadPy`:
                # quoted dense numeric value, sparse numeric value, sparse index
                files = [("dense-quoted", True, lines)]
                if bare:
                    files.append(("sparse-value", False, ["@attribute a numeric", "@attribute b numeric", "@data", "{1 " + tok + "}", "{0 2}"]))
                    files.append(("sparse-index", False, ["@attribute a numeric", "@attribute b {x,y}", "@data", "{" + tok + " 3,1 x}"]))
                    files.append(("dense-bare", True, ["@attribute a numeric", "@attribute b string", "@data", tok + ",s"]))
                for nm, dn, fl in files:
                    tags.append("numfile:" + nm)
                    self._arff_read_model(fl, dn, run_arff(fl, dn), driver, fails, tags, sig="A:arff-read-numeral:" + nm)
                ans = driver.ask({"op": "numlit", "tok": cps(tok)})
                model = ans
                want_f = {"ok": True} if ans["float"] else {"err": "ValueError"}
                if impl_f != want_f:
                    fails.append(F("A", "ArffReader numeric value %r: implementation %r, model isFloatLitPy %r" % (tok, impl_f, ans["float"]), "A:numlit-float"))
                if impl_i is not None:
                    tags.append("int:" + ("accepted" if "ok" in impl_i else "rejected"))
                    k = ans["int"]
                    want_i = {"err": "ValueError"} if k is None else ({"ok": [k]} if 0 <= k < 10 ** 9 else {"err": "CobaException"})
                    if impl_i != want_i:
                        fails.append(F("A", "sparse ARFF index %r: implementation %r, model parseIntPy %r" % (tok, impl_i, k), "A:numlit-int"))
                if "_" not in tok and not any("\x1c" <= ch <= "\x1f" for ch in tok) and (ans["int"] != ans["int0"] or ans["float"] != ans["float0"]):
                    fails.append(F("C", "model: parseIntPy/isFloatLitPy differ from parseInt/isFloatLit on the underscore-free %r" % tok, "C:numerals_conservative"))
            return {"fails": fails, "nontrivial": True, "tags": tags, "impl": {"float": impl_f, "int": impl_i}, "model": model}
        vals, pad = case["values"], case["pad"]
        n = len(vals)
        line = ("," + " " * pad).join(vals)
        first = "'\"'" + ",x" * (n - 1)

        def run(f):
            try:
                return {"ok": [str(x) for x in f()]}
            except Exception as e:
                return {"err": errname(e)}
        fast = run(lambda: ArffLineReader(True, n).filter(line))

        def slow_f():
            lr = ArffLineReader(True, n)
            lr.filter(first)
            return lr.filter(line)
        slow = run(slow_f)
        plain = all(v != "" and not v[0].isspace() and not any(ch in v for ch in ",'\"\\\r\n") for v in vals)
        tags.append("plain-row" if plain else "outside-plain")
        tags.append("paths:" + ("agree" if fast == slow else "differ"))
        if plain:
            if fast != {"ok": vals}:
                fails.append(F("B", "ArffLineReader(True,%d).filter(%r) gives %r; written %r" % (n, line, fast, vals), "lit:plain-row-fast-path"))
            if slow != {"ok": vals}:
                fails.append(F("B", "ArffLineReader(True,%d) after the row %r (both quote characters: fallback parser), .filter(%r) gives %r; written %r"
                               % (n, first, line, slow, vals), "lit:plain-row-after-fallback-switch"))
        model = None
        if driver is not None:
            ans = driver.ask({"op": "plainline", "values": [cps(v) for v in vals], "pad": pad, "first": cps(first)})
            model = ans
            mf, ms = self._lines_or_err(ans["fast"]), self._lines_or_err(ans["slow"])
            if uncps(ans["line"]) != line and plain:
                fails.append(F("A", "plainRowLine %r differs from the harness line %r" % (uncps(ans["line"]), line), "A:plain-writer"))
            elif uncps(ans["line"]) == line:
                if not ans["advanced"]:
                    fails.append(F("A", "model: reader not in fallback mode after %r" % first, "A:plain-advanced"))
                if fast != mf:
                    fails.append(F("A", "ArffLineReader fast path on %r: implementation %r, model %r" % (line, fast, mf), "A:plain-fast"))
                if slow != ms:
                    fails.append(F("A", "ArffLineReader fallback on %r: implementation %r, model %r" % (line, slow, ms), "A:plain-fallback"))
                if ans["hyp"]:
                    tags.append("plain:theorem-hypotheses-hold")
                    if not (mf == ms == self._lines_or_err(ans["loop"]) == {"ok": vals}):
                        fails.append(F("C", "model: fast %r, fallback %r, advLoop %r on plain row %r" % (mf, ms, ans["loop"], vals), "C:plain-row-paths-agree"))
        return {"fails": fails, "nontrivial": True, "tags": tags, "impl": {"fast": fast, "slow": slow}, "model": model}

    # .................................................................. label (round g): the labelled reading pipelines
    def gen_label(self, rng, tier):
        n = rng.randint(2, 4)
        names = ["a", "b", "y", "z"][:n]
        nrows = rng.randint(1, 4)
        if rng.chance(0.5):
            rows = [[rng.choice([0, 0, 0, 1, 2, 5]) for _ in range(n)] for _ in range(nrows)]
            if rng.chance(0.5):
                rows[0] = [0] * n                      # falsy first row: `{}`
            if rng.chance(0.3):
                rows[-1] = [0] * n
            return {"kind": "label", "fmt": "arff-sparse", "names": names, "rows": rows, "label": rng.choice(names[:1] + names)}
        rows = [[rng.choice(["u", "v", "w", "1", "0", "2.5"]) for _ in range(n)] for _ in range(nrows)]
        header = rng.chance(0.4)
        label = rng.choice([0, 0, 1, n - 1, -1] + ([names[0], names[-1]] if header else []))
        case = {"kind": "label", "fmt": "csv", "names": names, "rows": rows, "label": label, "header": header}
        r = rng.below(20)
        if r < 3:
            # phase 6: every way of naming a column (all indices from -n to n-1, every header name)
            case["label"] = rng.choice(list(range(-n, n)) + (names if header else []))
        elif r < 6:
            # a reference that names no column of the table ((A) only: the pipeline raises, as labelRows says)
            case["label"] = rng.choice([n, n + 2, -n - 1, -2 * n, "nope", names[0]] if not header else [n, -n - 1, "nope", "A"])
        elif r < 8 and header:
            # two columns with the same name ((A) only: the header dict keeps the last one)
            case["names"] = [names[0]] + names[:-1]
            case["label"] = rng.choice([names[0], names[0], -1, 0])
        return case

    def eval_label(self, case, driver):
        """(B) a table read through the labelled public pipelines (reader | LabelRows, SupervisedSimulation over
        ArffSource / CsvSource) gives one interaction per written row, the written label, and the other written cells"""
        from coba.pipes import ArffReader, CsvReader, LabelRows, Pipes, ListSource
        from coba.environments import SupervisedSimulation, ArffSource, CsvSource
        fails, tags = [], ["kind:label", "fmt:" + case["fmt"], "label:%r" % (case["label"],)]
        names, rows, label = case["names"], case["rows"], case["label"]
        if case["fmt"] == "arff-sparse":
            lines = ["@relation r"] + ["@attribute %s numeric" % nm for nm in names] + ["@data"]
            for r in rows:
                lines.append("{" + ",".join("%d %d" % (j, v) for j, v in enumerate(r) if v != 0) + "}")
            if not any(rows[0]):
                tags.append("first-row-empty-braces")
            li = names.index(label)
            if li == 0:
                tags.append("label-is-column-0")
            want = [({nm: float(v) for j, (nm, v) in enumerate(zip(names, r)) if v != 0 and j != li}, float(r[li])) for r in rows]
            want_ctx = [w[0] for w in want]

            def piped():
                return [(dict(r.feats.items()), float(r.label)) for r in Pipes.join(ArffReader(), LabelRows(label, "r")).filter(list(lines))]

            def sim():
                return [dict(i["context"].items()) for i in SupervisedSimulation(ArffSource(ListSource(list(lines))), label, "r").read()]
            tipe = "r"
        else:
            lines = ([",".join(names)] if case["header"] else []) + [",".join(r) for r in rows]
            nn = len(names)
            if isinstance(label, str):
                valid = bool(case["header"]) and names.count(label) == 1
                if case["header"] and names.count(label) > 1:
                    tags.append("label:duplicate-header-name")
            else:
                valid = -nn <= label < nn
            if not valid:
                tags.append("label:names-no-single-column")
                return self._eval_label_model(case, lines, None, fails, tags, driver)
            li = names.index(label) if isinstance(label, str) else (label if label >= 0 else len(names) + label)
            tags.append("label-ref:%s" % ("name" if isinstance(label, str) else "negative-index" if label < 0 else "index"))
            if li == 0:
                tags.append("label-is-column-0")
            if label == 0:
                tags.append("label_col=0")
            want = [([v for j, v in enumerate(r) if j != li], r[li]) for r in rows]
            want_ctx = [w[0] for w in want]

            def piped():
                return [(list(r.feats), r.label) for r in Pipes.join(CsvReader(has_header=case["header"]), LabelRows(label, "c")).filter(list(lines))]

            def sim():
                return [list(i["context"]) for i in SupervisedSimulation(CsvSource(ListSource(list(lines)), has_header=case["header"]), label, "c").read()]
            tipe = "c"

        def run(f):
            try:
                return {"ok": f()}
            except Exception as e:
                return {"err": errname(e), "msg": str(e)[:100]}
        got_p, got_s = run(piped), run(sim)
        fmt = case["fmt"]
        if got_p != {"ok": want}:
            fails.append(F("B", "%s | LabelRows(%r,%r) on %r gives %r; the file says (features, label) %r" % ("ArffReader()" if tipe == "r" else "CsvReader(has_header=%r)" % case.get("header"), label, tipe, lines, got_p, want),
                           "label:%s:reader-labelrows-differs%s" % (fmt, ":first-row-empty" if fmt != "csv" and not any(rows[0]) else "")))
        if got_s != {"ok": want_ctx}:
            fails.append(F("B", "SupervisedSimulation(%s(ListSource(lines)), %r, %r).read() on %r gives contexts %r; the file says %r" % ("ArffSource" if tipe == "r" else "CsvSource", label, tipe, lines, got_s, want_ctx),
                           "label:%s:supervised-simulation-differs%s" % (fmt, ":label-index-0" if label == 0 else "")))
        if fmt == "csv":
            r = self._eval_label_model(case, lines, li, fails, tags, driver, got_p)
            r["impl"]["sim"] = got_s
            return r
        return {"fails": fails, "nontrivial": True, "tags": tags, "impl": {"piped": got_p, "sim": got_s}, "model": None}

    def _eval_label_model(self, case, lines, li, fails, tags, driver, got_p=None):
        """phase 6: (A) `CsvReader(has_header) | LabelRows(label)` on the real code vs `csvLabelRead`; (C) csv_label_roundtrip"""
        from coba.pipes import CsvReader, LabelRows, Pipes
        names, rows, label = case["names"], case["rows"], case["label"]
        if got_p is None:
            try:
                got_p = {"ok": [(list(r.feats), r.label) for r in Pipes.join(CsvReader(has_header=case["header"]), LabelRows(label, "c")).filter(list(lines))]}
            except Exception as e:
                got_p = {"err": errname(e), "msg": str(e)[:100]}
        model = None
        if driver is not None:
            ans = driver.ask({"op": "csvlabel", "lines": [cps(l) for l in lines], "delim": 44, "header": bool(case["header"]),
                              "ref": {"name": cps(label)} if isinstance(label, str) else {"idx": label},
                              "names": [cps(x) for x in names] if case["header"] else None, "n": len(names)})
            rd = ans["read"]
            if "err" in rd:
                model = {"err": rd["err"]}
            elif rd["ok"] is None:
                model = {"raises": True}
            else:
                model = {"ok": [[[uncps(c) for c in f], uncps(l)] for f, l in rd["ok"]]}
            impl_c = {"ok": [[list(f), l] for f, l in got_p["ok"]]} if "ok" in got_p else {"raises": True}
            if (model if "err" not in model else {"raises": True}) != impl_c:
                fails.append(F("A", "CsvReader(has_header=%r) | LabelRows(%r,'c') on %r: implementation %r, model csvLabelRead %r" % (case["header"], label, lines, got_p, model),
                               "A:csv-label:" + ("model-raises" if "ok" not in model else "impl-raises" if "ok" not in impl_c else "rows-differ")))
            col = ans["col"]
            if li is not None and col != li:
                fails.append(F("A", "labelCol gives column %r for label %r, names %r (header %r); the harness resolves it to %r" % (col, label, names, case["header"], li), "A:csv-label-col"))
            if col is not None:
                tags.append("csvlabel:theorem-hypotheses-hold")
                want = {"ok": [[[v for k, v in enumerate(r) if k != col], r[col]] for r in rows]}
                if model != want:
                    fails.append(F("C", "model: csvLabelRead %r differs from the written (features, label) %r though labelCol = %r" % (model, want, col), "C:csv_label_roundtrip"))
            else:
                tags.append("csvlabel:no-column")
        return {"fails": fails, "nontrivial": True, "tags": tags, "impl": {"piped": got_p}, "model": model}

    @staticmethod
    def _svm_py(x, ordered=False):
        """the answer of `libsvmReadPy`: index ↦ float(text of an accepted literal), labels"""
        if "err" in x:
            return {"err": x["err"]}
        try:
            if ordered:
                return {"ok": [[[[k, float(uncps(v))] for k, v in r["feats"]], [uncps(l) for l in r["labels"]]] for r in x["ok"]]}
            return {"ok": [[{k: float(uncps(v)) for k, v in r["feats"]}, [uncps(l) for l in r["labels"]]] for r in x["ok"]]}
        except ValueError as e:
            return {"err": "model accepts a literal float() rejects: %s" % e}

    @staticmethod
    def _lines_or_err(x):
        return {"err": x["err"]} if "err" in x else {"ok": [uncps(l) for l in x["ok"]]}

    # .................................................................. hist (phase 6): histories of operations on long-lived objects
    HIST_PATHS = ["a.log", "a.log.gz", "b.log", "d/a.log", "a.log.1", "d/a.log.gz"]

    def gen_hist(self, rng, tier):
        def gen_lines():
            n = rng.choice([0, 1, 1, 2, 3])
            return ["".join(rng.choice(ALPHA_TEXT + ["\x0b", " "]) for _ in range(rng.choice([0, 1, 2, 4]))) for _ in range(n)]
        if rng.chance(0.25):
            # one DelimSource object per chunk list, read again and again
            objs = [self.gen_delim(rng, tier)["chunks"] for _ in range(rng.choice([1, 1, 2]))]
            ops = []
            for _ in range(rng.choice([3, 3, 4, 5])):
                o = rng.wchoice([(4, "r"), (4, "k"), (2, "z")])
                op = {"o": o, "p": rng.below(len(objs))}
                if o == "k":
                    op["k"] = rng.choice([0, 1, 1, 2, 3])
                    op["how"] = rng.choice(["close", "drop"])
                ops.append(op)
            if not any(op["o"] == "r" for op in ops[1:]):
                ops.append({"o": "r", "p": ops[0]["p"]})
            return {"kind": "hist", "what": "delim", "objs": objs, "ops": ops}
        np_ = rng.choice([1, 2, 2, 3])
        pool = list(self.HIST_PATHS)
        paths = []
        for _ in range(np_):
            paths.append(pool.pop(rng.below(len(pool))))
        batches = [rng.choice([None, None, 1, 2, 3]) for _ in paths]
        ops, written, lists = [], set(), []
        pattern = rng.below(10)
        n = rng.choice([3, 4, 5, 6, 8])

        def wop(pi):
            ls = gen_lines()
            op = {"o": "w", "p": pi, "lines": ls}
            r = rng.below(10)
            if r < 1 and len(ls) == 1:
                op["as"] = "str"
            elif r < 2:
                op["as"] = "tuple"
            elif r < 3:
                op["as"] = "gen"
            elif r < 5 and lists:
                j = rng.choice(lists)
                op["as"], op["of"], op["lines"] = "same", j, list(ops[j]["lines"])
            elif r < 7:
                op["scribble"] = True
            if op.get("as", "list") == "list" and not op.get("scribble"):
                lists.append(len(ops))
            written.add(pi)
            return op

        def rop(pi, kinds=((5, "r"), (4, "k"), (2, "z"))):
            o = rng.wchoice(list(kinds))
            op = {"o": o, "p": pi}
            if o == "r" and rng.chance(0.25):
                op["how"] = "fresh"
            if o == "k":
                op["k"] = rng.choice([0, 1, 1, 2, 3])
                op["how"] = rng.choice(["close", "drop"])
            return op
        ops.append(wop(0))
        if pattern < 3:            # write, read, write, read ... on one path, siblings in between
            for i in range(n):
                ops.append(rop(0) if i % 2 == 0 else wop(0))
                if np_ > 1 and rng.chance(0.4):
                    q = 1 + rng.below(np_ - 1)
                    ops.append(wop(q) if q not in written or rng.chance(0.5) else rop(q))
            ops.append({"o": "r", "p": 0})
        elif pattern < 6:          # read, abandon, read again, read a sibling
            if np_ > 1:
                ops.append(wop(1))
            ops.append(rop(0, ((1, "k"),)))
            ops.append(rop(0, ((3, "r"), (1, "z"))))
            if np_ > 1:
                ops.append(rop(1))
            if rng.chance(0.6):
                ops.append(wop(0))
            ops.append(rop(0, ((1, "k"),)))
            ops.append({"o": "r", "p": rng.below(np_) if np_ > 1 and 1 in written else 0})
            ops.append({"o": "r", "p": 0})
        else:
            for _ in range(n):
                pi = rng.below(np_)
                if pi not in written:
                    ops.append({"o": "r", "p": pi} if rng.chance(0.3) else wop(pi))
                else:
                    ops.append(wop(pi) if rng.chance(0.4) else rop(pi))
            ops.append({"o": "r", "p": rng.choice(sorted(written))})
        return {"kind": "hist", "what": "disk", "paths": paths, "batches": batches, "ops": ops}

    @staticmethod
    def _hist_pattern(ops, i):
        """shape of the history before op i on the same object: which kinds of operations preceded it (for the signature)"""
        prev = [o["o"] for o in ops[:i] if o["p"] == ops[i]["p"]]
        sib = any(o["p"] != ops[i]["p"] for o in ops[:i])
        bits = []
        if "k" in prev:
            bits.append("after-abandoned-read")
        if "z" in prev:
            bits.append("after-simultaneous-reads")
        if prev.count("w") >= 2:
            bits.append("after-several-writes")
        if "r" in prev:
            bits.append("after-read")
        if sib:
            bits.append("with-sibling")
        return "+".join(bits) or "first-use"

    def eval_hist(self, case, driver):
        ops = case["ops"]
        if case["what"] == "delim":
            return self._eval_hist_delim(case, driver)
        fails, tags = [], ["kind:hist", "hist:disk", "hist:paths=%d" % len(case["paths"]), "hist:ops=%s" % ("3-4" if len(ops) < 5 else "5-7" if len(ops) < 8 else "8+")]
        paths, batches = case["paths"], case["batches"]
        impl, mutated = run_disk_history(paths, batches, ops)
        okw = {"r": "complete read", "k": "read abandoned after k lines", "z": "two simultaneous reads of one DiskSource"}
        sofar = {}
        names = {"r": "read", "k": "abandoned-read", "z": "simultaneous-reads"}
        for o in ops:
            tags.append("hist:op:" + {"w": "write", **names}[o["o"]])
            if o.get("as") == "same":
                tags.append("hist:same-list-object-written-again")
            if o.get("scribble"):
                tags.append("hist:caller-changes-list-after-write")
            if o.get("how") == "fresh":
                tags.append("hist:fresh-sibling-source")
        hyp = all("\r" not in l and "\n" not in l for o in ops if o["o"] == "w" for l in o["lines"])
        nreads = 0
        for i, (o, got) in enumerate(zip(ops, impl)):
            pi = o["p"]
            gz = ".gz" in paths[pi]
            if o["o"] == "w":
                sofar.setdefault(pi, [])
                sofar[pi] = sofar[pi] + list(o["lines"])
                if got != "wrote" and hyp:
                    fails.append(F("B", "history %s on paths %r (batch %r): op %d DiskSink.write raised %r" % (json.dumps(ops), paths, batches, i, got),
                                   "hist:disk:write-raises:" + str(got.get("err") if isinstance(got, dict) else got)))
                continue
            if pi not in sofar:
                tags.append("hist:read-before-first-write")
                continue                      # no file yet: only (A) (FileNotFoundError)
            nreads += 1
            pat = self._hist_pattern(ops, i)
            tags.append("hist:" + pat)
            full = sofar[pi]
            exp = {"lines": {"ok": full[:o["k"]]}} if o["o"] == "k" else {"lines2": [{"ok": full}, {"ok": full}]} if o["o"] == "z" else {"lines": {"ok": full}}
            if hyp and got != exp:
                sym = "lines-differ"
                if isinstance(got, dict) and "lines" in got and "err" in got["lines"]:
                    sym = "raises-" + got["lines"]["err"]
                elif got == "nofile":
                    sym = "raises-FileNotFoundError"
                fails.append(F("B", "one DiskSink and one DiskSource per path %r (batch %r), history %s: op %d (%s of %r) returned %r; "
                               "the lines written to that path so far are %r" % (paths, batches, json.dumps(ops), i, okw[o["o"]], paths[pi], got, full),
                               "hist:disk:%s:%s:%s:%s" % (names[o["o"]], sym, pat, "gz" if gz else "plain")))
        if mutated and hyp:
            fails.append(F("B", "DiskSink.write changed the list it was given (history %s, write ops %r)" % (json.dumps(ops), mutated),
                           "hist:disk:write-changed-the-callers-list"))
        model = None
        if driver is not None:
            mops = []
            for o in ops:
                if o["o"] == "w":
                    mops.append({"o": "w", "p": o["p"], "batch": batches[o["p"]], "lines": [cps(l) for l in o["lines"]]})
                elif o["o"] == "k":
                    mops.append({"o": "k", "p": o["p"], "k": o["k"]})
                elif o["o"] == "z":
                    mops += [{"o": "r", "p": o["p"]}, {"o": "r", "p": o["p"]}]
                else:
                    mops.append({"o": "r", "p": o["p"]})
            ans = driver.ask({"op": "diskhist", "ops": mops})

            def dec(x):
                if isinstance(x, str):
                    return x
                return {"lines": self._lines_from_model(x["lines"])}
            run = ans["run"]
            spec = [dec(x) for x in ans["spec"]]
            if "ok" in run:
                mo, j = [dec(x) for x in run["ok"]], 0
                model = []
                for o in ops:
                    if o["o"] == "z":
                        a, b = mo[j], mo[j + 1]
                        model.append({"lines2": [a["lines"], b["lines"]]} if isinstance(a, dict) and isinstance(b, dict) else a)
                        j += 2
                    else:
                        model.append(mo[j])
                        j += 1
                if impl != model:
                    bad = [i for i, (a, b) in enumerate(zip(impl, model)) if a != b]
                    fails.append(F("A", "disk history %s on %r: implementation %r, model diskRun %r (first difference at op %r)" % (json.dumps(ops), paths, impl, model, bad[:1]),
                                   "A:disk-history"))
                if ans["hyp"] != hyp:
                    fails.append(F("A", "diskOpOk differs from the harness' hypothesis test", "A:disk-history-hyp"))
                if ans["hyp"] and [dec(x) for x in run["ok"]] != spec:
                    fails.append(F("C", "model: diskRun differs from diskSpecRun under diskOpOk", "C:disk_history_roundtrip"))
                if ans["hyp"]:
                    tags.append("hist:theorem-hypotheses-hold")
            else:
                model = run
                fails.append(F("A", "disk history: the model's write raises %r, implementation %r" % (run, impl), "A:disk-history-write-raises"))
        return {"fails": fails, "nontrivial": nreads >= 2 and len(ops) >= 3, "tags": tags, "impl": impl, "model": model}

    def _eval_hist_delim(self, case, driver):
        ops, objs = case["ops"], case["objs"]
        fails, tags = [], ["kind:hist", "hist:delim", "hist:objects=%d" % len(objs)]
        impl = run_delim_history(objs, ops)
        names = {"r": "read", "k": "abandoned-read", "z": "simultaneous-reads"}
        model = None
        mlines = None
        if driver is not None:
            mlines = []
            for c in objs:
                ans = driver.ask({"op": "delim", "chunks": [cps(x) for x in c]})
                mlines.append([uncps(l) for l in ans["fix"]])
            model = []
        for i, (o, got) in enumerate(zip(ops, impl)):
            tags.append("hist:op:" + names[o["o"]])
            pat = self._hist_pattern(ops, i)
            tags.append("hist:" + pat)
            full = "".join(objs[o["p"]]).splitlines()
            exp = {"lines": {"ok": full[:o["k"]]}} if o["o"] == "k" else {"lines2": [{"ok": full}, {"ok": full}]} if o["o"] == "z" else {"lines": {"ok": full}}
            if got != exp:
                sym = "raises-" + got["lines"]["err"] if "lines" in got and "err" in got["lines"] else "lines-differ"
                fails.append(F("B", "one DelimSource(IterableSource(chunks)) object per chunk list %r, history %s: op %d returned %r; "
                               "''.join(chunks).splitlines() = %r" % (objs, json.dumps(ops), i, got, full),
                               "hist:delim:%s:%s:%s" % (names[o["o"]], sym, pat)))
            if mlines is not None:
                m = mlines[o["p"]]
                me = {"lines": {"ok": m[:o["k"]]}} if o["o"] == "k" else {"lines2": [{"ok": m}, {"ok": m}]} if o["o"] == "z" else {"lines": {"ok": m}}
                model.append(me)
                if got != me:
                    fails.append(F("A", "DelimSource object history %s over %r: op %d implementation %r, model delimFix %r" % (json.dumps(ops), objs, i, got, me), "A:delim-history"))
        return {"fails": fails, "nontrivial": len(ops) >= 3 and any(len("".join(c).splitlines()) >= 2 for c in objs), "tags": tags, "impl": impl, "model": model}


    def search(self, rng, tier):
        k = rng.wchoice([(30, "chunk"), (10, "delim"), (10, "disk"), (20, "csv"), (10, "svm"), (20, "arff"), (10, "hist")])
        c = getattr(self, "gen_" + k)(rng, tier)
        if k == "chunk" and c["enc"] is None and len(c["text"].encode()) <= 60:
            c["chunk"] = "all"
        if k == "arff":     # plain tables in the canonical spelling: what must always work
            c["sp"] = {"sseed": c["sp"]["sseed"], "style": c["sp"].get("style", "weka")}
        return c

    # ------------------------------------------------------------------ translator step (phase 4, continued)
    GEN_DEFAULTS = {"numericTypes": ["numeric", "integer", "real"], "stringTypes": ["string", "date", "relational"],
                    "transDeleted": " \t\n\r\x0b\x0c", "sparseMissingIn": " ?,", "sparseMissingEnd": " ?}",
                    "sparseStripChars": "} {", "csvRstrip": "\r\n", "svmItemSep": " ", "svmNoLabelMark": ":",
                    "svmLabelSep": ",", "svmKvSep": ":", "manikSkip": 1,
                    # phase 5: the fallback parser `ArffLineReader._dense_advanced`
                    "fallbackThen": ",", "fallbackElse": "\t", "fallbackCountL": ",", "fallbackCountR": "\t",
                    "fallbackDeleted": "\\", "fallbackGlue": ",", "fallbackStrict": True}

    @staticmethod
    def extract_reader_tables(src):
        """the literal tables / separators of coba/pipes/readers.py, by `ast` (None for what is not found as a literal)"""
        import ast
        tree = ast.parse(src)
        classes = {n.name: n for n in tree.body if isinstance(n, ast.ClassDef)}

        def func(cls, name):
            c = classes.get(cls)
            for n in (c.body if c else []):
                if isinstance(n, ast.FunctionDef) and n.name == name:
                    return n
            return None

        def strs(node):
            return [n.value for n in ast.walk(node) if isinstance(n, ast.Constant) and isinstance(n.value, str)] if node else []

        def assign(node, name):
            for n in (ast.walk(node) if node else []):
                if isinstance(n, ast.Assign) and len(n.targets) == 1 and isinstance(n.targets[0], ast.Name) and n.targets[0].id == name:
                    return n.value
            return None

        def call_args(node, attr):
            """first positional string argument of every `<x>.<attr>(...)` call, in source order"""
            out = []
            for n in (ast.walk(node) if node else []):
                if isinstance(n, ast.Call) and isinstance(n.func, ast.Attribute) and n.func.attr == attr and n.args \
                        and isinstance(n.args[0], ast.Constant) and isinstance(n.args[0].value, str):
                    out.append((n.lineno, n.col_offset, n.args[0].value))
            return [v for _, _, v in sorted(out)]
        t = {}
        enc = func("ArffAttrReader", "_encoder")
        for key, var in (("numericTypes", "numeric_types"), ("stringTypes", "string_types")):
            v = assign(enc, var)
            if isinstance(v, (ast.Tuple, ast.List)) and all(isinstance(e, ast.Constant) and isinstance(e.value, str) for e in v.elts):
                t[key] = [e.value for e in v.elts]
        tr = assign(classes.get("ArffDataReader"), "_trans")
        if isinstance(tr, ast.Call) and len(tr.args) == 3 and all(isinstance(a, ast.Constant) for a in tr.args) and tr.args[0].value == "" and tr.args[1].value == "":
            t["transDeleted"] = tr.args[2].value
        sp = func("ArffDataReader", "_sparse")
        for n in (ast.walk(sp) if sp else []):
            if isinstance(n, ast.Compare) and len(n.ops) == 1 and isinstance(n.left, ast.Constant) and isinstance(n.ops[0], ast.In) and isinstance(n.left.value, str):
                t["sparseMissingIn"] = n.left.value
            if isinstance(n, ast.Compare) and len(n.ops) == 1 and isinstance(n.ops[0], ast.Eq) and isinstance(n.left, ast.Subscript) \
                    and isinstance(n.comparators[0], ast.Constant) and isinstance(n.comparators[0].value, str) and len(n.comparators[0].value) > 1:
                sl = n.left.slice
                if isinstance(sl, ast.Slice) and sl.upper is None and isinstance(sl.lower, ast.UnaryOp) and isinstance(sl.lower.operand, ast.Constant) \
                        and sl.lower.operand.value == len(n.comparators[0].value):
                    t["sparseMissingEnd"] = n.comparators[0].value
        a = call_args(func("ArffLineReader", "_sparse"), "strip")
        if len(a) == 1:
            t["sparseStripChars"] = a[0]
        a = call_args(func("CsvReader", "filter"), "rstrip")
        if len(a) == 1:
            t["csvRstrip"] = a[0]
        svm = func("LibsvmReader", "filter")
        a = call_args(svm, "split")
        if len(a) == 3:
            t["svmItemSep"], t["svmLabelSep"], t["svmKvSep"] = a
        for n in (ast.walk(svm) if svm else []):
            if isinstance(n, ast.Compare) and len(n.ops) == 1 and isinstance(n.ops[0], ast.In) and isinstance(n.left, ast.Constant) and isinstance(n.left.value, str):
                t["svmNoLabelMark"] = n.left.value
        mk = func("ManikReader", "filter")
        for n in (ast.walk(mk) if mk else []):
            if isinstance(n, ast.Call) and isinstance(n.func, ast.Name) and n.func.id == "islice" and len(n.args) == 3 \
                    and isinstance(n.args[1], ast.Constant) and isinstance(n.args[1].value, int) and isinstance(n.args[2], ast.Constant) and n.args[2].value is None:
                t["manikSkip"] = n.args[1].value
        # phase 5: `_dense_advanced`: `',' if len(line.split(',')) > len(line.split('\t')) else "\t"`, `item += "," + …`, `item.replace('\\','')`
        adv = func("ArffLineReader", "_dense_advanced")

        def len_split(n):
            if isinstance(n, ast.Call) and isinstance(n.func, ast.Name) and n.func.id == "len" and len(n.args) == 1:
                c = n.args[0]
                if isinstance(c, ast.Call) and isinstance(c.func, ast.Attribute) and c.func.attr == "split" and len(c.args) == 1 \
                        and isinstance(c.args[0], ast.Constant) and isinstance(c.args[0].value, str):
                    return c.args[0].value
            return None
        for n in (ast.walk(adv) if adv else []):
            if isinstance(n, ast.IfExp) and isinstance(n.body, ast.Constant) and isinstance(n.orelse, ast.Constant) \
                    and isinstance(n.test, ast.Compare) and len(n.test.ops) == 1 and isinstance(n.test.ops[0], (ast.Gt, ast.GtE)):
                l, r = len_split(n.test.left), len_split(n.test.comparators[0])
                if l is not None and r is not None and isinstance(n.body.value, str) and isinstance(n.orelse.value, str):
                    t["fallbackThen"], t["fallbackElse"], t["fallbackCountL"], t["fallbackCountR"] = n.body.value, n.orelse.value, l, r
                    t["fallbackStrict"] = isinstance(n.test.ops[0], ast.Gt)       # `>` (strict) or `>=`
            if isinstance(n, ast.AugAssign) and isinstance(n.op, ast.Add) and isinstance(n.value, ast.BinOp) and isinstance(n.value.op, ast.Add) \
                    and isinstance(n.value.left, ast.Constant) and isinstance(n.value.left.value, str):
                t["fallbackGlue"] = n.value.left.value
            if isinstance(n, ast.Call) and isinstance(n.func, ast.Attribute) and n.func.attr == "replace" and len(n.args) == 2 \
                    and all(isinstance(a, ast.Constant) and isinstance(a.value, str) for a in n.args) and n.args[1].value == "":
                t["fallbackDeleted"] = n.args[0].value
        return t

    def pre_build(self):
        """regenerate lean/CobaVerif/Generated/C12Readers.lean from the CURRENT coba/pipes/readers.py; Props/C12.lean proves that
        these tables are the ones the model uses (`readers_tables_match`, `compact_uses_trans`, …)"""
        from core import lean
        repo = os.environ.get("COBA_REPO", "/repo")
        try:
            with open(os.path.join(repo, "coba", "pipes", "readers.py"), encoding="utf-8") as f:
                found = self.extract_reader_tables(f.read())
        except (OSError, SyntaxError):
            found = {}
        missing = [k for k in self.GEN_DEFAULTS if k not in found]
        vals = dict(self.GEN_DEFAULTS, **found)

        def txt(x):
            return "[" + ", ".join(str(ord(ch)) for ch in x) + "]"
        body = ("-- GENERATED by harness/props/c12.py (pre_build, Python `ast`) from coba/pipes/readers.py on every run; do not edit.\n"
                + ("-- NOT FOUND as literals (code reshaped), model defaults used: %s\n" % ", ".join(missing) if missing else "")
                + "namespace Coba.Generated.C12Readers\n"
                + "def numericTypes : List (List Nat) := [%s]\n" % ", ".join(txt(x) for x in vals["numericTypes"])
                + "def stringTypes : List (List Nat) := [%s]\n" % ", ".join(txt(x) for x in vals["stringTypes"])
                + "".join("def %s : List Nat := %s\n" % (k, txt(vals[k])) for k in
                          ("transDeleted", "sparseMissingIn", "sparseMissingEnd", "sparseStripChars", "csvRstrip", "svmItemSep", "svmNoLabelMark", "svmLabelSep", "svmKvSep",
                           "fallbackThen", "fallbackElse", "fallbackCountL", "fallbackCountR", "fallbackDeleted", "fallbackGlue"))
                + "def fallbackStrict : Bool := %s\n" % ("true" if vals["fallbackStrict"] else "false")
                + "def manikSkip : Nat := %d\n" % vals["manikSkip"]
                + "def extracted : Bool := %s\n" % ("true" if not missing else "false")
                + "end Coba.Generated.C12Readers\n")
        path = os.path.join(lean.LEAN_DIR, "CobaVerif", "Generated", "C12Readers.lean")
        old = open(path, encoding="utf-8").read() if os.path.exists(path) else None
        if old != body:
            os.makedirs(os.path.dirname(path), exist_ok=True)
            with open(path, "w", encoding="utf-8") as f:
                f.write(body)
        if missing:
            return ["reader tables NOT extracted as literals from coba/pipes/readers.py: %s (defaults written; obligations about them are vacuous)" % ", ".join(missing)]
        return ["reader tables extracted from coba/pipes/readers.py: " + ", ".join("%s=%r" % (k, vals[k]) for k in self.GEN_DEFAULTS)]

    def corpus(self):
        cs = []
        for text in ["aé\r\nb c\x0bd\n", "é", "a\r\nb", "\r\n", "a\r", "\n\n", "", "x", "\U0001F600\r\n中",
                     "a\x1cb\x1dc\x1ed\x85e f\x0c", "a\r\r\nb\n\rc"]:
            cs.append({"kind": "chunk", "text": text, "enc": None, "level": 6, "chunk": "all"})
            for enc in ("gzip", "deflate"):
                for k in (1, 2, 3):
                    cs.append({"kind": "chunk", "text": text, "enc": enc, "level": 0, "chunk": k})
        big = "\n".join("row %d,v,%d" % (i, i * 7) for i in range(2500)) + "\n"
        cs.append({"kind": "chunk", "text": big, "enc": "gzip", "level": 9, "chunk": 1024})
        cs.append({"kind": "chunk", "text": big, "enc": "deflate", "level": 6, "chunk": 256})
        cs.append({"kind": "chunk", "bytes": [0x61, 0xC3], "enc": None, "level": 6, "chunk": 1})          # truncated stream: an error either way
        cs.append({"kind": "chunk", "bytes": [0x61, 0xFF, 0x62], "enc": None, "level": 6, "chunk": 2})
        cs.append({"kind": "chunk", "bytes": [0xED, 0xA0, 0x80], "enc": None, "level": 6, "chunk": 3})    # surrogate
        cs.append({"kind": "chunk", "bytes": [0xC0, 0x80], "enc": None, "level": 6, "chunk": 5})          # overlong
        cs.append({"kind": "chunk", "bytes": [0xF4, 0x90, 0x80, 0x80], "enc": None, "level": 6, "chunk": 5})
        cs.append({"kind": "delim", "chunks": ["a\r", "\nb"]})
        cs.append({"kind": "delim", "chunks": ["a\r", "", "\n", "b\r", "\n"]})
        cs.append({"kind": "delim", "chunks": ["a ", "b"]})
        cs.append({"kind": "delim", "chunks": [" "]})
        cs.append({"kind": "delim", "chunks": ["a", " ", "b"]})
        cs.append({"kind": "delim", "chunks": ["", "", ""]})
        # phase 6: histories on long-lived DiskSink / DiskSource / DelimSource objects
        for paths in (["a.log", "a.log.gz"], ["d/a.log.gz", "a.log"]):
            cs.append({"kind": "hist", "what": "disk", "paths": paths, "batches": [None, 2], "ops": [
                {"o": "w", "p": 0, "lines": ["aé", "b"]}, {"o": "r", "p": 0}, {"o": "w", "p": 0, "lines": ["c"]}, {"o": "r", "p": 0},
                {"o": "w", "p": 1, "lines": ["x", "y", "z"]}, {"o": "k", "p": 0, "k": 1, "how": "close"}, {"o": "r", "p": 0},
                {"o": "r", "p": 1}, {"o": "k", "p": 1, "k": 2, "how": "drop"}, {"o": "z", "p": 1}, {"o": "r", "p": 0, "how": "fresh"}, {"o": "r", "p": 1}]})
            cs.append({"kind": "hist", "what": "disk", "paths": paths, "batches": [1, None], "ops": [
                {"o": "r", "p": 1}, {"o": "w", "p": 0, "lines": ["a", "", "b "]}, {"o": "w", "p": 0, "lines": ["a", "", "b "], "as": "same", "of": 1},
                {"o": "z", "p": 0}, {"o": "w", "p": 1, "lines": ["only"], "as": "str"}, {"o": "w", "p": 0, "lines": ["t", "u"], "scribble": True},
                {"o": "w", "p": 1, "lines": ["g1", "g2"], "as": "gen"}, {"o": "w", "p": 1, "lines": [], "as": "tuple"}, {"o": "k", "p": 1, "k": 0, "how": "close"},
                {"o": "r", "p": 0}, {"o": "r", "p": 1}]})
        cs.append({"kind": "hist", "what": "delim", "objs": [["a\r", "\nb\nc", "d\n", "e"], ["x\u2028", "y"]], "ops": [
            {"o": "k", "p": 0, "k": 1, "how": "close"}, {"o": "r", "p": 0}, {"o": "k", "p": 0, "k": 2, "how": "drop"}, {"o": "r", "p": 1},
            {"o": "z", "p": 0}, {"o": "r", "p": 0}]})
        cs.append({"kind": "disk", "writes": [["aé", "", "b "]], "gz": False, "batch": None})
        cs.append({"kind": "disk", "writes": [["a", "b", "c", "d"], "e"], "gz": True, "batch": 2})
        cs.append({"kind": "disk", "writes": [["a\rb"]], "gz": False, "batch": None})
        for p in ("table.csv.gz.1", "cache.gz/table.csv", "t.log.gz", "data.GZ", "x.gz.d/f", "plain.txt"):
            cs.append({"kind": "disk", "script": [{"w": ["aé", "b", ""]}, {"w": "c"}], "mode": None, "gz": ".gz" in p, "batch": None, "path": p})
        cs.append({"kind": "disk", "script": [{"w": ["aé", "b"]}], "mode": None, "gz": True, "batch": None, "path": "made-by-gzip.csv.gz", "direct": "gzip"})
        cs.append({"kind": "disk", "script": [{"w": ["aé", "b"]}], "mode": None, "gz": False, "batch": None, "path": "made-by-open.GZ", "direct": "plain"})
        for gz in (False, True):
            cs.append({"kind": "disk", "script": [{"with": [{"w": "first"}, {"w": ["second", "third"]}]}, {"w": "fourth"}], "mode": None, "gz": gz, "batch": None})
            cs.append({"kind": "disk", "script": [{"with": [{"w": "first"}, {"w": ["second", "third"]}]}], "mode": "w", "gz": gz, "batch": None})
            cs.append({"kind": "disk", "script": [{"with": [{"with": [{"w": ["a", "b", "c"]}]}, {"w": "d"}]}, {"w": ["e"]}], "mode": None, "gz": gz, "batch": 2})
        base = {"sseed": 1, "quoting": "minimal", "delimiter": ","}
        cs.append({"kind": "csv", "rows": [[" a", "b"]], "header": None, "sp": base, "via": {"mode": "lines"}})
        cs.append({"kind": "csv", "rows": [["x", ""]], "header": None, "sp": dict(base, delimiter="\t"), "via": {"mode": "lines"}})
        cs.append({"kind": "csv", "rows": [], "header": None, "sp": base, "via": {"mode": "lines"}})
        cs.append({"kind": "csv", "rows": [], "header": ["a", "b"], "sp": base, "via": {"mode": "lines"}})
        cs.append({"kind": "csv", "rows": [["a,b", 'c"d', "", "é"], ["1", "2", "3", "4"]], "header": ["h 1", "h,2", "h3", "h4"], "sp": base, "via": {"mode": "lines"}})
        cs.append({"kind": "csv", "rows": [[""]], "header": None, "sp": base, "via": {"mode": "lines"}})
        cs.append({"kind": "svm", "rows": [{"labels": ["1", "2"], "feats": [[0, "1"], [3, "0.5"]]}, {"labels": ["a"], "feats": []}], "manik": False, "sp": {"sseed": 1}, "via": {"mode": "lines"}})
        cs.append({"kind": "svm", "rows": [{"labels": ["1"], "feats": [[1, "2"]]}], "manik": True, "sp": {"sseed": 1}, "via": {"mode": "lines"}})
        t = {"cols": [{"name": "a", "type": "numeric"}, {"name": "b b", "type": "string"}, {"name": "c", "type": "nominal", "levels": ["x", "y z", "w"]},
                      {"name": "d", "type": "date"}],
             "rows": [["1", "s t", "x", "2001-01-01"], ["2.5", "it's", "y z", "2002-02-02"], [None, "p,q", "w", None], ["0", "100%", "x", "2003-03-03"]]}
        for dense in (True, False):
            for sp in ({"sseed": 1, "style": "weka"}, {"sseed": 1, "style": "liac"}, {"sseed": 1, "style": "weka", "kw_case": "upper", "sep": "\t", "comments": True, "blanks": True}):
                cs.append({"kind": "arff", "table": t, "dense": dense, "sp": sp, "via": {"mode": "lines"}})
        for le in ("\n", "\r\n", "mix"):
            for fin in (True, False):
                kv = {"mode": "keepends", "le": le, "final_nl": fin, "tseed": 3}
                cs.append({"kind": "csv", "rows": [["1", "a, b", " x "], ["2", 'say "hi"', ""], ["3", "", "z"]], "header": ["id", "name", "note"],
                           "sp": dict(base, blanks=True, sseed=5), "via": kv})
                cs.append({"kind": "csv", "rows": [["1", "2"], ["3", "4"]], "header": None, "sp": dict(base, blanks=True, sseed=11), "via": kv, "src": True})
                cs.append({"kind": "svm", "rows": [{"labels": ["1", "2"], "feats": [[0, "1"], [3, "0.5"]]}, {"labels": ["a"], "feats": []}], "manik": False,
                           "sp": {"sseed": 2, "blanks": True}, "via": kv})
                cs.append({"kind": "svm", "rows": [{"labels": ["1"], "feats": [[1, "2"]]}, {"labels": ["0"], "feats": [[2, "3"]]}], "manik": True,
                           "sp": {"sseed": 4, "blanks": True}, "via": kv})
                for dense in (True, False):
                    cs.append({"kind": "arff", "table": {"cols": t["cols"][:1] + t["cols"][2:3], "rows": [r[:1] + r[2:3] for r in t["rows"]]}, "dense": dense,
                               "sp": {"sseed": 7, "style": "weka", "blanks": True, "comments": True}, "via": kv})
        cs.append({"kind": "reuse", "fmt": "csv", "abandon": [False, False], "inputs": [
            {"kind": "csv", "rows": [["1", "ann", "0.5"], ["2", "bob", "0.7"]], "header": ["id", "name", "score"], "sp": dict(base), "via": {"mode": "lines"}},
            {"kind": "csv", "rows": [["0.1", "7", "Oslo", "eve"], ["0.2", "8", "Rome", "dan"]], "header": ["score", "id", "city", "name"], "sp": dict(base), "via": {"mode": "lines"}}]})
        shared = {"cols": [{"name": "n", "type": "numeric"}, {"name": "c", "type": "nominal", "levels": ["x", "y"]}], "rows": [["1", "y"], ["2", "x"]]}
        for d1, d2 in ((False, True), (True, False)):
            cs.append({"kind": "reuse", "fmt": "arff", "abandon": [False, False], "inputs": [
                {"kind": "arff", "table": shared, "dense": d1, "sp": {"sseed": 1, "style": "weka"}, "via": {"mode": "lines"}},
                {"kind": "arff", "table": dict(shared, rows=[["3", "x"]]), "dense": d2, "sp": {"sseed": 1, "style": "weka"}, "via": {"mode": "lines"}}]})
        cs.append({"kind": "reuse", "fmt": "csv", "abandon": [True, False], "inputs": [
            {"kind": "csv", "rows": [["1", "2"], ["3", "4"]], "header": ["a", "b"], "sp": dict(base), "via": {"mode": "lines"}},
            {"kind": "csv", "rows": [["5"]], "header": ["c"], "sp": dict(base), "via": {"mode": "lines"}}]})
        for d1, d2 in ((True, False), (False, True), (True, True)):
            cs.append({"kind": "reuse", "fmt": "arff", "abandon": [False, False], "inputs": [
                {"kind": "arff", "table": t, "dense": d1, "sp": {"sseed": 1, "style": "weka"}, "via": {"mode": "lines"}},
                {"kind": "arff", "table": {"cols": [{"name": "z", "type": "nominal", "levels": ["p", "q"]}, {"name": "a", "type": "string"}], "rows": [["q", "x"], ["p", "y"]]},
                 "dense": d2, "sp": {"sseed": 2, "style": "weka", "sep": "\t"}, "via": {"mode": "lines"}}]})
        one = {"cols": [{"name": "a", "type": "numeric"}], "rows": [["1"], [None]]}
        cs.append({"kind": "arff", "table": one, "dense": True, "sp": {"sseed": 1, "style": "weka"}, "via": {"mode": "lines"}})
        # round g: the coordinator's two demos (falsy first sparse row; label_col=0) through the labelled pipelines
        cs.append({"kind": "label", "fmt": "arff-sparse", "names": ["a", "b", "y"], "rows": [[0, 0, 0], [1, 0, 3], [0, 2, 0], [4, 5, 6]], "label": "y"})
        cs.append({"kind": "label", "fmt": "arff-sparse", "names": ["a", "b", "y"], "rows": [[1, 0, 3], [0, 2, 0], [0, 0, 0]], "label": "a"})
        cs.append({"kind": "label", "fmt": "csv", "names": ["a", "b", "y"], "rows": [["spam", "1.5", "free"], ["ham", "0.25", "lunch"], ["spam", "3", "win"]], "label": 0, "header": False})
        cs.append({"kind": "label", "fmt": "csv", "names": ["a", "b", "y"], "rows": [["spam", "1.5", "free"], ["ham", "0.25", "lunch"]], "label": -1, "header": False})
        cs.append({"kind": "label", "fmt": "csv", "names": ["a", "b", "y"], "rows": [["spam", "1.5", "free"], ["ham", "0.25", "lunch"]], "label": "a", "header": True})
        # phase 6: every way of naming a column; references outside the table; duplicate header names
        for lab, hd, nm in [(-3, False, None), (-2, True, None), (1, True, None), (2, False, None), ("b", True, None), ("y", True, None),
                            (3, False, None), (-4, True, None), ("nope", True, None), ("a", False, None), ("a", True, ["a", "a", "y"]), (-1, True, ["a", "a", "y"])]:
            cs.append({"kind": "label", "fmt": "csv", "names": nm or ["a", "b", "y"], "rows": [["spam", "1.5", "free"], ["ham", "0.25", "lunch"]], "label": lab, "header": hd})
        for tok in ["1_000", "1__0", "_1", "1_", "+1", " 12 ", "inf", "-Infinity", "NaN", "1_0.5e1_0", "1._5", "1e_5", ".", "+.5", "\u20037", "0x10", "\x0bNaN\x1c", "1\x1c", "\x1f2.5"]:
            cs.append({"kind": "lit", "sub": "num", "tok": tok})
        for vals, pad in [(["a", "b"], 0), (["a b", "?", "{x}"], 1), (["\tx", "y"], 0), (["x\\", "y"], 0), (["", "y"], 2), (["%", "1.5", "é"], 2)]:
            cs.append({"kind": "lit", "sub": "plain", "values": vals, "pad": pad})
        # phase 5: the fallback parser with `_fallback_delim` undecided (witnesses of arff_fallback_undecided_iff / _counterexample)
        for vals in [["it's", 'say"hi'], ["a\tb", "c", "d"], ["a\tb", "c\td"], ["a\tb", "c"], ["a\\b", "c"], ["a\tb"], ["x"], ["a\t'b", "c", "d"],
                     ["a", ""], [" a", "b"], ["a'", "b\t\"c", "d", "e"]]:
            cs.append({"kind": "lit", "sub": "undecided", "values": vals, "style": "corpus"})
        # phase 5: LibSVM numerals (witnesses of libsvm_numerals_counterexample)
        for items in [[["1_0", "2"]], [["1__0", "2"]], [["3", "1e"]], [["3\x1c", "1"]], [["3", "1"], ["4", "2"], ["3", "9"]], [["+3", "nan"], ["007", "-inf"]], [["3", "1_0.5"]]]:
            for manik in (False, True):
                cs.append({"kind": "lit", "sub": "svmnum", "rows": [{"labels": ["1"], "items": items}], "manik": manik})
        # hand-made cases and corrected false alarms: corpus/C12/*.json
        d = os.path.join(os.path.dirname(os.path.dirname(os.path.dirname(os.path.abspath(__file__)))), "corpus", "C12")
        if os.path.isdir(d):
            for nm in sorted(os.listdir(d)):
                if nm.endswith(".json"):
                    with open(os.path.join(d, nm), encoding="utf-8") as f:
                        cs.append(json.load(f))
        return cs

    def exhaustive(self, tier):
        """all chunkings (every subset of cut positions) of short byte strings through DelimSource and all
        chunk sizes through _byte_it_"""
        out = []
        texts = ["a\r\nb", "é\r\n", "a b\r", "\r\n\r\n", "a\n\rb", "\U0001F600\r\nx", "a\x0b\nb", "ab\r"]
        for t in texts:
            n = len(t)
            for mask in range(1 << (n - 1)) if n > 1 else [0]:
                chunks, prev = [], 0
                for i in range(1, n):
                    if mask >> (i - 1) & 1:
                        chunks.append(t[prev:i])
                        prev = i
                chunks.append(t[prev:])
                out.append({"kind": "delim", "chunks": chunks})
            out.append({"kind": "chunk", "text": t, "enc": None, "level": 6, "chunk": "all"})
        return out

    # ------------------------------------------------------------------ evaluation
    def evaluate(self, case, driver):
        return getattr(self, "eval_" + case["kind"])(case, driver)

    # .................................................................. chunk
    def eval_chunk(self, case, driver):
        fails, tags = [], ["kind:chunk", "enc:%s" % case["enc"]]
        if "bytes" in case:
            plain = bytes(case["bytes"])
        else:
            plain = case["text"].encode("utf-8")
        try:
            text = plain.decode("utf-8")
            expected = {"ok": text.splitlines()}
        except UnicodeDecodeError:
            text = None
            expected = {"err": "UnicodeDecodeError"}
            tags.append("invalid-utf8")
        enc = case["enc"]
        data = compress(plain, enc, case.get("level", 6))
        whole = run_byte_it(enc, None, data)
        if text is not None and whole != {"ok": text}:
            fails.append(F("B", "_byte_it_(%r,'utf-8',None,..) returned %r, the text is %r" % (enc, whole, text), "chunk:whole-read-differs"))
        if text is None and "err" not in whole:
            fails.append(F("B", "_byte_it_ accepted an undecodable stream: %r" % (whole,), "chunk:whole-read-accepts-invalid"))
        sizes = list(range(1, len(data) + 2)) if case["chunk"] == "all" else [case["chunk"]]
        if case["chunk"] == "all":
            tags.append("all-sizes")
        impl_all, model_all = {}, {}
        nontrivial = False
        for k in sizes:
            impl = run_byte_it(enc, k, data)
            impl_all[str(k)] = impl
            pieces = pieces_of(data, enc, k)
            if b"".join(pieces) != plain:      # the law assumed of zlib (Decomp.Lawful): pieces concatenate to the plain stream
                fails.append(F("A", "zlib: the pieces decompressobj(%r) returns for chunk size %d do not concatenate to the plain stream" % (enc, k), "A:zlib-lawful"))
            feats = cut_features(pieces)
            for f in feats:
                tags.append("cut:" + f)
            if len(pieces) >= 2 and text is not None and len(expected["ok"]) >= 2:
                nontrivial = True
            if impl != expected:
                if "err" in expected:
                    sig = "chunk:accepts-invalid-stream"
                else:
                    sig = delivery_sig("chunk", impl, expected, feats)
                fails.append(F("B", "HttpSource._byte_it_(%r,'utf-8',%d,<%d bytes>) gives %r; text.splitlines() is %r (text %r)"
                               % (enc, k, len(data), impl, expected, text if text is not None else list(plain)), sig))
            if driver is not None:
                ans = driver.ask({"op": "chunk", "pieces": [list(p) for p in pieces]})
                m = {kk: self._lines_from_model(ans[kk]) for kk in ("cur", "fix", "whole")}
                model_all[str(k)] = {"cur": m["cur"], "good": ans["good"]}
                if impl != m["cur"] and impl != m["fix"]:
                    fails.append(F("A", "chunk size %d: implementation %r, model of the code %r, model of the repaired code %r" % (k, impl, m["cur"], m["fix"]), "A:chunk"))
                if m["whole"] != expected:
                    fails.append(F("A", "model decode+splitlines %r differs from CPython %r" % (m["whole"], expected), "A:chunk-spec"))
                if m["fix"] != m["whole"]:
                    fails.append(F("C", "model: repaired pipeline differs from the whole-text reading", "C:chunk_invariance"))
                if ans["good"] and m["cur"] != m["whole"]:
                    fails.append(F("C", "model: current pipeline differs on a good cut", "C:chunk_invariance_partial"))
        if driver is not None and text is not None and enc is None and len(plain) <= 60 and case["chunk"] != "all":
            # a stream whose first n bytes are swallowed by the decompressor (empty outputs mid-stream), Decomp.skip
            n = 1 + (len(plain) % 5)
            k = max(1, int(case["chunk"]))
            stream = bytes([0x1f] * n) + plain
            chunks = [list(stream[i:i + k]) for i in range(0, len(stream), k)]
            ans = driver.ask({"op": "chunkskip", "n": n, "chunks": chunks})
            tags.append("skip-decompressor")
            if any(len(p) == 0 for p in ans["pieces"]):
                tags.append("skip-decompressor:empty-output")
            got = self._lines_from_model(ans["fix"])
            if got != expected or self._lines_from_model(ans["whole"]) != expected:
                fails.append(F("C", "model: readFix (Decomp.skip %d) gives %r, the text has lines %r" % (n, got, expected), "C:delivery_invariance_header_skip"))
        return {"fails": fails, "nontrivial": nontrivial, "tags": sorted(set(tags)), "impl": impl_all if len(sizes) <= 3 else {"sizes": len(sizes)},
                "model": model_all if len(sizes) <= 3 else None}

    @staticmethod
    def _lines_from_model(x):
        if "err" in x:
            return {"err": x["err"]}
        return {"ok": [uncps(l) for l in x["ok"]]}

    # .................................................................. delim
    def eval_delim(self, case, driver):
        fails, tags = [], ["kind:delim"]
        chunks = case["chunks"]
        text = "".join(chunks)
        expected = {"ok": text.splitlines()}
        impl = run_delim(chunks)
        feats = text_cut_features(chunks)
        tags += ["cut:" + f for f in feats]
        if any(c == "" for c in chunks):
            tags.append("empty-chunk")
        if impl != expected:
            fails.append(F("B", "list(DelimSource(IterableSource(%r)).read()) = %r; ''.join(chunks).splitlines() = %r" % (chunks, impl, expected),
                           delivery_sig("delim", impl, expected, feats)))
        model = None
        if driver is not None:
            ans = driver.ask({"op": "delim", "chunks": [cps(c) for c in chunks]})
            model = {k: [uncps(l) for l in ans[k]] for k in ("cur", "fix", "whole")}
            if impl != {"ok": model["cur"]} and impl != {"ok": model["fix"]}:
                fails.append(F("A", "DelimSource: implementation %r, model of the code %r, of the repaired code %r" % (impl, model["cur"], model["fix"]), "A:delim"))
            if model["whole"] != expected["ok"]:
                fails.append(F("A", "model splitlines %r differs from str.splitlines %r" % (model["whole"], expected["ok"]), "A:splitlines"))
            if model["fix"] != model["whole"]:
                fails.append(F("C", "model: delimFix differs from splitlines", "C:delim_invariance"))
            if ans["good"] and model["cur"] != model["whole"]:
                fails.append(F("C", "model: delimCur differs on a good cut", "C:delim_partial"))
        return {"fails": fails, "nontrivial": len([c for c in chunks if c]) >= 2 and len(expected["ok"]) >= 2, "tags": tags, "impl": impl, "model": model}

    # .................................................................. disk
    def eval_disk(self, case, driver):
        fails, tags = [], ["kind:disk", "gz" if case["gz"] else "plain", "batch:%s" % case["batch"], "mode:%s" % (case.get("mode") or "a+")]
        script = case.get("script") or [{"w": w} for w in case["writes"]]

        def wargs(sc):
            out = []
            for op in sc:
                out += wargs(op["with"]) if "with" in op else [op["w"]]
            return out

        def depth(sc):
            return max([1 + depth(op["with"]) for op in sc if "with" in op] + [0])
        writes = wargs(script)
        flat = script_lines(script)
        dp = depth(script)
        if dp:
            tags.append("with-block" + (":nested" if dp > 1 else ""))
            if any("with" not in op for op in script) and any("with" in op for op in script):
                tags.append("with-block:and-plain-writes")
        hyp = all("\r" not in l and "\n" not in l for l in flat)
        impl = run_disk(script, case["gz"], case["batch"], mode=case.get("mode"), relpath=case.get("path"), direct=case.get("direct"))
        if case.get("path"):
            p = case["path"]
            shape = ("gz-in-dirname" if ".gz" in os.path.dirname(p) else "gz-at-end" if p.endswith(".gz") else "gz-in-the-middle" if ".gz" in p
                     else "GZ-uppercase" if ".gz" in p.lower() else "no-gz")
            tags.append("path:" + shape)
        if case.get("direct"):
            tags.append("direct-file:" + case["direct"])
        raw = impl.pop("raw", None)
        if not hyp:
            tags.append("line-with-terminator")
        if hyp and impl != {"ok": flat}:
            pname = case.get("path") or ("x.log.gz" if case["gz"] else "x.log")
            how = ("a file %r written directly with %s" % (pname, "gzip.open" if case.get("direct") == "gzip" else "open")) if case.get("direct") else \
                  ("DiskSink(%r%s,batch=%r) used as %s" % (pname, ", mode=%r" % case["mode"] if case.get("mode") else "", case["batch"], json.dumps(script)))
            fails.append(F("B", "%s then DiskSource(%r).read(): %r, written %r" % (how, pname, impl, flat),
                           "disk:" + ("raises-" + impl["err"] if "err" in impl else "lines-differ") + (":gz" if ".gz" in pname else ":plain")))
        model = None
        if driver is not None:
            parts, ok = [], True
            for w in writes:
                ans = driver.ask({"op": "disk", "lines": [cps(l) for l in ([w] if isinstance(w, str) else w)], "batch": case["batch"]})
                if "err" in ans["parts"]:
                    ok = False
                    break
                parts += ans["parts"]["ok"]
                if ans["hyp"] and ans["read"] != {"ok": [cps(l) for l in ([w] if isinstance(w, str) else w)]}:
                    fails.append(F("C", "model: diskRead(diskWrite(lines)) != lines under the hypotheses", "C:disk_roundtrip"))
            if ok:
                content = bytes(b for p in parts for b in p)
                rd = driver.ask({"op": "diskread", "bytes": list(content)})["read"]
                model = self._lines_from_model(rd)
                if impl != model:
                    fails.append(F("A", "DiskSource.read(): implementation %r, model %r" % (impl, model), "A:disk-read"))
        return {"fails": fails, "nontrivial": len(flat) >= 1, "tags": tags, "impl": impl, "model": model}

    # .................................................................. csv
    def eval_csv(self, case, driver):
        fails, tags = [], ["kind:csv", "via:" + case["via"]["mode"], "quoting:" + case["sp"].get("quoting", "minimal"),
                           "delim:" + {",": "comma", "\t": "tab"}.get(case["sp"].get("delimiter", ","), "other")]
        sp = case["sp"]
        delim = sp.get("delimiter", ",")
        plan = csv_plan(case["rows"], sp, case["header"])
        lines = csv_render(plan, sp)
        has_header = case["header"] is not None
        if "" in lines:
            tags.append("blank-lines" + (":kept-terminators" if case["via"]["mode"] == "keepends" else ""))
        got_lines, exp_lines = deliver(lines, case["via"])
        if got_lines != {"ok": exp_lines}:
            return self._delivery_failure(case, lines, got_lines, exp_lines, tags)
        impl = run_csv(got_lines["ok"], has_header, delim, case.get("src", False))
        expected = {"ok": {"header": case["header"] if case["rows"] else None, "rows": case["rows"]}}
        if has_header:
            tags.append("header")
        edge = any(l != l.strip() for l in lines if l.strip())
        lonews = any(l.strip() == "" and l != "" for l in lines)
        if edge:
            tags.append("edge-whitespace")
        if not plan:
            tags.append("empty-table")
        if impl != expected:
            if "err" in impl:
                sym = "raises-" + impl["err"]
            elif len(impl["ok"]["rows"]) != len(case["rows"]):
                sym = "row-count"
            elif impl["ok"]["rows"] != case["rows"]:
                sym = "cells"
            else:
                sym = "header"
            if not plan and sym == "raises-StopIteration":
                sig = "csv:empty-input-raises-StopIteration"
            elif (edge or lonews) and sym in ("cells", "row-count", "header", "raises-StopIteration") and \
                    run_csv_reference(got_lines["ok"], has_header, delim, False) == expected and \
                    run_csv_reference(got_lines["ok"], has_header, delim, True) == impl:
                # CPython's csv.reader gives the table on the lines as they are, and exactly what coba returned on the stripped lines
                sig = "csv:line-strip-eats-edge-whitespace"
            else:
                sig = "csv:%s:%s" % (sym, sp.get("quoting", "minimal"))
            fails.append(F("B", "CsvReader(has_header=%r%s).filter(%r) gives %r; written %r" % (has_header, "" if delim == "," else ", delimiter=%r" % delim,
                                                                                                  got_lines["ok"], impl, expected), sig))
        model = None
        if driver is not None:
            ans = driver.ask({"op": "csv", "lines": [cps(l) for l in got_lines["ok"]], "delim": ord(delim), "header": has_header})
            model = {k: self._csv_from_model(ans[k]) for k in ("cur", "fix")}
            # the reader yields rows lazily: `next()` runs in filter(); a missing header dict is None for no rows
            if impl != model["cur"] and impl != model["fix"]:
                fails.append(F("A", "CsvReader: implementation %r, model of the code %r, of the repaired code %r" % (impl, model["cur"], model["fix"]), "A:csv"))
            w = driver.ask({"op": "csvwrite", "delim": ord(delim), "rows": [[{"q": bool(q), "f": cps(s)} for q, s in pr] for pr in plan]})
            wl = [uncps(l) for l in w["lines"]]
            if wl != [l for l in lines if l != ""]:
                fails.append(F("A", "RFC 4180 writer of the spec %r differs from the harness writer %r" % (wl, lines), "A:csv-writer"))
            if w["hyp"] and case["via"]["mode"] in ("lines", "keepends") and model["fix"] != expected:
                fails.append(F("C", "model: csvReaderFix(write rows) != rows under the hypotheses: %r" % (model["fix"],), "C:csv_roundtrip"))
            if w["hypcur"] and case["via"]["mode"] in ("lines", "keepends") and model["cur"] != expected:
                fails.append(F("C", "model: csvReaderCur(write rows) != rows under the hypotheses", "C:csv_roundtrip_partial"))
        return {"fails": fails, "nontrivial": len(case["rows"]) >= 1, "tags": tags, "impl": impl, "model": model}

    @staticmethod
    def _csv_from_model(x):
        if "err" in x:
            return {"err": x["err"]}
        h = x["ok"]["header"]
        rows = [[uncps(f) for f in r] for r in x["ok"]["rows"]]
        if h is not None and rows:      # HeadRows keeps a dict name -> index: the last of equal names wins
            hd = dict(zip([uncps(f) for f in h], range(len(h))))
            h = [k for k, _ in sorted(hd.items(), key=lambda kv: kv[1])]
        else:
            h = None
        return {"ok": {"header": h, "rows": rows}}

    def _delivery_failure(self, case, lines, got, exp, tags):
        via = case["via"]
        tags = tags + ["delivery-failed"]
        if via["mode"] == "http":
            le = via.get("le", "\n")
            text = le.join(lines) + (le if lines and via.get("final_nl", True) else "")
            data = compress(text.encode("utf-8"), via.get("enc"), via.get("level", 6))
            feats = cut_features(pieces_of(data, via.get("enc"), via.get("chunk", 7)))
            sig = delivery_sig("chunk", got, {"ok": exp}, feats)
            what = "delivery through HttpSource._byte_it_(%r,'utf-8',%r,..) of %r gives %r" % (via.get("enc"), via.get("chunk"), text, got)
        else:
            sig = "disk:" + ("raises-" + got["err"] if "err" in got else "lines-differ") + (":gz" if via.get("gz") else ":plain")
            what = "delivery through DiskSink/DiskSource of %r gives %r" % (lines, got)
        return {"fails": [F("B", what, sig)], "nontrivial": True, "tags": tags, "impl": got, "model": None}

    # .................................................................. reuse of one reader object
    @staticmethod
    def _sub_lines(sub):
        if sub["kind"] == "csv":
            return csv_render(csv_plan(sub["rows"], sub["sp"], sub["header"]), sub["sp"])
        if sub["kind"] == "svm":
            return write_svm(sub["rows"], sub["sp"], sub["manik"])
        return arff_lines(sub)

    def eval_reuse(self, case, driver):
        """(B) what one reader object reads from input k does not depend on what it read before: it is what a fresh
        reader reads from the same lines (which the other case kinds compare with the table that was written)"""
        from coba.pipes.readers import CsvReader, ArffReader, LibsvmReader, ManikReader
        fmt = case["fmt"]
        fails, tags = [], ["kind:reuse", "reuse:" + fmt, "reuse:%d-inputs" % len(case["inputs"])]
        if fmt == "arff":
            specs = [set(json.dumps(c, sort_keys=True) for c in sub["table"]["cols"] if c["type"] == "nominal") for sub in case["inputs"]]
            if any(specs[i] & specs[j] for i in range(len(specs)) for j in range(i + 1, len(specs))):
                tags.append("reuse:shared-nominal-spec")
                if len({sub["dense"] for sub in case["inputs"]}) > 1:
                    tags.append("reuse:shared-nominal-spec:dense-and-sparse")
        first = case["inputs"][0]
        if fmt == "csv":
            d = first["sp"].get("delimiter", ",")
            hh = first["header"] is not None
            mk = lambda: CsvReader(has_header=hh, **({} if d == "," else {"delimiter": d}))
            run = lambda sub, lines, r: run_csv(lines, hh, d, reader=r)
        elif fmt == "arff":
            mk = lambda: ArffReader()
            run = lambda sub, lines, r: run_arff(lines, sub["dense"], reader=r)
        else:
            mk = lambda: (ManikReader() if fmt == "manik" else LibsvmReader())
            run = lambda sub, lines, r: run_svm(lines, fmt == "manik", reader=r)
        reader = mk()
        impl_all = []
        reused = {}
        for k, (sub, ab) in enumerate(zip(case["inputs"], case["abandon"])):
            lines = self._sub_lines(sub)
            if ab:
                tags.append("reuse:abandoned-read")
                try:
                    it = iter(reader.filter(list(lines)))
                    row = next(it, None)
                    if row is not None and fmt in ("csv", "arff"):
                        try:
                            list(row) if not hasattr(row, "items") else row.items()
                        except Exception:
                            pass
                    del it
                except Exception:
                    pass
                impl_all.append("abandoned")
                continue
            got = run(sub, lines, reader)
            fresh = run(sub, lines, mk())
            got.pop("msg", None)
            fresh.pop("msg", None)
            reused[k] = got
            impl_all.append(got if "err" in got else "ok")
            if got != fresh:
                before = ["input %d%s" % (j, " (abandoned after one row)" if case["abandon"][j] else "") for j in range(k)]
                fails.append(F("B", "one %s object applied to %d inputs in sequence: from input %d (lines %r) it reads %r, a fresh reader reads %r; read before: %s"
                               % ({"csv": "CsvReader", "arff": "ArffReader", "svm": "LibsvmReader", "manik": "ManikReader"}[fmt], len(case["inputs"]), k, lines, got, fresh,
                                  ", ".join(before) or "nothing"),
                               "reuse:%s:input-%s-differs-from-fresh-reader" % (fmt, "0" if k == 0 else "k")))
        if driver is not None:
            # (A) the history through the Lean reader object (`readerRun`, frame theorem reader_history_frame)
            req = {"op": "readerrun", "kind": fmt, "inputs": [{"lines": [cps(l) for l in self._sub_lines(sub)], "abandon": bool(ab)}
                                                               for sub, ab in zip(case["inputs"], case["abandon"])]}
            if fmt == "csv":
                req.update({"delim": ord(d), "header": hh})
            res = driver.ask(req)["results"]
            for k, (sub, ab, m) in enumerate(zip(case["inputs"], case["abandon"], res)):
                if ab:
                    if m is not None:
                        fails.append(F("A", "model: an abandoned read returned %r" % (m,), "A:reuse-model"))
                    continue
                lines = self._sub_lines(sub)
                got = reused[k]
                if fmt == "csv":
                    mm = self._csv_from_model(m)
                    g = got if "err" in got else {"ok": {"header": got["ok"]["header"], "rows": got["ok"]["rows"]}}
                    if g != mm:
                        fails.append(F("A", "reused CsvReader on input %d: implementation %r, model readerRun %r" % (k, g, mm), "A:reuse-csv"))
                elif fmt == "arff":
                    self._arff_read_model(lines, sub["dense"], got, driver, fails, tags, ans=m, sig="A:reuse-arff")
                else:
                    if "err" in m:
                        mm = {"err": m["err"]}
                    else:
                        try:
                            mm = {"ok": [[{int(uncps(a)): float(uncps(b)) for a, b in r["feats"]}, [uncps(l) for l in r["labels"]]] for r in m["ok"]]}
                        except ValueError:
                            mm = {"err": "ValueError"}
                    if got != mm:
                        fails.append(F("A", "reused %s on input %d: implementation %r, model readerRun %r" % (fmt, k, got, mm), "A:reuse-svm"))
        return {"fails": fails, "nontrivial": len(case["inputs"]) >= 2, "tags": sorted(set(tags)), "impl": impl_all, "model": None}

    # .................................................................. svm
    def eval_svm(self, case, driver):
        fails, tags = [], ["kind:" + ("manik" if case["manik"] else "libsvm"), "via:" + case["via"]["mode"]]
        lines = write_svm(case["rows"], case["sp"], case["manik"])
        if "" in lines:
            tags.append("blank-lines" + (":kept-terminators" if case["via"]["mode"] == "keepends" else ""))
        got_lines, exp_lines = deliver(lines, case["via"])
        if got_lines != {"ok": exp_lines}:
            return self._delivery_failure(case, lines, got_lines, exp_lines, tags)
        impl = run_svm(got_lines["ok"], case["manik"], case.get("src", False))
        expected = {"ok": expect_svm(case["rows"])}
        if impl != expected:
            sym = "raises-" + impl["err"] if "err" in impl else ("row-count" if len(impl["ok"]) != len(case["rows"]) else "rows-differ")
            fails.append(F("B", "%sReader().filter(%r) gives %r; written %r" % ("Manik" if case["manik"] else "Libsvm", got_lines["ok"], impl, expected),
                           "svm:%s:%s" % ("manik" if case["manik"] else "libsvm", sym)))
        model = None
        if driver is not None:
            full = driver.ask({"op": "svm", "lines": [cps(l) for l in got_lines["ok"]], "manik": case["manik"]})
            ans = full["rows"]
            if "err" in ans:
                model = {"err": ans["err"]}
            else:
                try:
                    model = {"ok": [[{int(uncps(k)): float(uncps(v)) for k, v in r["feats"]}, [uncps(l) for l in r["labels"]]] for r in ans["ok"]]}
                except ValueError:
                    model = {"err": "ValueError"}
            if impl != model:
                fails.append(F("A", "LibsvmReader: implementation %r, model %r" % (impl, model), "A:svm"))
            # phase 5: the conversions inside the model (`libsvmReadPy` / `manikReadPy`: parseIntPy, isFloatLitPy, dict semantics)
            mpy = self._svm_py(full["py"])
            if impl != mpy:
                fails.append(F("A", "LibsvmReader: implementation %r, model libsvmReadPy %r" % (impl, mpy), "A:svm-py"))
            if full["numok"] and case["via"]["mode"] in ("lines", "keepends"):
                tags.append("svm:numerals-theorem-hypotheses-hold")
                if mpy != expected:
                    fails.append(F("C", "model: libsvmReadPy(write rows) %r != written %r" % (mpy, expected), "C:libsvm_roundtrip_py"))
            if case["via"]["mode"] in ("lines", "keepends") and model != expected:
                fails.append(F("C", "model: libsvmRead(write rows) != rows", "C:libsvm_roundtrip"))
        return {"fails": fails, "nontrivial": len(case["rows"]) >= 1, "tags": tags, "impl": impl, "model": model}

    # .................................................................. arff
    def eval_arff(self, case, driver):
        dense = case["dense"]
        sp = case["sp"]
        tags = ["kind:arff-" + ("dense" if dense else "sparse"), "via:" + case["via"]["mode"], "style:" + sp.get("style", "weka")]
        if case.get("src"):
            tags.append("through:supervised.ArffSource")
        tags += ["sp:" + k for k in sp if k not in ("sseed", "style")]
        if len(sp) <= 2:
            tags.append("canonical-spelling")
        for c in case["table"]["cols"]:
            tags.append("type:" + c["type"])
        lines = arff_lines(case)
        if "" in lines:
            tags.append("blank-lines" + (":kept-terminators" if case["via"]["mode"] == "keepends" else ""))
        got_lines, exp_lines = deliver(lines, case["via"])
        if got_lines != {"ok": exp_lines}:
            return self._delivery_failure(case, lines, got_lines, exp_lines, tags)
        impl = run_arff(got_lines["ok"], dense, case.get("src", False))
        res = arff_compare(case, impl)
        fails = []
        if res is not None:
            base = dict(case, via=case["via"] if case["via"]["mode"] == "keepends" else {"mode": "lines"})
            left, sym, types, red = arff_culprits(base, res[0])
            fam = arff_family(red, sym, left)
            sig = fam or "arff-%s:%s:%s" % ("dense" if dense else "sparse", sym, "+".join(left))
            tags.append("fails:" + (fam or "unclassified"))
            fails.append(F("B", "ArffReader().filter(lines) %s: %s.  Smallest variant that still fails: %r -> %r  (features needed: %s)"
                           % (res[0], res[1], arff_lines(red), arff_fail(red), ", ".join(left) or "none"), sig))
        impl_out = impl if "err" in impl else {"rows": len(impl["ok"])}
        model = None
        if driver is not None:
            self._arff_read_model(got_lines["ok"], dense, impl, driver, fails, tags)
        if driver is not None and case["via"]["mode"] in ("lines", "keepends"):
            self._arff_header_model(case, lines, driver, fails, tags)
        if driver is not None and dense and case["via"]["mode"] in ("lines", "keepends"):
            model = self._arff_dense_model(case, lines, driver, fails, tags)
        if driver is not None and not dense and case["via"]["mode"] in ("lines", "keepends"):
            model = self._arff_sparse_model(case, lines, driver, fails, tags)
        return {"fails": fails, "nontrivial": len(case["table"]["rows"]) >= 1, "tags": sorted(set(tags)), "impl": impl_out, "model": model}

    def _arff_read_model(self, lines, dense, impl, driver, fails, tags, ans=None, sig="A:arff-read"):
        """(A) the whole ArffReader (header, data section, encoders, missing flag, fallback parser, sparse rows)
        against the Lean model `arffRead` on the very lines coba got"""
        if ans is None:
            full = driver.ask({"op": "arffread", "lines": [cps(l) for l in lines]})
            ans = full["result"]          # phase 5: `arffReadPy` (int()/float() as CPython reads them)
            dirty = any(ch == "_" or "\x1c" <= ch <= "\x1f" for l in lines for ch in l)
            tags.append("arffread:numerals-" + ("underscore-or-fs-in-file" if dirty else "clean-file"))
            if full["clean"] != (not dirty):
                fails.append(F("A", "linesNumClean(%r) = %r in the model, the harness sees %r" % (lines, full["clean"], not dirty), "A:arff-read-numclean"))
            if full["clean"] and full["result"] != full["result0"]:
                # theorem arffReadPy_conservative: on files without `_` and \x1c-\x1f the two models are one
                fails.append(F("C", "model: arffReadPy %r differs from arffRead %r on the clean file %r" % (full["result"], full["result0"], lines), "C:arffReadPy_conservative"))
            if full["result"] != full["result0"]:
                tags.append("arffread:py-differs-from-old-model")

        def cell(c):
            if c[0] == "missing":
                return ["missing"]
            if c[0] == "num":
                try:
                    return ["num", float(uncps(c[1]))]
                except ValueError:
                    return ["other", "float() rejects %r" % uncps(c[1])]
            if c[0] == "str":
                return ["str", uncps(c[1])]
            return ["cat", uncps(c[1]), [uncps(x) for x in c[2]]]

        if "err" in ans:
            model = {"err": ans["err"]}
        else:
            r = ans["ok"]
            if r["kind"] == "empty":
                model = {"ok": []}
            elif r["kind"] == "dense":
                names = [uncps(x) for x in r["names"]]
                model = {"ok": [{"cells": [cell(c) for c in row["cells"]], "missing": row["missing"], "headers": names} for row in r["rows"]]}
            else:
                model = {"ok": [{"cells": {uncps(k): cell(c) for k, c in row["items"]}, "missing": row["missing"]} for row in r["rows"]]}
        if "err" in impl:
            got = {"err": impl["err"]}
        elif impl["ok"] and "headers" in impl["ok"][0]:
            got = {"ok": [{"cells": x["cells"], "missing": x["missing"], "headers": x["headers"]} for x in impl["ok"]]}
        else:
            got = {"ok": [{"cells": x["cells"], "missing": x["missing"]} for x in impl["ok"]]}
        tags.append("arffread:" + ("error" if "err" in model else "rows"))

        def nonan(x):      # NaN is a legal numeric cell (`float('nan')`); make it comparable
            if isinstance(x, float) and x != x:
                return "NaN"
            if isinstance(x, list):
                return [nonan(y) for y in x]
            if isinstance(x, dict):
                return {k: nonan(v) for k, v in x.items()}
            return x
        got, model = nonan(got), nonan(model)
        if got != model:
            fails.append(F("A", "ArffReader().filter(%r): implementation %r, Lean model arffReadPy %r" % (lines, got, model), sig))

    def _arff_header_model(self, case, lines, driver, fails, tags):
        """(A) the spec's header writer (AttrW.line) vs the harness writer, and (C) arff_header_roundtrip:
        when the theorem's hypotheses hold, the model of ArffAttrReader returns the written names/encoders
        (the model itself is compared with the real reader by `arffread` on every case)"""
        t, sp = case["table"], case["sp"]
        ws = sp.get("attr_ws", " ")
        qs = sp.get("quote", "single")
        if len(ws) != 1 or sp.get("force_quote") or qs not in ("single", "double") or sp.get("nominal_pad") or sp.get("nominal_sep", ",") not in (",", ", "):
            return
        style = sp.get("style", "weka")
        q = 39 if qs == "single" else 34
        also = [39, 34, 37, 92] if style == "weka" else ([39, 34, 92] if qs == "single" else [92])
        kc, tc = sp.get("kw_case", "lower"), sp.get("type_case", "lower")

        def tok(s, key):
            w = arff_token(s, sp, key)
            return {"q": w != s, "f": cps(s)}

        attrs = []
        for j, c in enumerate(t["cols"]):
            if c["type"] == "nominal":
                typ = {"k": "nominal", "pad": len(sp.get("nominal_sep", ",")) - 1, "levels": [tok(v, ("lv", j, k)) for k, v in enumerate(c["levels"])]}
            elif c["type"] == "date":
                w = kw("date", tc, sp, ("ty", j))
                if sp.get("date_fmt"):
                    w += " " + ('"yyyy-MM-dd"' if sp.get("quote") == "double" else "'yyyy-MM-dd'")
                typ = {"k": "string", "w": cps(w)}
            elif c["type"] == "numeric":
                typ = {"k": "numeric", "w": cps(kw(c.get("word") or sp.get("numeric_word", "numeric"), tc, sp, ("ty", j)))}
            else:
                typ = {"k": "string", "w": cps(kw("string", tc, sp, ("ty", j)))}
            attrs.append({"kw": cps(kw("@attribute", kc, sp, ("at", j))), "sep": ord(ws), "name": tok(c["name"], ("nm", j)), "gap": cps(ws), "typ": typ})
        case_spec = {"q": q, "also": also, "attrs": attrs}
        ans = driver.ask({"op": "hdrwrite", "q": q, "also": also, "dense": case["dense"], "attrs": attrs})
        mine = [l.strip() for l in lines if l.strip().lower().startswith("@attribute")]
        theirs = [uncps(l) for l in ans["lines"]]
        if mine != theirs:
            fails.append(F("A", "attribute lines of the spec's writer %r differ from the harness writer %r" % (theirs, mine), "A:arff-header-writer"))
        elif ans["hyp"]:
            tags.append("arffheader:theorem-hypotheses-hold")
            if ans["model"] != {"ok": ans["want"]}:
                fails.append(F("C", "model: arffAttrs(write attrs) = %r, written %r" % (ans["model"], ans["want"]), "C:arff_header_roundtrip"))
        if mine == theirs and case["dense"]:
            self._arff_table_model(case, lines, case_spec, driver, fails, tags)
        if mine == theirs and not case["dense"]:
            self._arff_sparse_table_model(case, lines, case_spec, driver, fails, tags)

    def _arff_table_model(self, case, lines, spec, driver, fails, tags):
        """(A) the spec's whole-file writer vs the harness file (attribute, @data and data lines) and
        (C) arff_dense_table_roundtrip: under its hypotheses the model of the whole reader returns the written table"""
        t, sp = case["table"], case["sp"]
        sep = sp.get("sep", ",")
        if sep not in (",", ", ", ",  ") or not t["rows"]:
            return
        q = spec["q"]
        rows = []
        for i, row in enumerate(t["rows"]):
            cells = []
            for j, (c, v) in enumerate(zip(t["cols"], row)):
                if v is None:
                    cells.append({"q": False, "k": "missing"})
                    continue
                w = arff_cell(c, v, sp, ("cell", i, j))
                kind = {"numeric": "num", "nominal": "cat"}.get(c["type"], "str")
                cells.append({"q": w[:1] == chr(q) and len(w) >= 2 and w != v, "k": kind, "t": cps(v)})
            rows.append({"pad": len(sep) - 1, "cells": cells})
        dkw = [l.strip() for l in lines if l.strip().lower() == "@data"][0]
        ans = driver.ask({"op": "tablewrite", "q": q, "also": spec["also"], "dkw": cps(dkw), "attrs": spec["attrs"], "rows": rows})
        k = [i for i, l in enumerate(lines) if l.strip().lower() == "@data"][0]
        mine = [l.strip() for l in lines[:k] if l.strip().lower().startswith("@attribute")] + [dkw] + \
               [l.strip() for l in lines[k + 1:] if l.strip() and not l.strip().startswith("%")]
        theirs = [uncps(l) for l in ans["lines"]]
        if mine != theirs:
            # the dense data writer of the spec escapes with one `also` set; mixed styles are outside (compared line-wise elsewhere)
            tags.append("arfftable:writer-outside-spec")
            return
        if ans["hyp"]:
            tags.append("arfftable:theorem-hypotheses-hold")
            if ans["model"] != {"ok": ans["want"]}:
                fails.append(F("C", "model: arffReadN(whole written file) = %r, written %r" % (ans["model"], ans["want"]), "C:arff_dense_table_roundtrip"))

    def _arff_sparse_table_model(self, case, lines, spec, driver, fails, tags):
        """phase 4: (A) the spec's whole sparse file writer vs the harness file; (C) arff_sparse_table_roundtrip and
        arff_sparse_missing_flag under their hypotheses; (A) a variant of the same table in which some string / nominal
        cells are left out (written by the spec's writer) goes through the REAL ArffReader and must come back as
        `sparseRowOut` says (written items, then the default entries of the omitted columns)"""
        t, sp = case["table"], case["sp"]
        sep = sp.get("sparse_sep", ",")
        if sep not in (",", ", ") or sp.get("sparse_pad") or not t["rows"]:
            return
        rows, rows_omit, omitted = [], [], 0
        for i, row in enumerate(t["rows"]):
            cells, cells2 = [], []
            for j, (c, v) in enumerate(zip(t["cols"], row)):
                if sparse_is_default(c, v) and not (sp.get("sparse_explicit_zero") and _dec(sp, "ez", i, j).chance(0.5)):
                    continue
                w = arff_cell(c, v, sp, ("cell", i, j))
                raw = "?" if v is None else v
                if w != raw:
                    tags.append("arffsparsetable:quoted-value-outside-spec")
                    return
                kind = "missing" if v is None else {"numeric": "num", "nominal": "cat"}.get(c["type"], "str")
                cell = {"d": cps(str(j)), "k": kind, "t": cps(raw)}
                cells.append(cell)
                if c["type"] != "numeric" and _dec(sp, "omit", i, j).chance(0.35):
                    omitted += 1
                else:
                    cells2.append(cell)
            rows.append({"pad": len(sep) - 1, "cells": cells})
            rows_omit.append({"pad": len(sep) - 1, "cells": cells2})
        dkw = [l.strip() for l in lines if l.strip().lower() == "@data"][0]
        req = {"op": "sparsetable", "q": spec["q"], "also": spec["also"], "dkw": cps(dkw), "attrs": spec["attrs"]}
        ans = driver.ask(dict(req, rows=rows))
        k = [i for i, l in enumerate(lines) if l.strip().lower() == "@data"][0]
        mine = [l.strip() for l in lines[:k] if l.strip().lower().startswith("@attribute")] + [dkw] + \
               [l.strip() for l in lines[k + 1:] if l.strip() and not l.strip().startswith("%")]
        theirs = [uncps(l) for l in ans["lines"]]
        if mine != theirs:
            fails.append(F("A", "sparse file of the spec's writer %r differs from the harness writer %r" % (theirs, mine), "A:arff-sparse-table-writer"))
            return
        if not ans["hyp"]:
            tags.append("arffsparsetable:hypotheses-fail")
            return
        tags.append("arffsparsetable:theorem-hypotheses-hold")
        if ans["model"] != {"ok": ans["want"]}:
            fails.append(F("C", "model: arffReadN(whole written sparse file) = %r, written %r" % (ans["model"], ans["want"]), "C:arff_sparse_table_roundtrip"))
        if any(a != b for a, b in ans["flags"]):
            fails.append(F("C", "model: sparseMissing of the written lines vs any-missing: %r" % (ans["flags"],), "C:arff_sparse_missing_flag"))
        if any(b for _, b in ans["flags"]):
            tags.append("arffsparsetable:missing-row")
        if omitted:
            ans2 = driver.ask(dict(req, rows=rows_omit))
            if ans2["hyp"]:
                tags.append("arffsparsetable:omitted-cells-default-entries")
                lines2 = [uncps(l) for l in ans2["lines"]]
                impl2 = run_arff(lines2, False)
                self._arff_read_model(lines2, False, impl2, driver, fails, tags, ans={"ok": ans2["want"]}, sig="A:arff-sparse-table-defaults")

    def _arff_sparse_model(self, case, lines, driver, fails, tags):
        """(A) ArffLineReader(False,n) + ArffDataReader._sparse per data line vs `arffSparseLine`/`sparseMissing`;
        (A) the spec's sparse writer vs the harness writer and (C) arff_sparse_roundtrip_partial when the row is bare"""
        from coba.pipes.readers import ArffLineReader, ArffDataReader
        t, sp = case["table"], case["sp"]
        n = len(t["cols"])
        k = [i for i, l in enumerate(lines) if l.strip().lower() == "@data"][0]
        data = [l.strip() for l in lines[k + 1:] if l.strip() and not l.strip().startswith("%")]
        out = []
        rows_i = 0
        for line in data:
            try:
                impl = {"ok": {int(a): str(b) for a, b in ArffLineReader(False, n).filter(line).items()}}
            except Exception as e:
                impl = {"err": errname(e)}
            impl_missing = [m for _, m in ArffDataReader(False).filter([line])][0]
            ans = driver.ask({"op": "arffsparseline", "line": cps(line), "n": n})
            model = {"err": ans["items"]["err"]} if "err" in ans["items"] else {"ok": {int(a): uncps(b) for a, b in ans["items"]["ok"]}}
            out.append(model)
            if impl != model:
                fails.append(F("A", "ArffLineReader(False,%d).filter(%r): implementation %r, model %r" % (n, line, impl, model), "A:arff-sparse-line"))
            if bool(impl_missing) != bool(ans["missing"]):
                fails.append(F("A", "ArffDataReader(False) missing flag of %r: implementation %r, model %r" % (line, impl_missing, ans["missing"]), "A:arff-sparse-missing"))
        sep = sp.get("sparse_sep", ",")
        if sep in (",", ", ") and not sp.get("sparse_pad"):
            for i, (row, line) in enumerate(zip(t["rows"], data)):
                items = []
                bare = True
                for j, (c, v) in enumerate(zip(t["cols"], row)):
                    if sparse_is_default(c, v) and not (sp.get("sparse_explicit_zero") and _dec(sp, "ez", i, j).chance(0.5)):
                        continue
                    w = arff_cell(c, v, sp, ("cell", i, j))
                    raw = "?" if v is None else v
                    if w != raw:
                        bare = False
                    items.append({"d": cps(str(j)), "v": cps(raw)})
                if not bare:
                    continue
                w = driver.ask({"op": "sparsewrite", "pad": len(sep) - 1, "n": n, "items": items})
                if uncps(w["line"]) != line:
                    fails.append(F("A", "sparse row of the spec's writer %r differs from the harness writer %r" % (uncps(w["line"]), line), "A:arff-sparse-writer"))
                elif w["hyp"]:
                    tags.append("arffsparse:theorem-hypotheses-hold")
                    want = {"ok": {int(a): uncps(b) for a, b in w["want"]}}
                    if out[i] != want:
                        fails.append(F("C", "model: arffSparseLine(write items) = %r, items %r" % (out[i], want), "C:arff_sparse_roundtrip_partial"))
        return out

    def _arff_dense_model(self, case, lines, driver, fails, tags):
        """(A) ArffLineReader on the data lines vs the Lean model of its simple path; (A) the spec's writer vs
        the harness' writer and (C) the round-trip theorem, when the spelling is inside the theorem's writer"""
        from coba.pipes.readers import ArffLineReader
        t, sp = case["table"], case["sp"]
        n = len(t["cols"])
        k = [i for i, l in enumerate(lines) if l.strip().lower() == "@data"][0]
        data = [l.strip() for l in lines[k + 1:] if l.strip() and not l.strip().startswith("%")]
        try:
            lr = ArffLineReader(True, n)
            impl = {"ok": [[str(x) for x in lr.filter(l)] for l in data]}
        except Exception as e:
            impl = {"err": errname(e)}
        ans = driver.ask({"op": "arffdense", "lines": [cps(l) for l in data], "n": n})["rows"]
        model = {"err": ans["err"]} if "err" in ans else {"ok": [[uncps(f) for f in r] for r in ans["ok"]]}
        if model == {"err": "CobaException"}:
            tags.append("arffline:left-simple-path")          # fallback parser or column mismatch: not modelled
        else:
            tags.append("arffline:modelled")
            if impl != model:
                fails.append(F("A", "ArffLineReader(True,%d) on %r: implementation %r, model %r" % (n, data, impl, model), "A:arff-dense-line"))
        sep = sp.get("sep", ",")
        qs = sp.get("quote", "single")
        if sep in (",", ", ", ",  ") and not sp.get("force_quote") and qs in ("single", "double"):
            style = sp.get("style", "weka")
            q = 39 if qs == "single" else 34
            also = [39, 34, 37] if style == "weka" else ([39, 34] if qs == "single" else [])
            rows = []
            for i, row in enumerate(t["rows"]):
                toks = []
                for j, (c, v) in enumerate(zip(t["cols"], row)):
                    w = arff_cell(c, v, sp, ("cell", i, j))
                    raw = "?" if v is None else v
                    toks.append({"q": w[:1] == chr(q) and len(w) >= 2 and w != raw, "f": cps(raw)})
                rows.append({"pad": len(sep) - 1, "toks": toks})
            w = driver.ask({"op": "arffwrite", "q": q, "also": also, "rows": rows})
            if [uncps(l) for l in w["lines"]] != data:
                fails.append(F("A", "data lines of the spec's ARFF writer %r differ from the harness writer %r" % ([uncps(l) for l in w["lines"]], data), "A:arff-writer"))
            elif w["hyp"]:
                tags.append("arffline:theorem-hypotheses-hold")
                want = {"ok": [[("?" if v is None else v) for v in row] for row in t["rows"]]}
                if model != want:
                    fails.append(F("C", "model: arffLines(write rows) = %r, rows %r" % (model, want), "C:arff_dense_roundtrip_partial"))
        return model

    # ------------------------------------------------------------------ shrinking / replay
    def shrink(self, case):
        k = case["kind"]
        if k == "hist":
            ops = case["ops"]
            for i in range(len(ops)):
                if len(ops) > 1:
                    rest = [dict(o) for o in ops[:i] + ops[i + 1:]]
                    for o in rest:      # references to earlier write ops move
                        if o.get("as") == "same":
                            if o["of"] == i:
                                o.pop("as"), o.pop("of")
                            elif o["of"] > i:
                                o["of"] -= 1
                    yield dict(case, ops=rest)
            for i, o in enumerate(ops):
                if o["o"] == "w":
                    for j in range(len(o["lines"])):
                        if not any(x.get("as") == "same" and x.get("of") == i for x in ops) and o.get("as") != "same":
                            yield dict(case, ops=ops[:i] + [dict(o, lines=o["lines"][:j] + o["lines"][j + 1:])] + ops[i + 1:])
                    for key in ("scribble", "as"):
                        if key in o and o.get("as") != "same":
                            yield dict(case, ops=ops[:i] + [{a: b for a, b in o.items() if a != key}] + ops[i + 1:])
                elif o["o"] == "z" or (o["o"] == "k" and False):
                    yield dict(case, ops=ops[:i] + [{"o": "r", "p": o["p"]}] + ops[i + 1:])
                elif o.get("how") == "fresh":
                    yield dict(case, ops=ops[:i] + [{"o": "r", "p": o["p"]}] + ops[i + 1:])
            if case["what"] == "disk" and any(b for b in case["batches"]):
                yield dict(case, batches=[None for _ in case["batches"]])
            return
        if k == "label":
            rs = case["rows"]
            for i in range(len(rs)):
                if len(rs) > 1:
                    yield dict(case, rows=rs[:i] + rs[i + 1:])
            return
        if k == "lit" and case["sub"] == "svmnum":
            rs = case["rows"]
            for i in range(len(rs)):
                if len(rs) > 1:
                    yield dict(case, rows=rs[:i] + rs[i + 1:])
                its = rs[i]["items"]
                for j in range(len(its)):
                    if len(its) > 1:
                        yield dict(case, rows=rs[:i] + [dict(rs[i], items=its[:j] + its[j + 1:])] + rs[i + 1:])
            return
        if k == "lit":
            if case["sub"] == "num":
                t = case["tok"]
                for i in range(len(t)):
                    if len(t) > 1:
                        yield dict(case, tok=t[:i] + t[i + 1:])
            else:
                vs = case["values"]
                if case.get("pad"):
                    yield dict(case, pad=0)
                for i in range(len(vs)):
                    if len(vs) > 2:
                        yield dict(case, values=vs[:i] + vs[i + 1:])
                    if len(vs[i]) > 1:
                        yield dict(case, values=vs[:i] + [vs[i][:-1]] + vs[i + 1:])
                        yield dict(case, values=vs[:i] + [vs[i][1:]] + vs[i + 1:])
            return
        if k == "reuse":
            ins, ab = case["inputs"], case["abandon"]
            for i in range(len(ins)):
                if len(ins) > 1:
                    nab = ab[:i] + ab[i + 1:]
                    nab[-1] = False
                    yield dict(case, inputs=ins[:i] + ins[i + 1:], abandon=nab)
                if ab[i]:
                    yield dict(case, abandon=ab[:i] + [False] + ab[i + 1:])
                for sub in self.shrink(ins[i]):
                    if sub.get("kind") == ins[i]["kind"] and sub.get("via", {"mode": "lines"}).get("mode") == "lines":
                        if case["fmt"] == "csv" and ((sub["header"] is None) != (ins[0]["header"] is None) or sub["sp"].get("delimiter", ",") != ins[0]["sp"].get("delimiter", ",")):
                            continue
                        if case["fmt"] in ("svm", "manik") and sub["manik"] != ins[i]["manik"]:
                            continue
                        yield dict(case, inputs=ins[:i] + [sub] + ins[i + 1:])
            return
        if "via" in case and case["via"].get("mode") != "lines":
            yield dict(case, via={"mode": "lines"})
        if k == "chunk":
            t = case.get("text")
            if t:
                n = len(t)
                w = n // 2
                while w >= 2:                     # blocks first (long texts), single characters last
                    for i in range(0, n, w):
                        yield dict(case, text=t[:i] + t[i + w:])
                    w //= 2
                    if n > 200 and w < n // 16:
                        break
                if n <= 200:
                    for i in range(n):
                        yield dict(case, text=t[:i] + t[i + 1:])
            if case["chunk"] == "all" and t is not None:
                for kk in range(1, len(compress(t.encode(), case["enc"], case.get("level", 6))) + 2):
                    yield dict(case, chunk=kk)
            if case["enc"]:
                yield dict(case, enc=None)
        elif k == "delim":
            ch = case["chunks"]
            for i in range(len(ch)):
                if len(ch) > 1:
                    yield dict(case, chunks=ch[:i] + ch[i + 1:])
                for j in range(len(ch[i])):
                    yield dict(case, chunks=ch[:i] + [ch[i][:j] + ch[i][j + 1:]] + ch[i + 1:])
        elif k == "disk":
            sc = case.get("script") or [{"w": w} for w in case["writes"]]
            base = {kk: vv for kk, vv in case.items() if kk != "writes"}

            def variants(ops):
                for i, op in enumerate(ops):
                    if len(ops) > 1:
                        yield ops[:i] + ops[i + 1:]
                    if "with" in op:
                        yield ops[:i] + op["with"] + ops[i + 1:]            # unwrap the with-block
                        for v in variants(op["with"]):
                            yield ops[:i] + [{"with": v}] + ops[i + 1:]
                    elif not isinstance(op["w"], str):
                        for j in range(len(op["w"])):
                            yield ops[:i] + [{"w": op["w"][:j] + op["w"][j + 1:]}] + ops[i + 1:]
                        for j, l in enumerate(op["w"]):
                            if len(l) > 1:
                                yield ops[:i] + [{"w": op["w"][:j] + [l[:1]] + op["w"][j + 1:]}] + ops[i + 1:]
            for v in variants(sc):
                if case.get("mode") == "w" and not (len(v) == 1 and "with" in v[0]):
                    continue
                yield dict(base, script=v)
            if case["batch"]:
                yield dict(base, script=sc, batch=None)
            if case["gz"]:
                yield dict(base, script=sc, gz=False)
        elif k == "csv":
            rows = case["rows"]
            for i in range(len(rows)):
                yield dict(case, rows=rows[:i] + rows[i + 1:])
            if rows and len(rows[0]) > 1:
                for j in range(len(rows[0])):
                    yield dict(case, rows=[r[:j] + r[j + 1:] for r in rows], header=(case["header"][:j] + case["header"][j + 1:]) if case["header"] else None)
            if case["header"]:
                yield dict(case, header=None)
            for i, r in enumerate(rows):
                for j, v in enumerate(r):
                    for m in range(len(v)):
                        yield dict(case, rows=rows[:i] + [r[:j] + [v[:m] + v[m + 1:]] + r[j + 1:]] + rows[i + 1:])
            for key in ("blanks", "quote_edges"):
                if case["sp"].get(key):
                    yield dict(case, sp=dict(case["sp"], **{key: False}))
            if case["sp"].get("quoting") != "minimal":
                yield dict(case, sp=dict(case["sp"], quoting="minimal"))
        elif k == "svm":
            rows = case["rows"]
            for i in range(len(rows)):
                yield dict(case, rows=rows[:i] + rows[i + 1:])
            for i, r in enumerate(rows):
                for j in range(len(r["feats"])):
                    yield dict(case, rows=rows[:i] + [dict(r, feats=r["feats"][:j] + r["feats"][j + 1:])] + rows[i + 1:])
                if len(r["labels"]) > 1:
                    yield dict(case, rows=rows[:i] + [dict(r, labels=r["labels"][:1])] + rows[i + 1:])
            if case["manik"]:
                yield dict(case, manik=False)
        elif k == "arff":
            t = case["table"]
            for i in range(len(t["rows"])):
                yield dict(case, table=dict(t, rows=t["rows"][:i] + t["rows"][i + 1:]))
            if len(t["cols"]) > 1:
                for j in range(len(t["cols"])):
                    yield dict(case, table={"cols": t["cols"][:j] + t["cols"][j + 1:], "rows": [r[:j] + r[j + 1:] for r in t["rows"]]})
            for f in arff_features(case):
                if f[1]:
                    try:
                        yield f[2]()
                    except Exception:
                        pass

    def snippet(self, case):
        k = case["kind"]
        if k == "hist" and case["what"] == "disk":
            return ("import os, tempfile\nfrom itertools import islice\nfrom coba.pipes.sinks import DiskSink\nfrom coba.pipes.sources import DiskSource\n"
                    "d = tempfile.mkdtemp(); paths = [os.path.join(d, p) for p in %r]\n"
                    "[os.makedirs(os.path.dirname(p), exist_ok=True) for p in paths]\n"
                    "sinks = [DiskSink(p, **({'batch': b} if b else {})) for p, b in zip(paths, %r)]; srcs = [DiskSource(p) for p in paths]\n"
                    "for op in %r:   # w: sinks[p].write(lines)  r: list(srcs[p].read())  k: first k lines, then the generator is closed  z: two reads at once\n"
                    "    if op['o'] == 'w': sinks[op['p']].write(list(op['lines']))\n"
                    "    elif op['o'] == 'k': it = iter(srcs[op['p']].read()); print(op, list(islice(it, op['k']))); it.close()\n"
                    "    elif op['o'] == 'z': print(op, [list(x) for x in zip(srcs[op['p']].read(), srcs[op['p']].read())])\n"
                    "    else: print(op, list(srcs[op['p']].read()))\n" % (case["paths"], case["batches"], case["ops"]))
        if k == "hist":
            return ("from itertools import islice\nfrom coba.pipes.sources import DelimSource, IterableSource\n"
                    "srcs = [DelimSource(IterableSource(c)) for c in %r]\n"
                    "for op in %r:\n"
                    "    if op['o'] == 'k': it = iter(srcs[op['p']].read()); print(op, list(islice(it, op['k']))); it.close()\n"
                    "    elif op['o'] == 'z': print(op, [list(x) for x in zip(srcs[op['p']].read(), srcs[op['p']].read())])\n"
                    "    else: print(op, list(srcs[op['p']].read()))\n" % (case["objs"], case["ops"]))
        if k == "label":
            return "# labelled pipeline case (see the failure text for the exact call): %r\n" % (case,)
        if k == "lit" and case["sub"] == "num":
            return ("from coba.pipes.readers import ArffReader\n"
                    "print(list(ArffReader().filter(['@attribute a numeric','@attribute b numeric','@data',%r]))[0][0])\n" % ("'" + case["tok"] + "',1"))
        if k == "lit" and case["sub"] == "svmnum":
            lines = [",".join(r["labels"]) + "".join(" %s:%s" % (a, b) for a, b in r["items"]) for r in case["rows"]]
            if case["manik"]:
                lines = ["3 4 5"] + lines
            return ("from coba.pipes.readers import LibsvmReader, ManikReader\n"
                    "print(list(%sReader().filter(%r)))\n" % ("Manik" if case["manik"] else "Libsvm", lines))
        if k == "lit" and case["sub"] == "undecided":
            n = len(case["values"])
            line = ",".join(case["values"])
            return ("from coba.pipes.readers import ArffLineReader\n"
                    "print(ArffLineReader(True,%d)._dense_advanced(%r))   # fallback parser, _fallback_delim undecided\n"
                    "print(ArffLineReader(True,%d).filter(%r))   # written: %r\n" % (n, line, n, line, case["values"]))
        if k == "lit":
            n = len(case["values"])
            line = ("," + " " * case["pad"]).join(case["values"])
            return ("from coba.pipes.readers import ArffLineReader\n"
                    "print(ArffLineReader(True,%d).filter(%r))\n"
                    "lr = ArffLineReader(True,%d); lr.filter(%r); print(lr.filter(%r))   # written: %r\n"
                    % (n, line, n, "'\"'" + ",x" * (n - 1), line, case["values"]))
        if k == "reuse":
            fmt = case["fmt"]
            first = case["inputs"][0]
            if fmt == "csv":
                d = first["sp"].get("delimiter", ",")
                ctor = "CsvReader(has_header=%r%s)" % (first["header"] is not None, "" if d == "," else ", delimiter=%r" % d)
            else:
                ctor = {"arff": "ArffReader()", "svm": "LibsvmReader()", "manik": "ManikReader()"}[fmt]
            files = [self._sub_lines(sub) for sub in case["inputs"]]
            return ("import sys, warnings; warnings.filterwarnings('ignore'); sys.path.insert(0,'/repo')\n"
                    "from coba.pipes.readers import CsvReader, ArffReader, LibsvmReader, ManikReader\n"
                    "files = %r\nabandon = %r\n"
                    "def show(rows):\n    out = []\n    for r in rows:\n"
                    "        if isinstance(r, tuple): out.append(r)\n"
                    "        elif hasattr(r, 'items'): out.append(dict(r.items()))\n"
                    "        else: out.append((list(r), dict(getattr(r, 'headers', None) or {})))\n    return out\n"
                    "reader = %s\n"
                    "for f, ab in zip(files, abandon):\n"
                    "    if ab:\n        next(iter(reader.filter(f)), None); continue\n"
                    "    print('reused:', show(list(reader.filter(f))))\n    print('fresh :', show(list(%s.filter(f))))\n" % (files, case["abandon"], ctor, ctor))
        repo = "/repo"
        head = "import sys, io, zlib, warnings; warnings.filterwarnings('ignore'); sys.path.insert(0,%r)\n" % repo
        if k == "chunk":
            plain = bytes(case["bytes"]) if "bytes" in case else case["text"].encode("utf-8")
            data = compress(plain, case["enc"], case.get("level", 6))
            ks = case["chunk"] if case["chunk"] != "all" else "range(1,len(data)+2)"
            return head + ("from coba.pipes.sources import HttpSource\ndata = %r\nplain = %r\n"
                           "for k in (%s if not isinstance(%s,int) else [%s]):\n"
                           "    try: got = list(HttpSource._byte_it_(%r,'utf-8',k,io.BytesIO(data)))\n"
                           "    except Exception as e: got = repr(e)\n"
                           "    print(k, got, '| expected', plain.decode('utf-8').splitlines())\n" % (data, plain, ks, ks, ks, case["enc"]))
        if k == "delim":
            return head + ("from coba.pipes.sources import DelimSource, IterableSource\nchunks = %r\n"
                           "print(list(DelimSource(IterableSource(chunks)).read()), '| expected', ''.join(chunks).splitlines())\n" % (case["chunks"],))
        if k == "disk":
            sc = case.get("script") or [{"w": w} for w in case["writes"]]
            args = ("" if not case.get("mode") else ", mode=%r" % case["mode"]) + ("" if not case["batch"] else ", batch=%r" % case["batch"])
            return head + ("import tempfile, os\nfrom coba.pipes.sinks import DiskSink\nfrom coba.pipes.sources import DiskSource\n"
                           "def run(sink, script):\n    for op in script:\n        if 'with' in op:\n            with sink: run(sink, op['with'])\n"
                           "        else: sink.write(op['w'])\n"
                           "p = os.path.join(tempfile.mkdtemp(), %r); os.makedirs(os.path.dirname(p), exist_ok=True)\ns = DiskSink(p%s)\nrun(s, %r)\nprint(list(DiskSource(p).read()), '| written', %r)\n"
                           % (case.get("path") or ("f.log.gz" if case["gz"] else "f.log"), args, sc, script_lines(sc)))
        if k == "csv":
            lines = write_csv(case["rows"], case["sp"], case["header"])
            d = case["sp"].get("delimiter", ",")
            return head + ("from coba.pipes.readers import CsvReader\nlines = %r\nrows = list(CsvReader(has_header=%r%s).filter(lines))\n"
                           "print([list(r) for r in rows], '| written', %r, 'header', %r)\n" % (lines, case["header"] is not None, "" if d == "," else ", delimiter=%r" % d, case["rows"], case["header"]))
        if k == "svm":
            lines = write_svm(case["rows"], case["sp"], case["manik"])
            return head + ("from coba.pipes.readers import LibsvmReader, ManikReader\nlines = %r\nprint(list(%s().filter(lines)), '| written', %r)\n"
                           % (lines, "ManikReader" if case["manik"] else "LibsvmReader", expect_svm(case["rows"])))
        if k == "arff":
            lines = arff_lines(case)
            return head + ("from coba.pipes.readers import ArffReader\nlines = %r\nrows = list(ArffReader().filter(lines))\n"
                           "print([(%s, r.missing) for r in rows])\nprint('written', %r)\n"
                           % (lines, "list(r)" if case["dense"] else "dict(r.items())", expect_arff(case["table"], case["dense"])))
        return ""


def run_csv_reference(lines, has_header, delimiter, stripped):
    """CPython's csv.reader on the same lines, either as they are (only terminators removed, empty input = no rows)
    or stripped the way CsvReader strips them; used only to attribute a failure to the `strip` of CsvReader"""
    import csv
    try:
        dialect = {} if delimiter == "," else {"delimiter": delimiter}
        ls = [l.strip() for l in lines] if stripped else [l.rstrip("\r\n") for l in lines]
        recs = list(csv.reader(iter([l for l in ls if l]), **dialect))
        if not recs:
            return {"err": "StopIteration"} if stripped else {"ok": {"header": None, "rows": []}}
        if has_header:
            hd = dict(zip(recs[0], range(len(recs[0]))))
            return {"ok": {"header": [k for k, _ in sorted(hd.items(), key=lambda kv: kv[1])] if recs[1:] else None, "rows": recs[1:]}}
        return {"ok": {"header": None, "rows": recs}}
    except Exception as e:
        return {"err": errname(e)}


PROPERTY = C12()
