"""C12 helper library: tables, harness-side writers (ARFF dense/sparse, CSV, LibSVM, Manik) in the
permitted spellings, and the expected parse of each.  Pure Python, no coba import, deterministic:
every per-cell choice is drawn from Rng(sseed, ...)."""
from core.prng import Rng

# ------------------------------------------------------------------ value alphabets
PLAIN = "abcxyzABC019_-.+"
SPECIAL = [" ", ",", "'", '"', "\\", "%", "?", "{", "}", "\u00e9", "\u4e2d", "\U0001F600", ";", ":", "=", "#", "@", "|", "/"]
NUMTEXT = ["0", "1", "-1", "2", "3", "10", "42", "-7", "0.5", "-0.25", "1.5", "3.14159", "1e3", "1.5E-4", "2.0", "100000", "0.0", "-0.0",
           "7.25", "123456789", "0.001", "+5", ".5", "5."]


def gen_text(rng, maxlen=6, special_p=0.45, allow_empty=True):
    n = rng.randint(0 if allow_empty else 1, maxlen)
    if n == 0:
        return ""
    out = []
    for _ in range(n):
        if rng.chance(special_p):
            out.append(rng.choice(SPECIAL))
        else:
            out.append(rng.choice(PLAIN))
    return "".join(out)


def gen_table(rng, tier="quick", fmt="arff"):
    """typed table: 0-8 rows, 1-6 columns"""
    ncols = rng.choice([1, 1, 2, 2, 3, 3, 4, 5, 6])
    nrows = rng.choice([0, 1, 1, 2, 2, 3, 3, 4, 5, 6, 8])
    cols = []
    names = set()
    plainness = rng.choice([0.0, 0.15, 0.45, 0.8])     # how special the strings of this table are
    for j in range(ncols):
        while True:
            nm = gen_text(rng, 5, plainness, allow_empty=False) if rng.chance(0.6) else rng.choice(["a", "b", "c", "class", "A a", "x1", "y"]) + str(j)
            if nm not in names and nm.strip() == nm and nm != "":
                break
        names.add(nm)
        ty = rng.wchoice([(4, "numeric"), (3, "string"), (1, "date"), (4, "nominal")])
        col = {"name": nm, "type": ty}
        if ty == "nominal":
            k = rng.choice([1, 2, 2, 3, 4])
            lv = []
            while len(lv) < k:
                v = gen_text(rng, 4, plainness, allow_empty=False) if rng.chance(0.7) else rng.choice(["0", "1", "yes", "no", "B", "C", "D", "?"])
                if v not in lv:
                    lv.append(v)
            col["levels"] = lv
        cols.append(col)
    rows = []
    miss_p = rng.choice([0.0, 0.0, 0.1, 0.3])
    for _ in range(nrows):
        r = []
        for c in cols:
            if rng.chance(miss_p):
                r.append(None)
            elif c["type"] == "numeric":
                r.append(rng.choice(NUMTEXT) if rng.chance(0.7) else str(rng.randint(-999, 999)))
            elif c["type"] == "nominal":
                r.append(rng.choice(c["levels"]))
            elif c["type"] == "date":
                r.append("%04d-%02d-%02d" % (rng.randint(1990, 2030), rng.randint(1, 12), rng.randint(1, 28)))
            else:
                r.append(gen_text(rng, 6, plainness))
        rows.append(r)
    return {"cols": cols, "rows": rows}


# ------------------------------------------------------------------ ARFF writers
WEKA_ESC = {"\\": "\\\\", "'": "\\'", '"': '\\"', "%": "\\%", "\t": "\\t", "\n": "\\n", "\r": "\\r"}
WEKA_TRIGGER = set("{}, ")


def weka_quote(s):
    """weka.core.Utils.quote"""
    q = False
    if any(ch in s for ch in "\n\r'\"\\\t%\x1e"):
        s = "".join(WEKA_ESC.get(ch, ch) for ch in s)
        q = True
    if q or any(ch in s for ch in "{}, ") or s == "?" or s == "":
        s = "'" + s + "'"
    return s


def liac_quote(s):
    """liac-arff encode_string (the library OpenML uses to produce ARFF)"""
    if s == "" or s == "?" or any(ch in s for ch in "\"'\\ \t\n\r%,{}") or any(ord(ch) < 32 for ch in s):
        return "'" + "".join(("\\" + ch) if ch in "\\'\"" else ch for ch in s) + "'"
    return s


def alt_quote(s, q, esc_all):
    """other permitted spelling: chosen quote character, backslash-escape the quote char and backslash
    (esc_all: also the other quote char and %, as Weka does)"""
    out = []
    for ch in s:
        if ch == "\\" or ch == q or (esc_all and ch in "'\"%"):
            out.append("\\" + ch)
        else:
            out.append(ch)
    return q + "".join(out) + q


def needs_quote(s):
    return s == "" or s == "?" or any(ch in s for ch in "\"'\\ \t%,{}")


def arff_token(s, sp, r):
    """one string value / name / level in the file's spelling. r: Rng for per-token choices."""
    style = sp.get("style", "weka")
    if style == "weka":
        t = weka_quote(s)
    elif style == "liac":
        t = liac_quote(s)
    else:
        t = None
    qs = sp.get("quote", "single")
    if style in ("weka", "liac"):
        if t[0] == "'" and len(t) >= 2 and needs_quote(s):
            if qs == "double" or (qs == "mix" and r.chance(0.5)):
                t = alt_quote(s, '"', style == "weka")
        elif sp.get("force_quote") and r.chance(0.7):
            q = "'" if qs == "single" or (qs == "mix" and r.chance(0.5)) else '"'
            t = alt_quote(s, q, False)
        return t
    raise ValueError(style)


def kw(word, sp, r):
    c = sp.get("kw_case", "lower")
    if c == "upper":
        return word.upper()
    if c == "mixed":
        return "".join(ch.upper() if r.chance(0.5) else ch for ch in word)
    if c == "title":
        return word[0] + word[1:].capitalize() if word[0] == "@" else word.capitalize()
    return word


def arff_header(table, sp, r):
    lines = []
    ws = sp.get("attr_ws", " ")
    if sp.get("comments") and r.chance(0.7):
        lines.append("% generated for C12, with a comment, and 'quotes' \" { }")
    lines.append(kw("@relation", sp, r) + " " + arff_token(sp.get("relation", "rel"), sp, r))
    if sp.get("blanks"):
        lines.append("")
    for c in table["cols"]:
        if sp.get("comments") and r.chance(0.3):
            lines.append("%" + r.choice(["", " c", " @attribute x numeric", " @data"]))
        if sp.get("blanks") and r.chance(0.2):
            lines.append(r.choice(["", "  ", "\t"]))
        ty = c["type"]
        if ty == "nominal":
            sep = sp.get("nominal_sep", ",")
            inner = sep.join(arff_token(v, sp, r) for v in c["levels"])
            pad = sp.get("nominal_pad", "")
            t = "{" + pad + inner + pad + "}"
        elif ty == "date":
            t = kw("date", dict(sp, kw_case=sp.get("type_case", "lower")), r)
            if sp.get("date_fmt"):
                t += " " + ('"yyyy-MM-dd"' if sp.get("quote") == "double" else "'yyyy-MM-dd'")
        elif ty == "numeric":
            t = kw(sp.get("numeric_word", "numeric") if not c.get("word") else c["word"], dict(sp, kw_case=sp.get("type_case", "lower")), r)
        else:
            t = kw("string", dict(sp, kw_case=sp.get("type_case", "lower")), r)
        line = kw("@attribute", sp, r) + ws + arff_token(c["name"], sp, r) + ws + t
        if sp.get("trail_ws") and r.chance(0.3):
            line += r.choice([" ", "  ", "\t"])
        if sp.get("lead_ws") and r.chance(0.3):
            line = r.choice([" ", "\t"]) + line
        lines.append(line)
    if sp.get("blanks"):
        lines.append("")
    lines.append(kw("@data", sp, r))
    return lines


def arff_cell(c, v, sp, r):
    if v is None:
        return "?"
    if c["type"] == "numeric":
        return v
    if c["type"] == "date" and sp.get("date_fmt"):
        return arff_token(v, dict(sp, force_quote=True), r) if sp.get("quote_dates") else arff_token(v, sp, r)
    return arff_token(v, sp, r)


def write_arff_dense(table, sp):
    r = Rng(sp.get("sseed", 0), "arff")
    lines = arff_header(table, sp, r)
    sep = sp.get("sep", ",")
    for row in table["rows"]:
        if sp.get("comments") and r.chance(0.25):
            lines.append(r.choice(["%", "% a,b,c", "%?", "% {0 1}"]))
        if sp.get("blanks") and r.chance(0.25):
            lines.append(r.choice(["", " "]))
        line = sep.join(arff_cell(c, v, sp, r) for c, v in zip(table["cols"], row))
        if sp.get("trail_ws") and r.chance(0.3):
            line += r.choice([" ", "  ", "\t"])
        if sp.get("lead_ws") and r.chance(0.3):
            line = r.choice([" ", "  "]) + line
        lines.append(line)
    if sp.get("blanks") and r.chance(0.5):
        lines.append("")
    if sp.get("comments") and r.chance(0.3):
        lines.append("% end")
    return lines


def sparse_is_default(c, v):
    """what a sparse ARFF writer leaves out: numeric zero.  (Nominal values are always written
    explicitly by the harness' writer; see notes: the index-0 convention is outside the check.)"""
    if v is None:
        return False
    if c["type"] == "numeric":
        try:
            return float(v) == 0.0
        except ValueError:
            return False
    return False


def write_arff_sparse(table, sp):
    r = Rng(sp.get("sseed", 0), "arff")
    lines = arff_header(table, sp, r)
    sep = sp.get("sparse_sep", ",")
    for row in table["rows"]:
        if sp.get("comments") and r.chance(0.25):
            lines.append(r.choice(["%", "% {0 1}", "%?"]))
        if sp.get("blanks") and r.chance(0.25):
            lines.append("")
        items = []
        for j, (c, v) in enumerate(zip(table["cols"], row)):
            if sparse_is_default(c, v) and not (sp.get("sparse_explicit_zero") and r.chance(0.5)):
                continue
            items.append("%d %s" % (j, arff_cell(c, v, sp, r)))
        pad = sp.get("sparse_pad", "")
        line = "{" + pad + sep.join(items) + pad + "}"
        if sp.get("trail_ws") and r.chance(0.3):
            line += r.choice([" ", "\t"])
        lines.append(line)
    if sp.get("blanks") and r.chance(0.5):
        lines.append("")
    return lines


def expect_arff(table, dense):
    """what the table says: per row list of cells (dense) or dict name->cell (sparse), cell =
    ('num', float) | ('str', s) | ('cat', s, levels) | ('missing',)"""
    out = []
    for row in table["rows"]:
        cells = []
        for c, v in zip(table["cols"], row):
            if v is None:
                cells.append(["missing"])
            elif c["type"] == "numeric":
                cells.append(["num", float(v)])
            elif c["type"] == "nominal":
                cells.append(["cat", v, list(c["levels"])])
            else:
                cells.append(["str", v])
        if dense:
            out.append({"cells": cells, "missing": any(v is None for v in row)})
        else:
            d = {}
            for c, v, cell in zip(table["cols"], row, cells):
                if sparse_is_default(c, v):
                    continue
                d[c["name"]] = cell
            out.append({"cells": d, "missing": any(v is None for v in row)})
    return out


# ------------------------------------------------------------------ CSV
def csv_field(s, sp, r, edge=False):
    """RFC 4180: fields with the delimiter, a double quote or a line break are quoted, quotes doubled.
    `edge`: first/last field of a record; mode 'minimal' never quotes spaces (RFC: spaces are part of the field)."""
    d = sp.get("delimiter", ",")
    must = any(ch in s for ch in (d, '"', "\n", "\r"))
    mode = sp.get("quoting", "minimal")
    if mode == "all":
        q = True
    elif mode == "nonnumeric":
        try:
            float(s)
            q = must
        except ValueError:
            q = True
    elif mode == "some":
        q = must or r.chance(0.4)
    else:
        q = must
    if q:
        return '"' + s.replace('"', '""') + '"'
    return s


def write_csv(rows, sp, header=None):
    r = Rng(sp.get("sseed", 0), "csv")
    d = sp.get("delimiter", ",")
    lines = []
    allrows = ([header] if header is not None else []) + rows
    for k, row in enumerate(allrows):
        if sp.get("blanks") and r.chance(0.25):
            lines.append("")
        if len(row) == 1 and row[0] == "" and sp.get("quoting", "minimal") in ("minimal", "some", "nonnumeric"):
            lines.append('""')       # what csv.writer does for a lone empty field
            continue
        lines.append(d.join(csv_field(s, sp, r) for s in row))
    if sp.get("blanks") and r.chance(0.4):
        lines.append("")
    return lines


def gen_csv_table(rng):
    ncols = rng.choice([1, 1, 2, 2, 3, 4, 5, 6])
    nrows = rng.choice([0, 1, 1, 2, 3, 4, 6, 8])
    p = rng.choice([0.0, 0.2, 0.5, 0.8])
    rows = []
    for _ in range(nrows):
        rows.append([(rng.choice(NUMTEXT) if rng.chance(0.3) else gen_text(rng, 6, p)) for _ in range(ncols)])
    header = None
    if rng.chance(0.5):
        header = []
        while len(header) < ncols:
            h = gen_text(rng, 5, p, allow_empty=False)
            if h not in header:
                header.append(h)
    return rows, header


# ------------------------------------------------------------------ LibSVM / Manik
def gen_svm_rows(rng):
    nrows = rng.choice([0, 1, 1, 2, 3, 4, 6, 8])
    rows = []
    nfeat = rng.choice([1, 2, 3, 6])
    for _ in range(nrows):
        nl = rng.choice([1, 1, 1, 2, 3])
        labels = []
        for _ in range(nl):
            labels.append(rng.choice(["0", "1", "2", "-1", "+1", "7", "12", "1.5", "a", "cat", "\u00e9", "x_y"]))
        ks = sorted(rng.sample(list(range(0, 12)), rng.randint(0, nfeat)))
        feats = [[k, rng.choice(NUMTEXT)] for k in ks]
        rows.append({"labels": labels, "feats": feats})
    return rows


def write_svm(rows, sp, manik=False):
    r = Rng(sp.get("sseed", 0), "svm")
    lines = []
    if manik:
        nf = 1 + max([k for row in rows for k, _ in row["feats"]] + [0])
        lines.append("%d %d %d" % (len(rows), nf, 1 + len({l for row in rows for l in row["labels"]})))
    for row in rows:
        if sp.get("blanks") and r.chance(0.2):
            lines.append("")
        line = ",".join(row["labels"])
        for k, v in row["feats"]:
            line += " %d:%s" % (k, v)
        if sp.get("trail_ws") and r.chance(0.3):
            line += r.choice([" ", "  "])
        lines.append(line)
    return lines


def expect_svm(rows):
    return [[{int(k): float(v) for k, v in row["feats"]}, list(row["labels"])] for row in rows]
