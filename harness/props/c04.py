"""C04 Environments can be read any number of times with identical results.

Case  = {"src": {...}, "chain": [{"m": shortcut, "a": [...], "k": {...}}...], "hist": [{"op":..., "on": j, "k": n}...]}
Every case is turned into a real `coba.environments.Environments` pipeline through the public
constructors / shortcut methods.  The history is run on ONE pool of objects derived from it.

(B)  direct monitor: every full read equals the read of a freshly built identical pipeline, every
     abandoned read is a prefix of it, params after a completed read equal the fresh pipeline's
     params after a read, caller-passed data is unchanged.
(A)  the Lean driver runs the stateful skeleton of the same pipeline (Model/C04.lean) on the same
     history and its predictions (per read: the sequence of interned items, params tokens, errors)
     are compared with what the code did.
"""
import gc
import json
import os
import pickle
import shutil
import sys
import tempfile
import traceback
import zlib

from core.engine import Property, F

SIZES = [0, 1, 2, 3, 4, 5, 7, 12, 24, 25, 26, 30, 49, 50, 51, 60]
DERIVE = ("materialize", "cache", "chunk", "pickle", "save")


# ----------------------------------------------------------------------------------------------
# JSON <-> feature values
def dv(j):
    """decode a JSON-encoded feature value (tuples / sparse dicts are tagged)"""
    if isinstance(j, dict):
        if "t" in j:
            return tuple(dv(x) for x in j["t"])
        if "d" in j:
            return {k: dv(v) for k, v in j["d"]}
        if "f" in j:
            return float(j["f"])
        if "c" in j:
            from coba.primitives import Categorical
            return Categorical(j["c"], list(j["L"]))
        raise ValueError(j)
    if isinstance(j, list):
        return [dv(x) for x in j]
    return j


def cv(x, depth=0):
    """canonical JSON-able form of a value, at the level of Python equality
    (1 == 1.0, a lazy dense row == the list of its values; tuple != list)"""
    if depth > 8:
        return "<deep>"
    if x is None or isinstance(x, bool):
        return x
    if isinstance(x, str):
        if type(x).__name__ == "Categorical":
            return {"cat": str(x)}          # == its string, but a filter that one-hot encodes it in place must show
        return str(x)
    if isinstance(x, int):
        return x
    if isinstance(x, float):
        if x != x:
            return "nan"
        if x in (float("inf"), float("-inf")):
            return repr(x)
        if x.is_integer() and abs(x) < 2 ** 53:
            return int(x)
        return {"f": repr(x)}
    if isinstance(x, tuple):
        return {"t": [cv(v, depth + 1) for v in x]}
    if isinstance(x, list):
        return [cv(v, depth + 1) for v in x]
    if isinstance(x, dict):
        return {"d": sorted(([str(k), cv(v, depth + 1)] for k, v in x.items()), key=lambda p: p[0])}
    from coba import primitives
    if isinstance(x, primitives.Sparse):
        return {"d": sorted(([str(k), cv(v, depth + 1)] for k, v in x.items()), key=lambda p: p[0])}
    if isinstance(x, primitives.Dense):
        return [cv(v, depth + 1) for v in x]
    if isinstance(x, (set, frozenset)):
        return {"s": sorted(json.dumps(cv(v, depth + 1), sort_keys=True) for v in x)}
    if isinstance(x, range):
        return [int(v) for v in x]
    return {"o": type(x).__name__}


PROBES = [0, 1, 0.5, 2]


def creward(r, actions):
    if callable(r):
        if isinstance(actions, (list, tuple)) and len(actions) > 0:
            vals = [r(a) for a in actions]
            out = {"r": [cv(v) for v in vals]}
            try:        # the action the reward function favours (the true label of a supervised interaction) and what it pays
                b = max(range(len(vals)), key=lambda i: vals[i])
                out["best"] = [cv(actions[b]), cv(vals[b])]
            except Exception:
                pass
            return out
        return {"rp": [cv(r(a)) for a in PROBES]}
    return {"r": cv(r)}


def cint1(it):
    out = {}
    actions = it.get("actions")
    for k in sorted(it.keys(), key=str):
        v = it[k]
        if k in ("rewards", "feedbacks"):
            out[k] = creward(v, actions)
        elif callable(v):
            out[str(k)] = {"o": type(v).__name__}
        else:
            out[str(k)] = cv(v)
    return out


def cint(it):
    """canonicalise one (possibly batched) interaction to a plain JSON-able dict"""
    from coba.primitives import is_batch
    bk = [k for k, v in it.items() if is_batch(v)]
    if not bk:
        return cint1(it)
    n = len(it[bk[0]])
    subs = []
    for i in range(n):
        sub = {}
        for k in it:
            try:
                sub[k] = it[k][i]
            except Exception:
                sub[k] = it[k]
        subs.append(cint1(sub))
    return {"batch": subs}


def cjson(x):
    return json.dumps(x, sort_keys=True, separators=(",", ":"))


def errname(e):
    return type(e).__name__


def trappable(e):
    """errors of the code under test (coba.exceptions.CobaExit derives from BaseException); never the
    harness's own time-out or an interrupt"""
    n = type(e).__name__
    if n == "CobaExit":
        return True
    return isinstance(e, Exception) and n != "CaseTimeout"


# ----------------------------------------------------------------------------------------------
# building the real pipeline from a case
class CountingSeq(list):
    """a caller-owned Sequence that is not a plain list"""
    pass


class PmfPolicy:
    """a caller-written, stateless logging policy whose predict returns a PMF over the actions: coba (SafeLearner) then draws the
    action with the generator seeded by the `seed` of `logged(learner, seed)` - the built-in learners draw with their own seed"""

    def __init__(self, tilt=0.5):
        self._tilt = tilt

    @property
    def params(self):
        return {"family": "pmf_policy", "tilt": self._tilt}

    def predict(self, context, actions):
        n = len(actions)
        if n == 1:
            return [1.0]
        return [self._tilt] + [(1 - self._tilt) / (n - 1)] * (n - 1)

    def learn(self, context, action, reward, probability, **kwargs):
        pass


def make_learner(spec):
    from coba.learners import RandomLearner, FixedLearner, BanditEpsilonLearner, BanditUCBLearner
    k = spec.get("kind", "random")
    if k == "pmf":
        return PmfPolicy(spec.get("tilt", 0.5))
    if k == "random":
        return RandomLearner(spec.get("seed", 1))
    if k == "eps":
        return BanditEpsilonLearner(spec.get("eps", 0.1), spec.get("seed", 1))
    if k == "ucb":
        return BanditUCBLearner(spec.get("seed", 1))
    raise ValueError(k)


def build_source(src, tmp, watch):
    """-> Environments built by a public constructor; `watch` collects caller-passed objects"""
    from coba.environments import Environments
    k = src["kind"]
    if k == "bandit":
        return Environments.from_bandit_synthetic(src["n"], src["n_actions"], src["seed"])
    if k == "linear":
        if src.get("rf") is None:       # the constructor's own (shared, mutable) default
            return Environments.from_linear_synthetic(src["n"], src["n_actions"], src["n_ctx"], src["n_act"], src["n_coeff"], seed=src["seed"])
        rf = list(src["rf"])
        watch["linear.reward_features"] = rf
        return Environments.from_linear_synthetic(src["n"], src["n_actions"], src["n_ctx"], src["n_act"], src["n_coeff"], rf, src["seed"])
    if k == "neighbors":
        return Environments.from_neighbors_synthetic(src["n"], src["n_actions"], src["n_ctx"], src["n_act"], src["n_neigh"], src["seed"])
    if k == "kernel":
        return Environments.from_kernel_synthetic(src["n"], src["n_actions"], src["n_ctx"], src["n_act"], src["n_ex"], src["kernel"], src["degree"], src["gamma"], src["seed"])
    if k == "mlp":
        return Environments.from_mlp_synthetic(src["n"], src["n_actions"], src["n_ctx"], src["n_act"], src["seed"])
    if k == "lambda":
        ctxs = [dv(c) for c in src["ctxs"]]
        acts = [dv(a) for a in src["acts"]]
        rwds = [dv(r) for r in src["rwds"]]
        watch["lambda.ctxs"] = ctxs
        watch["lambda.acts"] = acts
        watch["lambda.rwds"] = rwds
        calls = watch.setdefault("_calls", [0])
        if src.get("seed") is None:
            def context(i):
                calls[0] += 1
                return ctxs[i % len(ctxs)]          # the caller's own object, not a copy

            def actions(i, c):
                return acts[i % len(acts)]

            def reward(i, c, a):
                row = rwds[i % len(rwds)]
                return row[acts[i % len(acts)].index(a) % len(row)]
            return Environments.from_lambda(src["n"], context, actions, reward)

        def context(i, rng):
            calls[0] += 1
            return ctxs[rng.randint(0, len(ctxs) - 1)]

        def actions(i, c, rng):
            return acts[i % len(acts)]

        def reward(i, c, a, rng):
            row = rwds[i % len(rwds)]
            return row[acts[i % len(acts)].index(a) % len(row)] + rng.randint(0, 3)
        return Environments.from_lambda(src["n"], context, actions, reward, src["seed"])
    if k == "sup_xy":
        X = CountingSeq(dv(x) for x in src["X"])
        Y = CountingSeq(dv(y) for y in src["Y"])
        watch["sup.X"] = X
        watch["sup.Y"] = Y
        if src.get("label_type") is None:
            return Environments.from_supervised(X, Y)
        return Environments.from_supervised(X, Y, label_type=src["label_type"])
    if k == "sup_rows":
        from coba.pipes import ListSource, IterableSource
        rows = [dv(r) for r in src["rows"]]
        watch["sup.rows"] = rows
        if src["via"] == "identity":
            from coba.pipes import IdentitySource
            sp = {"source": "my-rows", "origin": [1, 2]}         # a params dict the caller's source OWNS (IdentitySource keeps it)
            watch["sup.source.params"] = sp
            source = IdentitySource(rows, params=sp)
        else:
            source = ListSource(rows) if src["via"] == "list" else IterableSource(rows)
        kw = {}
        if src.get("label_col") is not None:
            kw["label_col"] = src["label_col"]
        if src.get("label_type") is not None:
            kw["label_type"] = src["label_type"]
        if src.get("take") is not None:
            kw["take"] = src["take"]
        envs = Environments.from_supervised(source, **kw)
        if src.get("twin"):         # a second environment over the SAME source object with another label type
            kw2 = dict(kw)
            kw2["label_type"] = src["twin"]
            envs = envs + Environments.from_supervised(source, **kw2)
        return envs
    if k == "sup_file":
        from coba.environments import CsvSource, ArffSource, LibSvmSource, ManikSource
        from coba.pipes import ListSource
        lines = list(src["lines"])
        fmt = src["fmt"]
        if src["via"] == "file":
            path = os.path.join(tmp, "data_%d.%s" % (len(watch), fmt))
            with open(path, "w", encoding="utf-8", newline="\n") as f:
                f.write("\n".join(lines) + ("\n" if lines else ""))
            watch["file:" + path] = path
            arg = path
        else:
            watch["sup.lines"] = lines
            arg = ListSource(lines)
        if fmt == "csv":
            source = CsvSource(arg, has_header=bool(src.get("has_header")))
        elif fmt == "arff":
            source = ArffSource(arg)
        elif fmt == "libsvm":
            source = LibSvmSource(arg)
        else:
            source = ManikSource(arg)
        kw = {}
        if src.get("label_col") is not None:
            kw["label_col"] = src["label_col"]
        if src.get("label_type") is not None:
            kw["label_type"] = src["label_type"]
        if src.get("take") is not None:
            kw["take"] = src["take"]
        return Environments.from_supervised(source, **kw)
    if k == "result":
        from coba.results import Result
        path = os.path.join(tmp, "result_%d.log" % len(watch))
        with open(path, "w", encoding="utf-8", newline="\n") as f:
            f.write("\n".join(src["log"]) + "\n")
        watch["file:" + path] = path
        if src["via"] == "file":
            envs = Environments.from_result(path)
        else:
            res = Result.from_save(path)
            watch["result.obj"] = res
            envs = Environments.from_result(res)
        return envs[src.get("pick", 0):src.get("pick", 0) + 1]
    raise ValueError("unknown source kind %r" % k)


def make_filter(spec):
    """a built-in EnvironmentFilter instance for `.filter(...)` (classes found by introspection)"""
    import coba.environments.filters as fl
    name = spec["cls"]
    cls = getattr(fl, name)
    if name == "BatchSafe":
        return cls(make_filter(spec["inner"]))
    args = [dv(a) for a in spec.get("a", [])]
    kw = {k: dv(v) for k, v in spec.get("k", {}).items()}
    return cls(*args, **kw)


def apply_chain(envs, chain, tmp, watch, multi=False):
    for n_step, step in enumerate(chain):
        m = step["m"]
        args = [dv(a) for a in step.get("a", [])]
        kw = {k: dv(v) for k, v in step.get("k", {}).items()}
        for key, val in list(enumerate(args)) + list(kw.items()):
            if isinstance(val, (list, dict)):
                watch["arg:%d:%s:%s" % (n_step, m, key)] = val       # a caller-owned mutable argument
        if m == "logged":
            lrn = make_learner(step["learner"])
            watch["learner%d" % len(watch)] = lrn
            envs = envs.logged(lrn, *args, **kw)
        elif m == "params":
            d = dict(args[0]) if args else {}
            watch["params%d" % len(watch)] = d
            envs = envs.params(d)
        elif m == "filter":
            envs = envs.filter(make_filter(step["f"]))
        elif m == "save":
            envs = envs.save(os.path.join(tmp, "chain_%d.zip" % len(os.listdir(tmp))))
        else:
            envs = getattr(envs, m)(*args, **kw)
        if not multi:
            envs = envs[step.get("pick", 0):step.get("pick", 0) + 1] if len(envs) > 1 else envs
        if m in ("cache", "materialize", "chunk", "save") or (m == "filter" and step["f"]["cls"] == "Cache"):
            watch.setdefault("_holders", []).append((m, envs))      # from here on the data is held by a cache / a file
    return envs


def is_multi(case):
    """the case builds a collection: further different environments ("sibs") or a twin over the same source object"""
    return bool(case.get("sibs")) or bool(case["src"].get("twin"))


def member_src(case):
    m = member_of(case)
    if case["src"].get("twin"):
        return case["src"] if m <= 1 else case["sibs"][m - 2]
    return case["src"] if m == 0 else case["sibs"][m - 1]


def member_of(case):
    return case.get("member", 0) if is_multi(case) else 0


def build(case, tmp):
    """-> (Environments, watch).  With "sibs" the collection holds several different environments and the shortcut
    methods are applied to the whole collection; the history is run on member `member_of(case)`."""
    watch = {}
    envs = build_source(case["src"], tmp, watch)
    for k, sib in enumerate(case.get("sibs") or []):
        w2 = {}
        envs = envs + build_source(sib, tmp, w2)
        for key, val in w2.items():
            if key == "_calls":
                continue
            watch["sib%d.%s" % (k, key) if not key.startswith("file:") else key] = val
    envs = apply_chain(envs, case.get("chain", []), tmp, watch, multi=is_multi(case))
    return envs, watch


def snapshot(watch):
    """deep, canonical picture of everything the caller passed in"""
    snap = {}
    for k, v in watch.items():
        if k.startswith("_"):
            continue
        if k.startswith("file:"):
            with open(v, "rb") as f:
                snap[k.split(os.sep)[-1]] = f.read().hex()
        elif k.startswith("learner"):
            snap[k] = cjson(cv(_deepvars(v)))
        elif k == "result.obj":
            r = v
            snap[k] = cjson([cv(r.environments.to_dicts()), cv(r.learners.to_dicts()), cv(r.evaluators.to_dicts()),
                             cv([list(c) for c in r.interactions.to_dicts()] if False else r.interactions.to_dicts())])
        else:
            snap[k] = cjson(cv(v))
    return snap


def _deepvars(o, depth=0):
    if depth > 4:
        return repr(type(o))
    if isinstance(o, (int, float, str, bool, type(None))):
        return o
    if isinstance(o, (list, tuple)):
        return [_deepvars(x, depth + 1) for x in o]
    if isinstance(o, dict):
        return {str(k): _deepvars(v, depth + 1) for k, v in o.items()}
    d = getattr(o, "__dict__", None)
    if d is None:
        slots = getattr(type(o), "__slots__", ())
        d = {s: getattr(o, s, None) for s in slots}
    return {str(k): _deepvars(v, depth + 1) for k, v in sorted(d.items()) if not callable(v)}


# ----------------------------------------------------------------------------------------------
# running a history on the real code
class Obj:
    def __init__(self, envs, how, parent=None, member=0):
        self.envs = envs            # the Environments the user holds (one member, or a collection of different environments)
        self.member = member if len(envs) > member else 0
        self.env = envs[self.member]    # the Environment the user reads again and again
        self.how = how
        self.parent = parent
        self.read_done = False      # a complete read has happened on this object (or was forced)


def full_read(env):
    return [cint(i) for i in env.read()]


class _ConsumerStop(Exception):
    pass


def partial_read(env, k, how="del"):
    """take k items and drop the iterator; returns (items, exhausted).  `how` = the way the consumer abandons the read: "del" (the
    reference is dropped), "close" (`it.close()`), "break" (a `for` loop left with `break`), "raise" (the consumer's loop body raises
    after k items and the exception is handled outside the loop) — in each the generator is closed while suspended at a `yield`"""
    it = iter(env.read())
    out = []
    exhausted = False
    try:
        if how in ("break", "raise") and k > 0:
            exhausted = True
            try:
                for x in it:
                    out.append(cint(x))
                    if len(out) >= k:
                        exhausted = False
                        if how == "raise":
                            raise _ConsumerStop()
                        break
            except _ConsumerStop:
                pass
        else:
            for _ in range(k):
                try:
                    out.append(cint(next(it)))
                except StopIteration:
                    exhausted = True
                    break
            if how == "close" and hasattr(it, "close"):
                it.close()
    finally:
        del it
        gc.collect()
    return out, exhausted


def run_history(case, tmp):
    """-> (outcomes, snap_before, snap_after).  outcomes[i] describes what op i observed."""
    from coba.environments import Environments
    envs, watch = build(case, tmp)
    before = snapshot(watch)
    mem = member_of(case)
    pool = [Obj(envs, "root", None, mem)]
    outs = []
    for h in case["hist"]:
        op = h["op"]
        j = h.get("on", -1)
        if j >= len(pool) or j < -len(pool):
            outs.append({"skip": "no such object"})
            continue
        o = pool[j]
        if o is None:
            outs.append({"skip": "object was not created"})
            if op in DERIVE:
                pool.append(None)
            continue
        try:
            if op == "full":
                seq = full_read(o.env)
                o.read_done = True
                outs.append({"full": seq, "calls": watch.get("_calls", [None])[0]})
            elif op == "partial":
                seq, exhausted = partial_read(o.env, h["k"], h.get("how", "del"))
                if exhausted:
                    o.read_done = True
                outs.append({"partial": seq, "exhausted": exhausted, "calls": watch.get("_calls", [None])[0]})
            elif op == "sib":
                i = h["i"]
                if i >= len(o.envs) or i == o.member:
                    outs.append({"skip": "no such member"})
                else:
                    outs.append({"sib": full_read(o.envs[i]), "i": i})
            elif op == "params":
                outs.append({"params": cv(dict(o.env.params)), "after_read": o.read_done})
            elif op == "materialize":
                n = Obj(o.envs.materialize(), op, o, o.member)
                # materialize() forces a read unless the pipeline already ends with a cache (then it is returned as it is)
                last = list(n.env)[-1]
                forced = not any(q is last for q in list(o.env))
                n.read_done = o.read_done or forced
                o.read_done = o.read_done or forced       # the forced read goes through the parent's source
                pool.append(n)
                outs.append({"derived": op, "calls": watch.get("_calls", [None])[0]})
            elif op == "cache":
                n = Obj(o.envs.cache(), op, o, o.member)
                n.read_done = o.read_done
                pool.append(n)
                outs.append({"derived": op})
            elif op == "chunk":
                n = Obj(o.envs.chunk(), op, o, o.member)
                n.read_done = o.read_done
                pool.append(n)
                outs.append({"derived": op})
            elif op == "pickle":
                if len(o.envs) > 1:
                    n = Obj(pickle.loads(pickle.dumps(o.envs)), op, o, o.member)      # the whole collection
                else:
                    n = Obj(Environments(pickle.loads(pickle.dumps(o.env))), op, o)
                n.read_done = o.read_done
                pool.append(n)
                outs.append({"derived": op})
            elif op == "save":
                path = os.path.join(tmp, "save_%d.zip" % len(os.listdir(tmp)))
                n = Obj(o.envs.save(path), op, o, o.member)
                n.read_done = True
                o.read_done = True
                pool.append(n)
                outs.append({"derived": op, "nbatches": saved_batches(path, o.member)})
            else:
                raise ValueError("bad op %r" % op)
        except BaseException as e:     # noqa
            if not trappable(e):
                raise
            outs.append({"err": errname(e), "msg": str(e)[:200], "op": op, "tb": traceback.format_exc()[-600:]})
            if op in DERIVE:
                pool.append(None)
    after = snapshot(watch)
    del pool
    gc.collect()
    return outs, before, after


def saved_batches(path, member):
    """how many batches of interactions the zip member of a saved environment holds (after the header and the params)"""
    import zipfile
    try:
        with zipfile.ZipFile(path) as z:
            names = z.namelist()
            with z.open(names[member if member < len(names) else 0]) as f:
                n = 0
                while True:
                    try:
                        pickle.load(f)
                        n += 1
                    except EOFError:
                        break
        return max(0, n - 2)
    except Exception:
        return None


def reference(case, tmp, member=None):
    """the denotation: one full read and the params after it, on a freshly built pipeline"""
    envs, watch = build(case, tmp)
    env = envs[member_of(case) if member is None else member]
    seq = full_read(env)
    params = cv(dict(env.params))
    if member is None:
        REF_EXTRA["src_params_after_read"] = dict(list(env)[0].params)
    return seq, params


REF_EXTRA = {}


def quiet():
    from coba.context import CobaContext, NullLogger
    CobaContext.logger = NullLogger()
    CobaContext.store = {}


# ----------------------------------------------------------------------------------------------
# generators
def g_num(rng, small=False):
    r = rng.below(10)
    if r < 5:
        return rng.randint(-3, 9)
    if r < 8:
        return rng.randint(-40, 40) / 8        # dyadic, exact
    return rng.randint(0, 3)


def g_ctx(rng, kind, width):
    if kind == "none":
        return None
    if kind == "value":
        return g_num(rng)
    if kind == "str":
        return rng.choice(["a", "b", "c"])
    if kind == "dense":
        return [g_num(rng) for _ in range(width)]
    if kind == "densenone":
        return [(None if rng.chance(0.3) else g_num(rng)) for _ in range(max(2, width))]
    if kind == "densecat":
        return [g_num(rng) for _ in range(max(1, width - 1))] + [rng.choice(["u", "v", "w"])]
    if kind == "tuple":
        return {"t": [g_num(rng) for _ in range(width)]}
    if kind == "sparse":
        keys = rng.subset(["a", "b", "c", "d", "e", "f"][:max(2, width + 1)], 0.6) or ["a"]
        return {"d": [[k, g_num(rng)] for k in keys]}
    if kind == "nested":
        return [g_num(rng), [g_num(rng), g_num(rng)]]
    if kind == "nestedcat":
        lv = ["lo", "mid", "hi"]
        return [[{"c": rng.choice(lv), "L": lv}, {"c": rng.choice(lv), "L": lv}], g_num(rng)]
    if kind == "sparsecat":
        # a plain dict row (keyed by feature index, or by name) that holds a Categorical: Finalize's Repr step has to copy it before encoding
        lv = ["red", "green", "blue"]
        ks = [0, 1, 2] if rng.chance(0.6) else [3, 7, 5]      # (string keys: EncodeCatRows raises KeyError on the first read - not readable at all)
        return {"d": [[ks[0], g_num(rng)], [ks[1], {"c": rng.choice(lv), "L": lv}]] + ([[ks[2], g_num(rng)]] if rng.chance(0.4) else [])}
    raise ValueError(kind)


CTX_KINDS = ["none", "value", "str", "dense", "dense", "densecat", "densenone", "tuple", "sparse", "sparse", "nested", "nestedcat", "sparsecat"]


def g_lambda(rng, n):
    ck = rng.choice(CTX_KINDS)
    width = rng.randint(1, 3)
    nctx = rng.randint(1, 4)
    ctxs = [g_ctx(rng, ck, width) for _ in range(nctx)]
    ak = rng.choice(["str", "str", "onehot", "num", "dense", "sparse"])
    nact = rng.randint(2, 4)
    if ak == "str":
        base = rng.sample(TRICKY, nact) if rng.chance(0.3) else ["x", "y", "z", "w"][:nact]
    elif ak == "onehot":
        base = [{"t": [1 if i == j else 0 for j in range(nact)]} for i in range(nact)]
    elif ak == "num":
        base = list(range(1, nact + 1))
    elif ak == "dense":
        base = [[i, g_num(rng)] for i in range(nact)]
    else:
        kf = "k %d" if rng.chance(0.3) else "k%d"
        base = [{"d": [[kf % i, 1], ["b", g_num(rng)]]} for i in range(nact)]
    acts = [base] if rng.chance(0.7) else [base, base[:-1] if nact > 2 else base]
    rwds = [[rng.randint(0, 4) / 4 for _ in range(nact)] for _ in range(rng.randint(1, 3))]
    if rng.chance(0.25):
        rwds = [[rng.randint(0, 1) for _ in range(nact)] for _ in range(2)]
    seed = None if rng.chance(0.7) else rng.randint(0, 50)
    shape = {"ctx": ck, "act": ak, "width": width, "nact": nact, "skeys": ["a", "b", "c", "d", "e", "f"][:max(2, width + 1)]}
    return {"kind": "lambda", "n": n, "ctxs": ctxs, "acts": acts, "rwds": rwds, "seed": seed}, shape


def g_synth(rng, n):
    k = rng.choice(["bandit", "linear", "neighbors", "kernel", "mlp"])
    na = rng.randint(2, 4)
    nc = rng.choice([0, 1, 2, 3])
    nf = rng.choice([0, 0, 1, 2])
    seed = rng.randint(0, 99)
    shape = {"ctx": "dense" if nc else "none", "act": "dense" if nf else "onehot", "width": nc, "nact": na}
    if k == "bandit":
        shape = {"ctx": "none", "act": "onehot", "width": 0, "nact": na}
        return {"kind": k, "n": n, "n_actions": na, "seed": seed}, shape
    if k == "linear":
        rf = rng.choice([["a", "xa"], ["x", "a"], ["xa"], ["a"], ["x", "xa", "xxa"], None, None])     # None: the constructor's default
        return {"kind": k, "n": n, "n_actions": na, "n_ctx": nc, "n_act": nf, "n_coeff": rng.choice([None, 1, 3, 5]), "rf": rf, "seed": seed}, shape
    if k == "neighbors":
        return {"kind": k, "n": n, "n_actions": na, "n_ctx": nc, "n_act": nf, "n_neigh": rng.randint(1, 6), "seed": seed}, shape
    if k == "kernel":
        return {"kind": k, "n": n, "n_actions": na, "n_ctx": nc, "n_act": nf, "n_ex": rng.randint(1, 4),
                "kernel": rng.choice(["linear", "polynomial", "exponential", "gaussian"]), "degree": rng.randint(1, 3), "gamma": rng.choice([1, 0.5, 2]), "seed": seed}, shape
    return {"kind": k, "n": n, "n_actions": na, "n_ctx": nc, "n_act": nf, "seed": seed}, shape


# strings a repr / literal_eval / text round trip can mangle: inner, leading and trailing blanks, quotes, backslash, non-ascii, empty, separators
TRICKY = ["red wine", "white wine", " lead", "trail ", "it's", 'say "hi"', "back\\slash", "na\u00efve \u00fc", "", "a, b", "two  blanks", "tab\there"]


def g_labels(rng, n, lt, tricky_ok=False):
    if lt == "r":
        return [g_num(rng) for _ in range(n)]
    tricky = tricky_ok and rng.chance(0.4)
    if lt == "m":
        pool = rng.sample(TRICKY, 3) if tricky else ["p", "q", "r"]
        return [rng.subset(pool, 0.5) or [pool[0]] for _ in range(n)]
    labs = rng.sample(TRICKY, rng.randint(2, 3)) if tricky else rng.choice([["a", "b"], ["a", "b", "c"], [1, 2, 3], ["yes", "no"]])
    return [rng.choice(labs) for _ in range(n)]


def g_sup(rng, n):
    r = rng.below(100)
    width = rng.randint(1, 3)
    lt = rng.choice(["c", "c", "c", "r", "m", None, None])
    if r < 30:
        ck = rng.choice(["dense", "dense", "sparse", "value", "densecat", "densenone", "nestedcat", "sparsecat"])
        X = [g_ctx(rng, ck, width) for _ in range(n)]
        Y = g_labels(rng, n, lt or rng.choice(["c", "r"]), tricky_ok=True)
        shape = {"ctx": ck, "act": "empty" if (lt == "r" or (lt is None and Y and not isinstance(Y[0], str))) else "str", "width": width, "nact": 3,
                 "skeys": ["a", "b", "c", "d", "e", "f"][:max(2, width + 1)]}
        return {"kind": "sup_xy", "X": X, "Y": Y, "label_type": lt}, shape
    if r < 60:
        via = rng.choice(["list", "iterable"])
        take = rng.choice([None, None, None, max(1, n // 2), n + 3])
        mode = rng.choice(["pairs", "dense_col", "sparse_col"])
        labs = g_labels(rng, n, lt or "c", tricky_ok=True)
        if lt == "m" and mode != "pairs":
            lt = "c"
            labs = g_labels(rng, n, "c", tricky_ok=True)
        if mode == "pairs":
            ck = rng.choice(["dense", "sparse", "value", "sparsecat"])
            if rng.chance(0.45):
                via = "identity"              # a source object that OWNS its params dict
                take = None if rng.chance(0.8) else take
            twin = None
            if take is None and rng.chance(0.5):
                # two environments over ONE source object: numeric labels so that both label types can be read
                labs = [rng.randint(1, 3) for _ in range(n)]
                lt = rng.choice(["c", "r", None])
                twin = "r" if lt == "c" else "c"
            rows = [{"t": [g_ctx(rng, ck, width), labs[i]]} for i in range(n)]
            src = {"kind": "sup_rows", "via": via, "rows": rows, "label_col": None, "label_type": lt, "take": take}
            if twin:
                src["twin"] = twin
        elif mode == "dense_col":
            ck = "dense"
            col = rng.randint(0, width)
            rows = []
            for i in range(n):
                f = g_ctx(rng, "dense", width)
                f.insert(col, labs[i])
                rows.append(f)
            src = {"kind": "sup_rows", "via": via, "rows": rows, "label_col": col, "label_type": lt or rng.choice(["c", "r"]) if lt != "m" else "c", "take": take}
            if src["label_type"] == "r":
                for i, rr in enumerate(rows):
                    rr[col] = g_num(rng)
        else:
            ck = "sparse"
            rows = []
            for i in range(n):
                f = g_ctx(rng, "sparse", width)
                f["d"].append(["lbl", labs[i]])
                rows.append(f)
            src = {"kind": "sup_rows", "via": via, "rows": rows, "label_col": "lbl", "label_type": lt or "c", "take": take}
        cont = src.get("label_type") == "r" or (src.get("label_type") is None and labs and not isinstance(labs[0], (str, list)))
        shape = {"ctx": ck, "act": "empty" if cont else "str", "width": width, "nact": 3, "skeys": ["a", "b", "c", "d", "e", "f"][:max(2, width + 1)]}
        return src, shape
    # files / line sources
    fmt = rng.choice(["csv", "csv", "arff", "libsvm", "manik"])
    via = rng.choice(["file", "file", "lines"])
    take = rng.choice([None, None, None, max(1, n // 2)])
    if fmt == "csv":
        hdr = rng.chance(0.5)
        labs = g_labels(rng, n, "c")
        lines = []
        if hdr:
            lines.append(",".join(["f%d" % i for i in range(width)] + ["lbl"]))
        for i in range(n):
            lines.append(",".join([str(g_num(rng)) for _ in range(width)] + [str(labs[i])]))
        src = {"kind": "sup_file", "fmt": fmt, "via": via, "lines": lines, "has_header": hdr, "label_col": ("lbl" if hdr and rng.chance(0.5) else width),
               "label_type": rng.choice(["c", "c", None]) or "c", "take": take}
        shape = {"ctx": "densestr", "act": "str", "width": width, "nact": 3}
        return src, shape
    if fmt == "arff":
        labs = g_labels(rng, n, "c")
        levels = sorted(set(str(x) for x in labs)) or ["a"]
        lines = ["@relation t"] + ["@attribute f%d numeric" % i for i in range(width)] + ["@attribute lbl {%s}" % ",".join(levels), "@data"]
        for i in range(n):
            lines.append(",".join([str(g_num(rng)) for _ in range(width)] + [str(labs[i])]))
        src = {"kind": "sup_file", "fmt": fmt, "via": via, "lines": lines, "label_col": "lbl", "label_type": rng.choice(["c", None]), "take": take}
        shape = {"ctx": "dense", "act": "str", "width": width, "nact": len(levels)}
        return src, shape
    lines = ["%d %d %d" % (n, 6, 3)] if fmt == "manik" else []
    for i in range(n):
        lab = ",".join(str(x) for x in (rng.subset([0, 1, 2], 0.5) or [1]))
        feats = " ".join("%d:%s" % (k, g_num(rng)) for k in (rng.subset([1, 2, 3, 4, 5], 0.5) or [1]))
        lines.append(lab + " " + feats)
    src = {"kind": "sup_file", "fmt": fmt, "via": via, "lines": lines, "label_col": None, "label_type": rng.choice(["m", "m", "c", None]), "take": take}
    shape = {"ctx": "sparse", "act": "str", "width": 3, "nact": 3, "skeys": [1, 2, 3, 4, 5]}
    return src, shape


def g_result(rng, n):
    logged = rng.chance(0.4)
    nact = rng.randint(2, 3)
    acts = [list(range(1, nact + 1)) for _ in range(n)]
    packed = {}
    if rng.chance(0.7):
        packed["context"] = [[g_num(rng), g_num(rng)] for _ in range(n)] if rng.chance(0.6) else [g_num(rng) for _ in range(n)]
    if logged:
        packed["action"] = [rng.randint(1, nact) for _ in range(n)]
        packed["reward"] = [rng.randint(0, 4) / 4 for _ in range(n)]
        packed["probability"] = [rng.choice([0.5, 0.25, 1]) for _ in range(n)]
        if rng.chance(0.5):
            packed["actions"] = acts
    else:
        packed["actions"] = acts
        packed["rewards"] = [[rng.randint(0, 4) / 4 for _ in range(nact)] for _ in range(n)]
    if rng.chance(0.3):
        packed["extra"] = [rng.randint(0, 9) for _ in range(n)]
    log = ['["version",4]', '["E",0,{"e":%d}]' % rng.randint(0, 9), '["L",0,{"l":1}]', '["V",0,{"v":2}]',
           '["I",[0,0,0],%s]' % json.dumps({"_packed": packed})]
    if rng.chance(0.3):
        log.append('["L",1,{"l":2}]')
        log.append('["I",[0,1,0],%s]' % json.dumps({"_packed": packed}))
    src = {"kind": "result", "via": rng.choice(["obj", "file"]), "log": log, "pick": 0}
    ctx = "none"
    if "context" in packed:
        ctx = "dense" if n and isinstance(packed["context"][0], list) else "value"
    shape = {"ctx": ctx, "act": "num" if "actions" in packed else "none", "width": 2, "nact": nact, "logged": logged, "norewards": "rewards" not in packed}
    return src, shape


def g_source(rng):
    n = rng.choice(SIZES) if rng.chance(0.8) else rng.randint(0, 60)
    r = rng.below(100)
    if r < 22:
        s, sh = g_synth(rng, n)
    elif r < 47:
        s, sh = g_lambda(rng, n)
    elif r < 82:
        s, sh = g_sup(rng, min(n, 40))
    else:
        s, sh = g_result(rng, min(n, 40))
    sh.setdefault("logged", False)
    sh.setdefault("norewards", False)
    sh["batched"] = False
    sh["n"] = n
    return s, sh


ENV_FILTER_CLASSES = None


def env_filter_classes():
    """names of the built-in EnvironmentFilter classes (by introspection of coba.environments.filters)"""
    global ENV_FILTER_CLASSES
    if ENV_FILTER_CLASSES is None:
        import inspect
        import coba.environments.filters as fl
        from coba.primitives import EnvironmentFilter
        ENV_FILTER_CLASSES = sorted(n for n, c in inspect.getmembers(fl, inspect.isclass)
                                    if issubclass(c, EnvironmentFilter) and c is not EnvironmentFilter and c.__module__ == fl.__name__)
    return ENV_FILTER_CLASSES


SHORTCUTS = None


def shortcuts():
    """public instance methods of Environments that return Environments (found by introspection)"""
    global SHORTCUTS
    if SHORTCUTS is None:
        import inspect
        from coba.environments import Environments
        out = []
        for n, m in inspect.getmembers(Environments, predicate=inspect.isfunction):
            if n.startswith("_") or n.startswith("from_") or n in ("count", "index", "cache_dir"):
                continue
            out.append(n)
        SHORTCUTS = sorted(out)
    return SHORTCUTS


HANDLED_SHORTCUTS = {"binary", "sparse", "dense", "shuffle", "sort", "riffle", "cycle", "params", "take", "slice", "reservoir", "scale", "impute",
                     "where", "noise", "flatten", "grounded", "repr", "batch", "unbatch", "chunk", "cache", "materialize", "logged", "ope_rewards",
                     "save", "filter"}
HANDLED_FILTERS = {"Identity", "Mutable", "Harden", "Chunk", "EmptyCheck", "Unbatch", "Flatten", "Finalize", "BatchSafe", "Cache", "Take", "Shuffle",
                   "Slice", "Reservoir", "Params", "OpeRewards"}      # reached through .filter(); the others through their shortcut


def numeric_ctx(sh):
    return sh["ctx"] in ("dense", "tuple", "value", "sparse")


def g_step(rng, sh, want=None):
    """one legal shortcut call for the current interaction shape; returns (step, shape') or None"""
    names = shortcuts()
    m = want if want in names else rng.choice(names)
    sh = dict(sh)
    disc = sh["act"] not in ("empty", "none") and not sh["norewards"]
    if sh["batched"] and m not in ("unbatch", "params", "take", "slice", "shuffle", "cache", "chunk", "materialize", "reservoir", "riffle", "where", "filter"):
        return None
    if m == "binary":
        if not disc:
            return None
        return {"m": m}, sh
    if m == "sparse":
        a = rng.chance(0.3)
        if sh["ctx"] in ("nested",):
            return None
        st = {"m": m, "a": [rng.chance(0.8), a]}
        if st["a"][0] and sh["ctx"] != "none":
            sh["ctx"] = "sparse" if sh["ctx"] != "sparse" else "sparse"
            sh["skeys"] = sh.get("skeys") or [str(i) for i in range(4)] + ["context"]
            sh["sparsified"] = True
        if a and sh["act"] not in ("empty", "none"):
            sh["act"] = "sparse"
        return st, sh
    if m == "dense":
        st = {"m": m, "a": [rng.choice([3, 6, 8, 20]), rng.choice(["lookup", "lookup", "hashing"])], "k": {"context": rng.chance(0.85), "action": rng.chance(0.3)}}
        if st["a"][1] == "hashing" and (sh.get("skeys") and not all(isinstance(k, str) for k in sh["skeys"])):
            st["a"][1] = "lookup"
        if st["k"]["context"] and sh["ctx"] == "sparse":
            sh["ctx"] = "dense"
            sh["width"] = st["a"][0]
        if st["k"]["action"] and sh["act"] == "sparse":
            sh["act"] = "dense"
        return st, sh
    if m == "shuffle":
        r = rng.below(10)
        if r < 7:
            return {"m": m, "a": [rng.randint(0, 20)]}, sh
        if r < 8:
            return {"m": m, "k": {"seed": rng.randint(0, 20)}}, sh
        if r < 9:
            return {"m": m, "k": {"n": 2}, "pick": rng.randint(0, 1)}, sh
        return {"m": m, "a": [[rng.randint(0, 9), rng.randint(10, 20)]], "pick": rng.randint(0, 1)}, sh
    if m == "sort":
        if sh["ctx"] in ("dense", "tuple") and sh["width"] >= 1:
            keys = rng.subset(list(range(sh["width"])), 0.5)
            return {"m": m, "a": keys}, sh
        if sh["ctx"] == "sparse" and sh.get("skeys") and not sh.get("sparsified"):
            return {"m": m, "a": [rng.choice(sh["skeys"])]}, sh
        return None
    if m == "riffle":
        return {"m": m, "a": [rng.randint(1, 4), rng.randint(0, 9)]}, sh
    if m == "cycle":
        return {"m": m, "a": [rng.choice([0, 1, 2, 5, 30])]}, sh
    if m == "params":
        return {"m": m, "a": [{"d": [["p%d" % rng.randint(0, 2), rng.randint(0, 5)]]}]}, sh
    if m == "take":
        n = rng.choice([0, 1, 2, 3, 5, 25, 26, max(0, sh["n"] - 1), sh["n"], sh["n"] + 1])
        st = {"m": m, "a": [n, rng.chance(0.3)]}
        sh["n"] = min(sh["n"], n) if not (st["a"][1] and n > sh["n"]) else 0
        return st, sh
    if m == "slice":
        start = rng.choice([None, 0, 1, 2, 5])
        stop = rng.choice([None, None, 3, 10, 26, sh["n"]])
        step = rng.choice([1, 1, 2, 3])
        return {"m": m, "a": [start, stop, step]}, sh
    if m == "reservoir":
        return {"m": m, "a": [rng.choice([0, 1, 2, 3, 5, 26, sh["n"], sh["n"] + 2]), rng.randint(0, 9), rng.chance(0.3)]}, sh
    if m == "scale":
        if sh["ctx"] not in ("dense", "tuple", "value", "sparse", "densecat"):
            return None
        shift = rng.choice(["min", "mean", "med", 0, 1]) if sh["ctx"] != "sparse" else 0
        return {"m": m, "a": [shift, rng.choice(["minmax", "std", "iqr", "maxabs", 2]), "context", rng.choice([None, None, 1, 2, 5, 30])]}, sh
    if m == "impute":
        if sh["ctx"] not in ("dense", "tuple", "value", "sparse", "densecat", "densenone"):
            return None
        sh["ctx"] = "dense" if sh["ctx"] == "densenone" else sh["ctx"]
        return {"m": m, "a": [rng.choice(["mean", "median", "mode"]), rng.chance(0.5), rng.choice([None, None, 1, 3, 30])]}, sh
    if m == "where":
        kw = {}
        if rng.chance(0.5):
            kw["n_interactions"] = rng.choice([0, 1, 3, 26, {"t": [None, 40]}, {"t": [2, None]}, [1, 30]])
        if rng.chance(0.4) and sh["act"] not in ("none",) and not sh["batched"]:
            kw["n_actions"] = rng.choice([2, 3, {"t": [2, None]}, {"t": [None, 3]}])
        if rng.chance(0.3) and not sh["batched"]:
            kw["n_features"] = rng.choice([{"t": [0, None]}, {"t": [None, 50]}, {"t": [1, 20]}])
        return {"m": m, "k": kw}, sh
    if m == "noise":
        kw = {}
        if rng.chance(0.6):
            kw["context"] = rng.choice([{"t": [0, 1]}, {"t": ["g", 0, 0.5]}, {"t": ["i", 0, 2]}])
        if rng.chance(0.3):
            kw["action"] = rng.choice([{"t": [0, 1]}, {"t": ["i", 1, 2]}])
        if rng.chance(0.4):
            kw["reward"] = rng.choice([{"t": [0, 1]}, {"t": ["i", 0, 1]}])
        kw["seed"] = rng.randint(0, 9)
        if sh["norewards"] and "reward" in kw:
            del kw["reward"]
        if sh["act"] == "none" and "action" in kw:
            del kw["action"]
        return {"m": m, "k": kw}, sh
    if m == "flatten":
        if sh["ctx"] == "nested":
            sh["ctx"] = "dense"
            sh["width"] = 3
        return {"m": m}, sh
    if m == "grounded":
        if not disc or sh["logged"]:
            return None
        nu = rng.randint(1, 5)
        nw = rng.randint(2, 6)
        return {"m": m, "a": [nu, rng.randint(0, nu), nw, rng.randint(1, nw - 1), rng.randint(0, 9)]}, sh
    if m == "repr":
        return {"m": m, "a": [rng.choice(["onehot", "onehot_tuple", "string"]), rng.choice(["onehot", "onehot_tuple", "string"])]}, sh
    if m == "batch":
        if sh["batched"]:
            return None
        sh["batched"] = True
        return {"m": m, "a": [rng.choice([1, 2, 3, 5])]}, sh
    if m == "unbatch":
        sh["batched"] = False
        return {"m": m}, sh
    if m == "chunk":
        return {"m": m, "a": [rng.chance(0.7)]}, sh
    if m == "cache" or m == "materialize":
        return {"m": m}, sh
    if m == "logged":
        if sh["logged"] or not disc or sh["batched"]:
            return None
        sh["logged"] = True
        return {"m": m, "learner": {"kind": rng.choice(["random", "random", "eps", "ucb", "pmf", "pmf"]), "seed": rng.randint(0, 9)}, "a": [rng.choice([1.23, 1, 7, 2.5, 0, 0, 0.0])]}, sh
    if m == "ope_rewards":
        if not sh["logged"]:
            return None
        sh["norewards"] = False
        sh["act"] = sh["act"] if sh["act"] != "none" else "none"
        return {"m": m, "a": ["IPS"]}, sh
    if m == "save":
        if rng.chance(0.7):
            return None
        return {"m": m}, sh
    if m == "filter":
        cls = rng.choice(env_filter_classes())
        f = g_filter(rng, cls, sh)
        if f is None:
            return None
        return {"m": m, "f": f}, sh
    return {"unknown": m}, sh


def g_filter(rng, cls, sh):
    if cls in ("Identity", "Mutable", "Harden", "Chunk", "EmptyCheck", "Unbatch", "Flatten"):
        if cls == "Mutable" and sh["ctx"] == "none":
            return {"cls": cls}
        return {"cls": cls}
    if cls == "Finalize":
        return {"cls": "BatchSafe", "inner": {"cls": "Finalize"}} if rng.chance(0.6) else {"cls": cls}
    if cls == "BatchSafe":
        return {"cls": cls, "inner": {"cls": rng.choice(["Identity", "Finalize", "Mutable"])}}
    if cls == "Cache":
        return {"cls": cls, "a": [rng.choice([1, 2, 3, 25, None])]}
    if cls == "Take":
        return {"cls": cls, "a": [rng.choice([None, 0, 2, 30])]}
    if cls == "Shuffle":
        return {"cls": cls, "a": [rng.choice([None, 3]) if False else rng.randint(0, 9)]}
    if cls == "Slice":
        return {"cls": cls, "a": [rng.choice([None, 1]), rng.choice([None, 7])]}
    if cls == "Reservoir":
        return {"cls": cls, "a": [rng.choice([None, 2, 5])], "k": {"seed": rng.randint(0, 5)}}
    if cls == "Params":
        return {"cls": cls, "a": [{"d": [["q", 1]]}]}
    if cls == "OpeRewards":
        return {"cls": cls, "a": [None]}
    return None


MUTATORS = ["scale", "scale", "impute", "impute", "noise", "repr", "flatten", "cycle", "binary", "sparse", "dense", "grounded", "sort", "logged",
            "shuffle", "batch", "where", "take", "params"]


def nonidempotent(rng, st):
    """settings under which applying the filter to its own output is visible (so writing into shared data shows)"""
    if st["m"] == "scale" and rng.chance(0.7):
        st["a"][0] = st["a"][0] if st["a"][0] == 0 else rng.choice([1, 1, "mean", 2])
        st["a"][1] = rng.choice([2, 2, 0.5, "std"])
    return st


def g_chain(rng, sh):
    L = rng.choice([0, 1, 1, 2, 2, 3, 3, 4, 5, 6])
    chain = []
    tries = 0
    # bias: the stateful mechanisms must be reached often.  A forced entry is a shortcut name, None (any), or a list (one of)
    forced = []
    r = rng.below(100)
    holder = rng.choice(["cache", "cache", "materialize", "materialize", "chunk"])
    if r < 15:
        forced = ["logged", "shuffle"]
    elif r < 37:
        forced = [holder, MUTATORS]            # data held by a cache, then a filter that has to copy before it changes anything
    elif r < 52:
        # sparse contexts -> SparseDense rows (Densify) -> held by a cache -> a filter that writes into contexts
        forced = ([] if sh["ctx"] == "sparse" else ["sparse!"]) + ["dense!", holder, ["scale", "scale", "impute", "noise", "flatten", "repr"]]
    elif r < 57 or (sh["ctx"] == "nested" and r < 80):
        forced = ["sparse", "dense"] if sh["ctx"] != "nested" else [holder, "flatten"]
    elif r < 62 or (sh["ctx"] == "densenone" and r < 85):
        forced = ["impute"] if rng.chance(0.5) else [holder, "impute"]
    elif r < 66:
        forced = ["cache", "cycle"]
    elif r < 70:
        forced = ["grounded", holder]
    while len(chain) < L + len(forced) and tries < 40:
        tries += 1
        if forced:
            name = forced.pop(0)
            res = None
            for _ in range(12):
                want = rng.choice(name) if isinstance(name, list) else (name.rstrip("!") if name else None)
                res = g_step(rng, sh, want)
                if res and "unknown" not in res[0] and (want is None or res[0].get("m") == want):
                    break
                res = None
            if res is None:
                continue
            st, sh2 = res
            if name == "sparse!":
                st["a"][0] = True
                if sh["ctx"] != "none":
                    sh2["ctx"] = "sparse"
                    sh2["skeys"] = sh2.get("skeys") or [str(i) for i in range(4)] + ["context"]
                    sh2["sparsified"] = True
            if name == "dense!":
                st["k"]["context"] = True
                if sh["ctx"] == "sparse":
                    sh2["ctx"] = "dense"
                    sh2["width"] = st["a"][0]
            if isinstance(name, list):
                st = nonidempotent(rng, st)
            res = (st, sh2)
        else:
            res = g_step(rng, sh)
        if res is None:
            continue
        st, sh = res
        if "unknown" in st:
            continue
        chain.append(st)
    return chain, sh


def sibling_of(rng, src):
    """a DIFFERENT environment of the same shape (so that the same chain of shortcuts applies to it)"""
    s2 = json.loads(json.dumps(src))
    k = src["kind"]
    if k in ("bandit", "linear", "neighbors", "kernel", "mlp"):
        s2["seed"] = src["seed"] + rng.randint(1, 5)
        s2["n"] = max(0, src["n"] + rng.choice([-1, 0, 1, 3]))
    elif k == "lambda":
        s2["rwds"] = [[(x + 0.25) % 1.25 for x in row] for row in src["rwds"]][::-1]
        s2["ctxs"] = src["ctxs"][1:] + src["ctxs"][:1] if len(src["ctxs"]) > 1 else src["ctxs"]
        s2["n"] = max(0, src["n"] + rng.choice([-1, 1, 2]))
    elif k == "sup_xy":
        s2["X"], s2["Y"] = src["X"][::-1][:max(1, len(src["X"]) - 1)], src["Y"][::-1][:max(1, len(src["Y"]) - 1)]
    elif k == "sup_rows":
        s2["rows"] = src["rows"][::-1][:max(1, len(src["rows"]) - 1)]
    elif k == "sup_file":
        lines = src["lines"]
        nh = 0
        if src["fmt"] == "csv" and src.get("has_header"):
            nh = 1
        elif src["fmt"] == "arff":
            nh = lines.index("@data") + 1
        elif src["fmt"] == "manik":
            nh = 1
        s2["lines"] = lines[:nh] + lines[nh:][::-1][:max(1, len(lines) - nh - 1)]
    else:
        return None
    return s2 if s2 != src else None


def g_hist(rng, n_est, nmembers=1, member=0):
    L = rng.randint(2, 6)
    hist = []
    npool = 1
    floor = 0
    fulls = 0
    for i in range(L):
        if nmembers > 1 and rng.chance(0.35):
            hist.append({"op": "sib", "on": rng.randint(floor, npool - 1), "i": rng.choice([k for k in range(nmembers) if k != member])})
        r = rng.below(100)
        on = -1 if rng.chance(0.8) else rng.randint(floor, npool - 1)
        onabs = npool - 1 if on == -1 else on
        if r < 38:
            hist.append({"op": "full", "on": onabs})
            fulls += 1
        elif r < 62:
            k = rng.choice([0, 1, 2, 3, 5, 24, 25, 26, 27, 50, max(0, n_est - 1), n_est, n_est + 1])
            hist.append({"op": "partial", "on": onabs, "k": k})
        elif r < 72:
            hist.append({"op": "params", "on": onabs})
        else:
            op = rng.choice(["materialize", "cache", "cache", "chunk", "pickle", "pickle", "save"])
            hist.append({"op": op, "on": onabs})
            npool += 1
            if op in ("cache", "chunk"):
                floor = npool - 1
    # every history ends with observations of the newest object
    if nmembers > 1 and rng.chance(0.7):
        hist.append({"op": "sib", "on": npool - 1, "i": rng.choice([k for k in range(nmembers) if k != member])})
    hist.append({"op": "full", "on": npool - 1})
    if rng.chance(0.5):
        hist.append({"op": "params", "on": npool - 1})
    if rng.chance(0.6):
        hist.append({"op": "full", "on": npool - 1})      # data changed by the previous read shows on this one
    if fulls == 0 and rng.chance(0.7):
        hist.insert(0, {"op": "full", "on": 0})
    return hist


# ----------------------------------------------------------------------------------------------
# the repairs proposed in fixes/C04-*.diff, applied in-process to attribute a failure to a
# recorded defect: a failure is a KNOWN finding only if it disappears under exactly these repairs
class Patches:
    """context manager: monkey-patch the proposed repairs (subset given by ids) into the loaded coba"""

    def __init__(self, ids):
        self.ids = set(ids)
        self.undo = []

    def __enter__(self):
        import coba.environments.filters as ef
        import coba.pipes.filters as pf
        import coba.environments.supervised as sup
        import coba.environments.serialized as ser
        from coba.random import CobaRandom
        from coba.utilities import peek_first
        if "F1" in self.ids:      # logged Shuffle: use a local seed, never rewrite self._seed
            def shuffle_filter(self_, interactions):
                first, interactions = peek_first(interactions)
                if not interactions:
                    return
                seed = self_._seed
                if 'action' in first and 'reward' in first and seed is not None:
                    seed = seed * 3.21
                items = interactions.copy() if isinstance(interactions, list) else list(interactions)
                yield from CobaRandom(seed).shuffle(items, inplace=True)
            self._set(ef.Shuffle, "filter", shuffle_filter)
        if "F2" in self.ids:      # from_supervised(X,Y): keep the pairs, not a one-shot zip
            import builtins
            self._set(sup, "zip", lambda *a: list(builtins.zip(*a)))
        if "F3" in self.ids:      # pipes.Cache: a half-filled cache pickles as an unread one
            def getstate(self_):
                st = dict(self_.__dict__)
                it = st.get("_iter")
                if it is not None:
                    st["_iter"] = None
                    st["_cache"] = None
                return st
            self._set(pf.Cache, "__getstate__", getstate)
        if "F4" in self.ids:      # save(): record params after the read (n_actions of supervised sources)
            from itertools import islice

            def env_to_objects(self_, env):
                from coba import __version__
                I = iter(env.read())
                batches = []
                batch = list(islice(I, 1000))
                while batch:
                    batches.append(batch)
                    batch = list(islice(I, 1000))
                yield {"version": 2, "coba_version": __version__}
                yield env.params
                yield from batches
            self._set(ser.EnvironmentsToObjects, "_env_to_objects", env_to_objects)
        if "F5" in self.ids:      # lazy row views: __getattr__ must not recurse while unpickling
            import coba.primitives as pr
            import coba.pipes.rows as rows

            def ga(self_, attr):
                if attr == "_row":
                    raise AttributeError(attr)
                return getattr(self_._row, attr)
            for c in (pr.Dense, pr.Dense_, pr.Sparse, pr.Sparse_):
                self._set(c, "__getattr__", ga)
        if "F6" in self.ids:      # reward functions: a state that is not a Python literal (Categorical, lazy rows, inf) must survive pickling
            import coba.primitives as pr
            from ast import literal_eval

            def lit(x):
                t = type(x)
                if t is float:
                    return x == x and x not in (float("inf"), float("-inf"))
                if t in (int, str, bool, type(None)):
                    return True
                if t in (tuple, list):
                    return all(map(lit, x))
                if t is dict:
                    return all(lit(k) and lit(v) for k, v in x.items())
                return False

            def st(x):
                return repr(x) if lit(x) else x

            def un(x):
                return literal_eval(x) if isinstance(x, str) else x

            def b_gs(self_):
                return st((self_._argmax,) if self_._value == 1 else (self_._argmax, self_._value))

            def b_ss(self_, args):
                args = un(args)
                self_._argmax, self_._value = (args[0], 1) if len(args) == 1 else args

            def h_gs(self_):
                return st(self_._argmax)

            def h_ss(self_, args):
                self_._argmax = un(args)

            def d_gs(self_):
                return st((self_._state, self_._default))

            def d_ss(self_, args):
                self_._state, self_._default = un(args)
            for cls, g, ss_ in ((pr.BinaryReward, b_gs, b_ss), (pr.HammingReward, h_gs, h_ss), (pr.DiscreteReward, d_gs, d_ss)):
                self._set(cls, "__getstate__", g)
                self._set(cls, "__setstate__", ss_)
        return self

    def _set(self, owner, name, value):
        missing = object()
        old = owner.__dict__.get(name, missing) if isinstance(owner, type) else getattr(owner, name, missing)
        self.undo.append((owner, name, old, missing))
        setattr(owner, name, value)

    def __exit__(self, *a):
        for owner, name, old, missing in reversed(self.undo):
            if old is missing:
                try:
                    delattr(owner, name)
                except AttributeError:
                    pass
            else:
                setattr(owner, name, old)
        return False


KNOWN_PATCHES = ["F1", "F2", "F3", "F4", "F5", "F6"]
PATCH_SIG = {
    "F1": "F1-logged-shuffle-seed-left-rewritten",
    "F2": "F2-from_supervised-XY-one-shot-zip",
    "F3": "F3-pickle-after-abandoned-read-of-cache",
    "F4": "F4-save-records-params-before-read",
    "F5": "F5-lazy-row-views-cannot-be-unpickled",
    "F6": "F6-reward-state-not-a-literal-cannot-be-unpickled",
}


def open_known_sigs():
    """signatures of the findings recorded as open in known/C04.json"""
    try:
        from core import lean
        with open(os.path.join(lean.VERIF, "known", "C04.json"), encoding="utf-8") as f:
            return {k.get("sig") for k in json.load(f).get("findings", []) if k.get("status", "open") == "open"}
    except Exception:
        return set()


def monitor(case, tmp):
    """(B) on the real code. -> (raw failures [(what, detail)], tags, info)"""
    tags = []
    info = {}
    try:
        ref, refp = reference(case, tmp)
        srcpost = REF_EXTRA.get("src_params_after_read")
    except BaseException as e:  # the pipeline is not readable at all: outside the quantifier
        if not trappable(e):
            raise
        return None, ["ref-raises:" + errname(e)], {"ref_error": "%s: %s" % (errname(e), str(e)[:200])}
    outs, before, after = run_history(case, tmp)
    raw = []
    nfull = 0
    sibref = {}
    for i, (h, o) in enumerate(zip(case["hist"], outs)):
        op = h["op"]
        if "skip" in o:
            continue
        if "err" in o and op == "sib":
            k = h["i"]
            if k not in sibref:
                try:
                    sibref[k] = reference(case, tmp, k)[0]
                except BaseException as e:
                    if not trappable(e):
                        raise
                    sibref[k] = None
            if sibref[k] is None:
                tags.append("sib-ref-raises:" + o["err"])       # that member cannot be read at all: outside the quantifier
                continue
        if "err" in o:
            if op in DERIVE and derive_always_fails(case, i, o["err"], tmp):
                tags.append("unsupported:%s:%s" % (op, o["err"]))     # e.g. an environment that can never be pickled: not a matter of history
                continue
            raw.append(("op-raises", "%s:%s" % (op, o["err"]), "history step %d (%s) raised %s: %s" % (i, op, o["err"], o.get("msg"))))
            continue
        if op == "full":
            nfull += 1
            if o["full"] != ref:
                raw.append(("full-differs" if diffkind(o["full"], ref) != "regrouped" else "batches", diffkind(o["full"], ref), "history step %d: full read returned %d interactions, differing from the %d of a fresh read (%s)"
                            % (i, len(o["full"]), len(ref), diffkind(o["full"], ref))))
        elif op == "partial":
            if o["partial"] != ref[:len(o["partial"])] or (o["exhausted"] and len(o["partial"]) != len(ref)):
                dk = diffkind(o["partial"], ref, prefix=True)
                if dk != "regrouped":
                    dk = diffkind(o["partial"], ref[:len(o["partial"])])
                raw.append(("partial-differs" if dk != "regrouped" else "batches", dk, "history step %d: abandoned read of %d items is not a prefix of a fresh read" % (i, len(o["partial"]))))
        elif op == "sib":
            k = o["i"]
            if k not in sibref:
                try:
                    sibref[k] = reference(case, tmp, k)[0]
                except BaseException as e:
                    if not trappable(e):
                        raise
                    sibref[k] = None
            if sibref[k] is not None and o["sib"] != sibref[k]:
                raw.append(("sibling-differs" if diffkind(o["sib"], sibref[k]) != "regrouped" else "batches", diffkind(o["sib"], sibref[k]), "history step %d: member %d of the collection returned %d interactions that differ from its own fresh read "
                            "(the history is run on member %d)" % (i, k, len(o["sib"]), member_of(case))))
        elif op == "params":
            if o["after_read"] and o["params"] != refp:
                raw.append(("params-differ", pdiff(o["params"], refp), "history step %d: params after a completed read are %s, a fresh pipeline reports %s after its read"
                            % (i, cjson(o["params"])[:160], cjson(refp)[:160])))
    if before != after:
        ks = sorted(k for k in before if before[k] != after.get(k))
        raw.append(("source-modified", ",".join(k.rstrip("0123456789") for k in ks), "caller-passed data changed during the history: %s" % ks))
    hraw = held_data_check(case, tmp, tags)
    raw += hraw
    if case.get("xproc"):
        raw += xproc_check(case, tmp, ref, tags)
    info = {"ref_len": len(ref), "nfull": nfull, "outs": outs, "ref": ref, "refp": refp, "srcpost": srcpost, "snap_after": after, "held_changed": bool(hraw)}
    return raw, tags, info


LAST_PROBE = {}


def default_probe():
    """fresh environments built with the constructors' own defaults: what they yield and report must not depend on
    anything another environment did before (shared module-level / default-argument objects)"""
    from coba.environments import Environments
    out = {}
    makers = {
        "linear": lambda: Environments.from_linear_synthetic(2, n_actions=2, n_context_features=2, n_action_features=2),
        "linear-noctx": lambda: Environments.from_linear_synthetic(3, n_actions=2, n_context_features=0, n_action_features=2),
        "linear-noact": lambda: Environments.from_linear_synthetic(3, n_actions=2, n_context_features=2, n_action_features=0),
        "neighbors": lambda: Environments.from_neighbors_synthetic(3, n_actions=2, n_context_features=2, n_action_features=2, n_neighborhoods=3),
        "kernel": lambda: Environments.from_kernel_synthetic(3, n_actions=2, n_context_features=2, n_action_features=2, n_exemplars=2),
        "mlp": lambda: Environments.from_mlp_synthetic(3, n_actions=2, n_context_features=2, n_action_features=2),
        "bandit": lambda: Environments.from_bandit_synthetic(3, n_actions=2),
    }
    for k, mk in makers.items():
        try:
            env = mk()[0]
            p0 = cv(dict(env.params))
            out[k] = cjson([p0, full_read(env), cv(dict(env.params))])
        except BaseException as e:
            if not trappable(e):
                raise
            out[k] = "raised " + errname(e)
    return out


XPROC_CODE = (
    "import sys, json, pickle, warnings; warnings.filterwarnings('ignore'); sys.path[:0] = [sys.argv[2], sys.argv[3]];"
    "from props import c04; c04.quiet(); env = pickle.load(open(sys.argv[1], 'rb'));"
    "print('XPROC' + c04.cjson([c04.cint(i) for i in env.read()]))")


def xproc_check(case, tmp, ref, tags):
    """"… after pickling": the pickled (unread) environment is read in fresh interpreters whose string hashing is seeded
    differently (PYTHONHASHSEED 1,2,3), as worker processes of an experiment would; each must read what this process reads"""
    import subprocess
    from core import lean
    raw = []
    try:
        envs, _ = build(case, tmp)
        blob = pickle.dumps(envs[member_of(case)])
    except BaseException as e:
        if not trappable(e):
            raise
        tags.append("xproc-unsupported:" + errname(e))
        return raw
    path = os.path.join(tmp, "xproc.pkl")
    with open(path, "wb") as f:
        f.write(blob)
    want = cjson(ref)
    for hs in ("1", "2", "3"):
        env = dict(os.environ, PYTHONHASHSEED=hs, PYTHONWARNINGS="ignore")
        try:
            p = subprocess.run([sys.executable, "-W", "ignore", "-c", XPROC_CODE, path, os.environ.get("COBA_REPO", "/repo"), os.path.join(lean.VERIF, "harness")],
                               capture_output=True, text=True, timeout=50, env=env)
        except subprocess.TimeoutExpired:
            tags.append("xproc-timeout")
            continue
        line = [l for l in p.stdout.splitlines() if l.startswith("XPROC")]
        if p.returncode != 0 or not line:
            tags.append("xproc-child-raised")
            continue
        if line[0][5:] != want:
            got = json.loads(line[0][5:])
            raw.append(("other-process-differs", diffkind(got, ref), "the pickled environment read in another interpreter (PYTHONHASHSEED=%s) yields %d interactions that "
                        "differ from the %d read in this process (%s)" % (hs, len(got), len(ref), diffkind(got, ref))))
            break
    tags.append("xproc-check")
    return raw


def held_data_check(case, tmp, tags):
    """reading never modifies data held further up: when the chain puts a cache()/materialize()/chunk()/save() before
    other filters, the interactions that holder hands out (read through the public pipeline that ends at the holder) are
    snapshotted deeply, the whole pipeline is read twice, and the snapshot is taken again after each read"""
    chain = case.get("chain", [])
    if not any(st["m"] in ("cache", "materialize", "chunk", "save") or (st["m"] == "filter" and st["f"]["cls"] == "Cache") for st in chain[:-1]):
        return []
    raw = []
    try:
        envs, watch = build(case, tmp)
        holders = watch.get("_holders", [])
        mem = member_of(case)
        env = envs[mem]
        views = [(m, h[mem] if len(h) > mem else h[0]) for m, h in holders]
        snap0 = [full_read(v) for _, v in views]          # also fills the caches, as a first complete read would
        tags.append("held-data-check")
        for n in (1, 2):
            full_read(env)
            for (m, v), s0 in zip(views, snap0):
                if full_read(v) != s0:
                    raw.append(("held-data-modified", m, "after full read #%d of the pipeline the interactions held by its %s() step have changed "
                                "(a downstream filter wrote into them)" % (n, m)))
            if raw:
                break
    except BaseException as e:
        if not trappable(e):
            raise
        tags.append("held-data-check-raised:" + errname(e))
    return raw[:1]


def derive_always_fails(case, i, err, tmp):
    """does step i (a derive step) raise the same error when no read at all precedes it?"""
    hist = [h for h in case["hist"][:i + 1] if h["op"] in DERIVE]
    # pool indices are unchanged: only derive steps create objects
    try:
        outs, _, _ = run_history(dict(case, hist=hist), tmp)
    except BaseException as e:
        if not trappable(e):
            raise
        return False
    return bool(outs) and outs[-1].get("err") == err


def flat(seq):
    out = []
    for x in seq:
        if isinstance(x, dict) and set(x) == {"batch"}:
            out += x["batch"]
        else:
            out.append(x)
    return out


def diffkind(got, ref, prefix=False):
    if any(isinstance(x, dict) and set(x) == {"batch"} for x in list(got) + list(ref)):
        fg, fr = flat(got), flat(ref)
        if (fg == fr[:len(fg)] if prefix else fg == fr):
            return "regrouped"      # the same interactions in the same order, other batch boundaries
    if len(got) == 0 and len(ref) > 0:
        return "empty"
    if len(got) < len(ref):
        return "shorter"
    if len(got) > len(ref):
        return "longer"
    if sorted(cjson(x) for x in got) == sorted(cjson(x) for x in ref):
        return "order"
    return "content"


def pdiff(p, q):
    try:
        a = dict((k, cjson(v)) for k, v in p["d"])
        b = dict((k, cjson(v)) for k, v in q["d"])
        ks = sorted(k for k in set(a) | set(b) if a.get(k) != b.get(k))
        return ",".join(ks)[:60]
    except Exception:
        return "?"


# ----------------------------------------------------------------------------------------------
# (A) the request for the Lean driver: the pipeline's stateful skeleton + the history
LAZY = {"Sparsify", "Densify", "Noise", "Binary", "Cycle", "Params", "Chunk", "Identity", "Mutable", "Harden", "Flatten", "Repr",
        "Grounded", "OpeRewards"}
ELEMENTWISE = {"Sparsify", "Binary", "Params", "Chunk", "Identity", "Mutable", "Harden", "OpeRewards"}
EAGER = {"Sort"}
CALLTIME = {"Riffle"}


class Interner:
    def __init__(self):
        self.ids = {}
        self.toks = {}
        self.tokinfo = []

    def item(self, canon):
        k = cjson(canon)
        if k not in self.ids:
            self.ids[k] = len(self.ids)
        return self.ids[k]

    def items(self, canons):
        return [self.item(c) for c in canons]

    def tok(self, pipe, key, value):
        k = cjson([pipe, key, value])
        if k not in self.toks:
            self.toks[k] = len(self.tokinfo)
            self.tokinfo.append((pipe, key, value))
        return self.toks[k]

    def ptoks(self, pipe, params):
        return [self.tok(pipe, str(k), cv(v)) for k, v in params.items()]

    def resolve(self, toks):
        """what `resolve_params` makes of the per-pipe params the tokens stand for"""
        infos = []
        for t in toks:
            if t >= len(self.tokinfo):
                return None
            infos.append(self.tokinfo[t])
        counts = {}
        for _, k, _ in infos:
            counts[k] = counts.get(k, 0) + 1
        index = {}
        out = {}
        for _, k, v in infos:
            if counts[k] == 1:
                out[k] = v
            else:
                index[k] = index.get(k, 0) + 1
                out["%s%d" % (k, index[k])] = v
        return {"d": sorted(([k, v] for k, v in out.items()), key=lambda p: p[0])}


def elem_map(a, b):
    if len(a) != len(b):
        return None
    m = {}
    for x, y in zip(a, b):
        if m.setdefault(x, y) != y:
            return None
    return [[x, y] for x, y in m.items()]


def enc_val(v):
    """a context value for Model/C09's `Val` (exact rational or code points); None when it has no such form"""
    if isinstance(v, bool):
        return None
    if isinstance(v, int):
        return {"n": [v, 1]}
    if isinstance(v, float):
        if v != v or v in (float("inf"), float("-inf")):
            return None
        n, d = v.as_integer_ratio()
        return {"n": [n, d]}
    if isinstance(v, str):
        return {"s": [ord(c) for c in str(v)]}
    return None


def enc_ctx(c):
    """-> (json for Model/C09's `Ctx`, ok)"""
    from coba import primitives
    if c is None:
        return None, True
    if isinstance(c, (int, float)) and not isinstance(c, bool):
        v = enc_val(c)
        return v, v is not None
    if isinstance(c, str):
        return None, False                 # a string context: len() counts characters, not modelled here
    if isinstance(c, primitives.Sparse) or isinstance(c, dict):
        kv = [[enc_val(k), enc_val(v)] for k, v in c.items()]
        return {"sp": kv}, all(a is not None and b is not None for a, b in kv)
    if isinstance(c, primitives.Dense):
        vs = [enc_val(v) for v in c]
        return {"d": vs}, all(v is not None for v in vs)
    return None, False


def enc_seed(x):
    if isinstance(x, bool) or x is None:
        return None
    if isinstance(x, int):
        return {"int": x}
    if isinstance(x, float):
        if x.is_integer():
            return {"int": int(x)}
        return {"bytes": list(str(x).encode("utf-8"))}
    return {"bytes": list(str(x).encode("utf-8"))}


def enc_range(v):
    if v is None:
        return [None, None]
    if isinstance(v, (list, tuple)):
        return [v[0], v[1]]
    return [v, v]


def attrs_of(objs, ids, attrs):
    """the fields the selecting / ordering filters look at, for every interned interaction; False when a field has no model form"""
    from coba.primitives import is_batch
    ok = True
    for it, i in zip(objs, ids):
        if i in attrs:
            ok = ok and attrs[i].get("_ok", True)
            continue
        if any(is_batch(v) for v in it.values()):
            attrs[i] = {"id": i, "logged": bool("action" in it and "reward" in it), "hasCtx": "context" in it, "ctx": None, "nact": 0, "_ok": False}
            ok = False
            continue
        cj, cok = enc_ctx(it.get("context")) if "context" in it else (None, True)
        acts = it.get("actions")
        a = {"id": i, "logged": bool("action" in it and "reward" in it), "hasCtx": "context" in it, "ctx": cj,
             "nact": len(acts) if isinstance(acts, (list, tuple)) else 0, "_ok": bool(cok)}
        attrs[i] = a
        ok = ok and cok
    return ok


def real_filter_node(f, name, cur, ids, attrs, par):
    """the filter as a REAL function of the model (Model/C09 through `Filt`), or None when it has to stay a table"""
    p = f.params
    if name == "Take":
        cnt = p.get("take")
        return {"k": "filt", "op": "take", "count": cnt, "strict": bool(getattr(f, "_strict", False)), "par": par}
    if name == "Slice":
        return {"k": "filt", "op": "slice", "start": p.get("slice_start"), "stop": p.get("slice_stop"), "step": p.get("slice_step", 1), "par": par}
    if name == "Shuffle":
        sd = p.get("shuffle_seed")
        if sd is None:
            return None
        attrs_of(cur, ids, attrs)
        return {"k": "filt", "op": "shuffle", "seed": enc_seed(sd), "lseed": enc_seed(sd * 3.21), "par": par}
    if name == "Riffle":
        sd = enc_seed(p.get("riffle_seed"))
        if sd is None:
            return None
        return {"k": "filt", "op": "riffle", "spacing": p.get("riffle_spacing"), "seed": sd, "par": par}
    if name == "Reservoir":
        sd = enc_seed(p.get("reservoir_seed"))
        if sd is None:
            return None
        return {"k": "filt", "op": "reservoir", "count": p.get("reservoir_count"), "strict": bool(getattr(f, "_strict", False)), "seed": sd, "par": par}
    if name == "Sort":
        keys = p.get("sort_keys")
        keys = [] if keys == "*" else list(keys)
        kv = [enc_val(k) for k in keys]
        if any(k is None for k in kv) or not attrs_of(cur, ids, attrs):
            return None
        return {"k": "filt", "op": "sort", "keys": kv, "par": par}
    if name == "Where":
        if not attrs_of(cur, ids, attrs):
            return None
        return {"k": "filt", "op": "where", "nint": enc_range(p.get("where_n_interactions")), "nact": enc_range(p.get("where_n_actions")),
                "nfet": enc_range(p.get("where_n_features")), "par": par}
    return None


REAL_FILTERS = {"Take", "Slice", "Shuffle", "Riffle", "Reservoir", "Sort", "Where"}
CONTENT_FILTERS = {"Repr", "Flatten", "Sparsify", "Densify"}


def _has_other(j):
    if isinstance(j, dict):
        return "other" in j or any(_has_other(v) for v in j.values())
    if isinstance(j, list):
        return any(_has_other(v) for v in j)
    return False


def c10_inter(it):
    """a real interaction as the CONTENT `Model/C10` works on (JSON of C10's `Inter`, its codec reused read-only);
    None when the interaction has a part that type cannot carry"""
    from props import c10
    from coba.primitives import is_batch
    if any(is_batch(v) for v in it.values()) or any(k not in ("context", "actions", "rewards", "feedbacks", "action", "reward", "probability") for k in it):
        return None
    d = {}
    if "context" in it:
        d["context"] = c10.enc_ordered(it["context"])
    acts = it.get("actions")
    if "actions" in it:
        if not isinstance(acts, (list, tuple)):
            return None
        d["actions"] = [c10.enc_ordered(a) for a in acts]
    if "action" in it:
        d["action"] = c10.enc_ordered(it["action"])
    for key in ("reward", "probability"):
        if key in it:
            if isinstance(it[key], bool) or not isinstance(it[key], (int, float)):
                return None
            d[key] = c10.q(it[key])
    for key in ("rewards", "feedbacks"):
        if key in it:
            R = it[key]
            if callable(R):
                if not acts:
                    return None
                tbl = []
                for a in acts:
                    v = R(a)
                    if isinstance(v, bool) or not isinstance(v, (int, float)) or v != v or v in (float("inf"), float("-inf")):
                        return None
                    tbl.append([c10.enc_ordered(a), c10.q(v)])
                d[key] = {"k": "fn", "table": tbl}
            elif isinstance(R, (list, tuple)) and all(isinstance(v, (int, float)) and not isinstance(v, bool) for v in R):
                d[key] = {"k": "list" if isinstance(R, list) else "tuple", "v": [c10.q(v) for v in R]}
            else:
                return None
    return None if _has_other(d) else d


def content_node(f, name, cur, ids, out, oids, par):
    """the filter as `Model/C10`'s function on interaction content, or None when it has to stay a table"""
    import zlib
    from props import c10
    p = f.params
    if name == "Repr":
        step = {"f": "repr", "cc": p.get("categoricals_in_context"), "ca": p.get("categoricals_in_actions")}
    elif name == "Flatten":
        step = {"f": "flatten"}
    elif name == "Sparsify":
        step = {"f": "sparsify", "c": bool(p.get("sparse_c")), "a": bool(p.get("sparse_a"))}
    elif name == "Densify":
        step = {"f": "densify", "n": int(p.get("dense_n")), "m": p.get("dense_m"), "c": bool(p.get("dense_c")), "a": bool(p.get("dense_a"))}
    else:
        return None
    ins, outs, seen = [], [], set()
    for it, i in zip(cur, ids):
        if i in seen:
            continue
        seen.add(i)
        c = c10_inter(it)
        if c is None:
            return None
        ins.append([i, c])
    seen = set()
    for it, i in zip(out, oids):
        if i in seen:
            continue
        seen.add(i)
        c = c10_inter(it)
        if c is None:
            return None
        outs.append([i, c])
    if name == "Densify":
        keys = set()

        def walk(v):
            if isinstance(v, dict) and "d" in v:
                for k, _ in v["d"]:
                    keys.add(k)
        for _, c in ins:
            walk(c.get("context"))
            for a in c.get("actions", []) or []:
                walk(a)
            walk(c.get("action"))
        if step["m"] == "lookup":
            if len(keys) > step["n"]:
                return None          # more keys than features: the index generator starts a second shuffle (left to the table)
            step["prior"] = []
        else:
            try:
                step["hash"] = [[k, zlib.crc32(k.encode("ascii")) % step["n"]] for k in sorted(keys)]
            except Exception:
                return None
    return {"k": "content", "step": step, "cfg": c10.detect_cfg(), "in": ins, "out": outs, "par": par}



def describe_member(case, env, msrc, I, attrs, fin_table, fin_elem, srcpost=None):
    """stage one member's pipeline through its public pipes -> (object for the model, staged final ids, asis_ok, real-filter count)"""
    import coba.pipes as cp
    import coba.environments.filters as ef
    pipes = list(env)
    source = pipes[0]
    pre = dict(source.params)
    cur = list(source.read())
    post = srcpost if srcpost is not None else dict(source.params)    # source params after a full read of the PIPELINE
    ids = I.items([cint(x) for x in cur])
    once_asis = msrc["kind"] == "sup_xy" and not any(st["m"] == "save" for st in case.get("chain", []))
    src = {"once": False, "once_asis": once_asis, "items": ids, "parPre": I.ptoks(0, pre), "parPost": I.ptoks(0, post)}
    nodes = []
    asis_ok = True          # every stage behind an as-is stateful stage has a declared laziness
    seen_stateful = once_asis
    has_protected_later = [any(isinstance(q, cp.Cache) and q.protected for q in pipes[i + 1:]) for i in range(len(pipes))]
    nfin = 0
    nreal = 0
    ncontent = [0]
    for i, f in enumerate(pipes[1:], 1):
        name = type(f).__name__
        if isinstance(f, cp.Cache):
            nodes.append({"k": "cache", "sz": getattr(f, "_n_slice", 25), "prot": bool(f.protected), "st": "done" if f.protected else "unread"})
            continue
        if isinstance(f, ef.BatchSafe) and isinstance(getattr(f, "_filter", None), ef.Finalize):
            out = list(f.filter(cur))
            oids = I.items([cint(x) for x in out])
            fin_table.append([ids, oids])
            fin_elem.setdefault("_content", []).append((cur, ids, out, oids))
            em = elem_map(ids, oids)
            if em:
                for a, b in em:
                    fin_elem.setdefault(a, b)
            nodes.append({"k": "finalize", "read": has_protected_later[i]})
            nfin += 1
            cur, ids = out, oids
            continue
        par = I.ptoks(i, dict(f.params))
        node = None
        if name in REAL_FILTERS and isinstance(f, getattr(ef, name, ())):
            try:
                node = real_filter_node(f, name, cur, ids, attrs, par)
            except Exception:
                node = None
        out = list(f.filter(cur))
        oids = I.items([cint(x) for x in out])
        if node is not None:
            nreal += 1
            node["cls"] = name
            nodes.append(node)
            cur, ids = out, oids
            continue
        dem = "lazy" if name in LAZY else "eager" if name in EAGER else "calltime" if name in CALLTIME else "opaque"
        if dem == "opaque" and seen_stateful:
            asis_ok = False
        cnode = None
        if name in CONTENT_FILTERS and isinstance(f, getattr(ef, name, ())):
            try:
                cnode = content_node(f, name, cur, ids, out, oids, par)
            except Exception:
                cnode = None
        if cnode is not None:
            cnode["cls"] = name
            nodes.append(cnode)
            ncontent[0] += 1
            cur, ids = out, oids
            continue
        em = elem_map(ids, oids) if name in ELEMENTWISE else None
        if em is not None:
            node = {"k": "filt", "op": "map", "elem": em, "par": par, "cls": name}      # a function of the interaction
        else:
            node = {"k": "pure", "table": [[ids, oids]], "dem": dem if dem != "opaque" else "lazy", "n": 0, "par": par, "cls": name}
        nodes.append(node)
        cur, ids = out, oids
    # Finalize applied to its own output (objects written by save() are finalized again when they are loaded)
    try:
        a_objs, a_ids = cur, ids
        for _ in range(3):
            again = list(ef.BatchSafe(ef.Finalize()).filter(a_objs))
            aids = I.items([cint(x) for x in again])
            fin_table.append([a_ids, aids])
            fin_elem.setdefault("_content", []).append((a_objs, a_ids, again, aids))
            if aids == a_ids:
                break
            a_objs, a_ids = again, aids
    except Exception:
        pass
    chain = case.get("chain", [])
    own = nfin == 1 and isinstance(pipes[-1], ef.BatchSafe) and not any(
        st["m"] in ("materialize", "save") or (st["m"] == "filter" and st["f"]["cls"] == "BatchSafe" and st["f"].get("inner", {}).get("cls") == "Finalize") for st in chain)
    return {"src": src, "nodes": nodes, "ownFin": bool(own), "_ncontent": ncontent[0]}, ids, asis_ok, nreal


def describe(case, tmp, nd, srcpost=None):
    """run a fresh pipeline (every member of a fresh collection) stage by stage through its public pipes and describe it
    for the model. -> (request-without-variant, interner, staged final ids of the main member, asis_ok, info)"""
    envs, watch = build(case, tmp)
    mem = member_of(case)
    I = Interner()
    attrs, fin_table, fin_elem = {}, [], {}
    objs, finals, nreal = [], [], 0
    asis_ok = True
    members = range(len(envs)) if is_multi(case) else [mem]
    srcs = [case["src"]] + ([case["src"]] if case["src"].get("twin") else []) + list(case.get("sibs") or [])
    for k in members:
        o, ids, ok, nr = describe_member(case, envs[k], srcs[k] if k < len(srcs) else case["src"], I, attrs, fin_table, fin_elem,
                                         srcpost if k == mem else None)
        objs.append(o)
        finals.append(ids)
        nreal += nr
        if k == mem:
            asis_ok = ok
    alist = []
    for a in attrs.values():
        if "logged" not in a:
            continue
        b = {k: v for k, v in a.items() if k != "_ok"}
        if not a.get("_ok", True):
            b["ctx"] = None          # no model form: filters that look at the context stay tables for such inputs
        alist.append(b)
    before = snapshot(watch)
    keys = sorted(before)
    caller = [[I.tok("caller", k, before[k])] for k in keys]
    fin_content = fin_elem.pop("_content", [])
    req = {"fin": {"table": fin_table, "elem": [[a, b] for a, b in fin_elem.items()], "dem": "lazy"}, "attrs": alist, "objs": objs, "caller": caller}
    # Finalize as Model/C10's function on content, when every interaction it sees has a content form
    try:
        from props import c10
        ins, outs, si, so, ok = [], [], set(), set(), bool(fin_content)
        for cur, ids, out, oids in fin_content:
            for it, i in zip(cur, ids):
                if i not in si:
                    si.add(i)
                    c = c10_inter(it)
                    ok = ok and c is not None
                    ins.append([i, c])
            for it, i in zip(out, oids):
                if i not in so:
                    so.add(i)
                    c = c10_inter(it)
                    ok = ok and c is not None
                    outs.append([i, c])
            if not ok:
                break
        if ok:
            req["fin"]["content"] = {"step": {"f": "finalize"}, "cfg": c10.detect_cfg(), "in": ins, "out": outs, "par": []}
    except Exception:
        pass
    main = finals[list(members).index(mem)]
    ncontent = sum(o.pop("_ncontent", 0) for o in objs)
    return req, I, main, asis_ok, {"nreal": nreal, "ncontent": ncontent, "fin_content": "content" in req["fin"], "members": len(objs), "caller_keys": keys}


def model_ops(case, nmembers):
    """the history as operations of the model.  A pool object of the harness is a collection of `nmembers` model objects
    (object j, member k -> index j*nmembers+k); a shortcut applied to the collection is applied to every member.
    -> (ops, for every history step the index of the model output that answers it, or a list of indices for derive steps)"""
    mem = member_of(case) if nmembers > 1 else 0
    ops, where = [], []
    for h in case["hist"]:
        j = h["on"] if h.get("on", -1) >= 0 else 0
        op = h["op"]
        if op == "sib":
            where.append(len(ops))
            ops.append({"op": "full", "on": j * nmembers + (h["i"] if nmembers > 1 else 0)})
        elif op in DERIVE:
            where.append(list(range(len(ops), len(ops) + nmembers)))
            for k in range(nmembers):
                ops.append({"op": op, "on": j * nmembers + k})
        else:
            m = {"op": op, "on": j * nmembers + mem}
            if op == "partial":
                m["k"] = h["k"]
            where.append(len(ops))
            ops.append(m)
    return ops, where


def asis_request(req, case):
    """the same pipeline with the stateful stages as the unrepaired code has them"""
    r = json.loads(json.dumps(req))
    r["variant"] = "asis"
    for o in r["objs"]:
        o["src"]["once"] = bool(o["src"].get("once_asis"))
        for n in o["nodes"]:
            if n["k"] == "shuffle":
                n["v"] = "asis"
    return r


def compare_model(case, outs, model, where, I):
    """-> list of (step, what) where the implementation and the model disagree"""
    diffs = []
    for i, (h, o) in enumerate(zip(case["hist"], outs)):
        op = h["op"]
        w = where[i]
        ms = [model[x] for x in w] if isinstance(w, list) else [model[w]]
        m = ms[0]
        if "skip" in o:
            if op != "sib" and m != "skip":
                diffs.append((i, "%s: implementation had no such object, model %s" % (op, json.dumps(m)[:80])))
            continue
        if "err" in o:
            if not any(x == "err" for x in ms):
                diffs.append((i, "%s raised %s in the implementation, model %s" % (op, o["err"], json.dumps(m)[:80])))
            continue
        if op in ("full", "partial", "sib"):
            got = I.items(o["full"] if op == "full" else o["partial"] if op == "partial" else o["sib"])
            if not isinstance(m, dict) or m.get("items") != got:
                diffs.append((i, "%s read: implementation %s, model %s" % (op, got[:12], json.dumps(m)[:80])))
        elif op == "params":
            if not o["after_read"]:
                continue
            exp = I.resolve(m["params"]) if isinstance(m, dict) and "params" in m else None
            if exp != o["params"]:
                diffs.append((i, "params: implementation %s, model %s" % (cjson(o["params"])[:120], cjson(exp)[:120])))
        else:
            if any(x != "derived" for x in ms):
                diffs.append((i, "%s succeeded in the implementation, model %s" % (op, json.dumps(ms)[:80])))
    return diffs



# ----------------------------------------------------------------------------------------------
# Phase 4: pipelines with fitting-window filters (Scale / Impute) PREDICTED on content by Model/C11 through Model/C04's
# `fitDen` / `demTake`, and the aliasing model tied to Python object identities
def fit_enc(v):
    """feature value -> C11 JSON (exact rational of the float)"""
    if v is None:
        return None
    if isinstance(v, str):
        return {"s": v}
    n, d = float(v).as_integer_ratio()
    return [n, d]


def fit_close(real, model):
    if model is None or real is None:
        return model is None and real is None
    if isinstance(model, dict):
        return isinstance(real, str) and real == model.get("s")
    if isinstance(real, (str, bool)) or not isinstance(real, (int, float)):
        return False
    m = model[0] / model[1]
    return abs(float(real) - m) <= 1e-9 * max(1.0, abs(m))


def fit_stage_req(st):
    if st["m"] == "noise":          # {"m": "noise", "a": [lo, hi, seed]} = noise(context=('i', lo, hi), seed=seed)
        return {"k": "noise", "lo": st["a"][0], "hi": st["a"][1], "seed": st["a"][2]}
    if st["m"] == "scale":
        shift, scale, _target, using = (st["a"] + [None] * 4)[:4]
        return {"k": "scale", "shift": shift if isinstance(shift, str) else fit_enc(shift), "scale": scale if isinstance(scale, str) else fit_enc(scale),
                "using": using, "target": "context"}
    stat, ind, using = (st["a"] + [None] * 3)[:3]
    return {"k": "impute", "stat": stat, "ind": bool(ind), "using": using}


def fit_build(fc, upto=None):
    """-> (Environments, caller-owned context list).  from_lambda hands out the caller's own context objects"""
    from coba.environments import Environments
    ctxs = [dv(c) for c in fc["ctxs"]]

    def context(i):
        return ctxs[i]

    def actions(i, c):
        return [1, 2, 3]

    def reward(i, c, a):
        return (a + i) % 3 / 2
    envs = Environments.from_lambda(len(ctxs), context, actions, reward)
    FIT_HOLDER[0] = None
    for st in fc["chain"][:upto]:
        if st["m"] in ("cache", "materialize"):
            envs = getattr(envs, st["m"])()
            FIT_HOLDER[0] = envs         # the pipeline that ends at the holder (shares the holder's pipe object with what follows)
        elif st["m"] == "params":
            envs = envs.params({"p": 1})
        elif st["m"] == "noise":
            envs = envs.noise(context=("i", st["a"][0], st["a"][1]), seed=st["a"][2])
        else:
            envs = getattr(envs, st["m"])(*[dv(a) for a in st["a"]])
    return envs, ctxs


FIT_HOLDER = [None]


def fit_ctx(it):
    c = it["context"]
    return list(c) if isinstance(c, (list, tuple)) else c


# ----------------------------------------------------------------------------------------------
# translator (pre_build): what the model's stage table assumes, read with `ast` from the CURRENT source
C04_MUTATORS = {"append", "extend", "pop", "clear", "update", "setdefault", "add", "remove", "insert", "popitem", "sort", "reverse", "shuffle",
                "discard", "appendleft", "popleft", "__setitem__", "send", "close"}
C04_HOLDERS = {"CobaRandom", "Random", "iter", "zip", "map", "filter", "defaultdict", "count", "cycle", "enumerate", "islice", "chain"}
C04_SKIP_METHODS = {"__init__", "__setstate__", "__new__", "__getstate__", "__reduce__"}


def _c04_selfattr(n):
    import ast
    return n.attr if isinstance(n, ast.Attribute) and isinstance(n.value, ast.Name) and n.value.id == "self" else None


def _c04_walk_own(node):
    """the nodes of a method body; nested classes and nested functions with their own `self` are other objects' code"""
    import ast
    stack = list(ast.iter_child_nodes(node))
    while stack:
        n = stack.pop()
        if isinstance(n, ast.ClassDef):
            continue
        if isinstance(n, (ast.FunctionDef, ast.Lambda)) and any(a.arg == "self" for a in n.args.args):
            continue
        yield n
        stack.extend(ast.iter_child_nodes(n))


def c04_state_table(tree):
    """-> (all class names in source order, [(class, attributes written outside __init__)], [(class, attribute, constructor kept from __init__)])
    'written' = assigned / augmented / deleted / item-assigned, mutated through a list/dict/set/generator method, advanced with next(),
    or subscripted when __init__ made it a defaultdict (a look-up that inserts)"""
    import ast
    names, written_tab, held_tab = [], [], []
    for c in tree.body:
        if not isinstance(c, ast.ClassDef):
            continue
        names.append(c.name)
        held, dd, written = [], set(), set()
        for m in c.body:
            if not isinstance(m, ast.FunctionDef):
                continue
            if m.name == "__init__":
                for n in _c04_walk_own(m):
                    if isinstance(n, ast.Assign) and isinstance(n.value, ast.Call):
                        f = n.value.func
                        fn = f.id if isinstance(f, ast.Name) else f.attr if isinstance(f, ast.Attribute) else None
                        for x in n.targets:
                            a = _c04_selfattr(x)
                            if a and fn in C04_HOLDERS:
                                held.append((a, fn))
                                if fn == "defaultdict":
                                    dd.add(a)
                continue
            if m.name in C04_SKIP_METHODS:
                continue
            for n in _c04_walk_own(m):
                tg = []
                if isinstance(n, ast.Assign):
                    tg = n.targets
                elif isinstance(n, (ast.AugAssign, ast.AnnAssign, ast.NamedExpr)):
                    tg = [n.target]
                elif isinstance(n, ast.Delete):
                    tg = n.targets
                for x in tg:
                    for y in (list(x.elts) if isinstance(x, (ast.Tuple, ast.List)) else [x]):
                        if _c04_selfattr(y):
                            written.add(_c04_selfattr(y))
                        if isinstance(y, ast.Subscript) and _c04_selfattr(y.value):
                            written.add(_c04_selfattr(y.value))
                if isinstance(n, ast.Call) and isinstance(n.func, ast.Attribute) and n.func.attr in C04_MUTATORS and _c04_selfattr(n.func.value):
                    written.add(_c04_selfattr(n.func.value))
                if isinstance(n, ast.Call) and isinstance(n.func, ast.Name) and n.func.id == "next" and n.args and _c04_selfattr(n.args[0]):
                    written.add(_c04_selfattr(n.args[0]))
                if isinstance(n, ast.Subscript) and _c04_selfattr(n.value) in dd:
                    written.add(_c04_selfattr(n.value))
        if written:
            written_tab.append((c.name, sorted(written)))
        for a, fn in sorted(held):
            held_tab.append((c.name, a, fn))
    return names, written_tab, held_tab


def _c04_find_class(tree, name):
    import ast
    for c in tree.body:
        if isinstance(c, ast.ClassDef) and c.name == name:
            return c
    return None


def _c04_find_method(cls, name):
    import ast
    for m in (cls.body if cls is not None else []):
        if isinstance(m, ast.FunctionDef) and m.name == name:
            return m
    return None


def _c04_callname(call):
    import ast
    f = call.func
    return f.id if isinstance(f, ast.Name) else f.attr if isinstance(f, ast.Attribute) else None


def _c04_const(node):
    import ast
    return node.value if isinstance(node, ast.Constant) else "?"


def _c04_cache_args(call, d_slice, d_prot):
    """(n_slice, protected) of a `Cache(...)` call, defaults of Cache.__init__ filled in"""
    vals = {"n_slice": d_slice, "protected": d_prot}
    for k, a in zip(("n_slice", "protected"), call.args):
        vals[k] = _c04_const(a)
    for kw in call.keywords:
        if kw.arg in vals:
            vals[kw.arg] = _c04_const(kw.value)
    return vals["n_slice"], vals["protected"]


def _c04_bool_expr(node, var):
    """the `nocache` predicate as a Lean Bool expression over `isCache` and `prot`; None when it has another shape"""
    import ast
    if isinstance(node, ast.BoolOp):
        parts = [_c04_bool_expr(v, var) for v in node.values]
        if any(p is None for p in parts):
            return None
        return "(" + (" || " if isinstance(node.op, ast.Or) else " && ").join(parts) + ")"
    if isinstance(node, ast.UnaryOp) and isinstance(node.op, ast.Not):
        p = _c04_bool_expr(node.operand, var)
        return None if p is None else "(!" + p + ")"
    if isinstance(node, ast.Call) and _c04_callname(node) == "isinstance" and len(node.args) == 2 and isinstance(node.args[0], ast.Name) \
            and node.args[0].id == var and ast.unparse(node.args[1]) in ("pipes.Cache", "Cache"):
        return "isCache"
    if isinstance(node, ast.Attribute) and isinstance(node.value, ast.Name) and node.value.id == var and node.attr == "protected":
        return "prot"
    if isinstance(node, ast.Constant) and isinstance(node.value, bool):
        return "true" if node.value else "false"
    return None


# ----------------------------------------------------------------------------------------------
# Phase 6 translator piece: what runs when a read is ABANDONED (the generator is closed while suspended at a `yield`)
C04_ABANDON_FILES = ["coba/primitives.py", "coba/environments/core.py", "coba/environments/filters.py", "coba/environments/supervised.py",
                     "coba/environments/synthetics.py", "coba/environments/serialized.py", "coba/pipes/filters.py", "coba/pipes/sources.py"]


def _c04_own(nodes):
    """the nodes below `nodes` that belong to the same function body (nested functions / classes / lambdas are other frames)"""
    import ast
    stack = list(nodes)
    while stack:
        n = stack.pop()
        yield n
        for c in ast.iter_child_nodes(n):
            if not isinstance(c, (ast.FunctionDef, ast.AsyncFunctionDef, ast.ClassDef, ast.Lambda)):
                stack.append(c)


def _c04_yields(nodes):
    import ast
    return any(isinstance(n, (ast.Yield, ast.YieldFrom)) for n in _c04_own(nodes))


def c04_abandon_scan(tree):
    """-> (rows, lines): rows = [(qualname, kind 'try'|'with', names, has_finally)] for every `try` / `with` statement of a generator
    function whose protected region contains a `yield` (source order); lines = {lineno: (qualname, 'header'|'with'|'body')} for
    the handler header lines, the `with` lines and the lines inside handler / finally bodies of those statements"""
    import ast
    rows, lines = [], {}

    def hnames(h):
        if h.type is None:
            return ["<bare>"]
        if isinstance(h.type, ast.Tuple):
            return [ast.unparse(e) for e in h.type.elts]
        return [ast.unparse(h.type)]

    def visit(node, qual):
        for c in ast.iter_child_nodes(node):
            if isinstance(c, ast.ClassDef):
                visit(c, qual + [c.name])
            elif isinstance(c, (ast.FunctionDef, ast.AsyncFunctionDef)):
                q = ".".join(qual + [c.name])
                found = []
                for n in _c04_own(c.body):
                    if isinstance(n, ast.Try) and (_c04_yields(n.body) or _c04_yields(n.orelse) or any(_c04_yields(h.body) for h in n.handlers)):
                        found.append((n.lineno, (q, "try", sorted(sum([hnames(h) for h in n.handlers], [])), bool(n.finalbody))))
                        for h in n.handlers:
                            lines[h.lineno] = (q, "header")
                            for b in _c04_own(h.body):
                                if hasattr(b, "lineno"):
                                    lines[b.lineno] = (q, "body")
                        for b in _c04_own(n.finalbody):
                            if hasattr(b, "lineno"):
                                lines[b.lineno] = (q, "body")
                    elif isinstance(n, (ast.With, ast.AsyncWith)) and _c04_yields(n.body):
                        found.append((n.lineno, (q, "with", [ast.unparse(i.context_expr) for i in n.items], False)))
                        lines.setdefault(n.lineno, (q, "with"))
                rows.extend(r for _, r in sorted(found, key=lambda t: t[0]))
                visit(c, qual + [c.name])
    visit(tree, [])
    return rows, lines


def c04_abandon_table(repo):
    """[(file, qualname, kind, names, finally)] over the anchored files, in file / source order"""
    import ast
    out = []
    for rel in C04_ABANDON_FILES:
        with open(os.path.join(repo, *rel.split("/")), encoding="utf-8") as f:
            rows, _ = c04_abandon_scan(ast.parse(f.read()))
        out += [(rel,) + r for r in rows]
    return out


C04_ABANDON_LINES = {}


def c04_abandon_lines():
    """{absolute file name: {lineno: (qualname, kind)}} of the anchored files of the repo under test (parsed once per process)"""
    import ast
    if not C04_ABANDON_LINES:
        repo = os.path.realpath(os.environ.get("COBA_REPO", "/repo"))
        for rel in C04_ABANDON_FILES:
            path = os.path.join(repo, *rel.split("/"))
            try:
                with open(path, encoding="utf-8") as f:
                    _, lines = c04_abandon_scan(ast.parse(f.read()))
            except Exception:
                lines = {}
            C04_ABANDON_LINES[os.path.realpath(path)] = (rel, lines)
    return C04_ABANDON_LINES


def abandon_observe(env, k):
    """open a read, take k items, then DROP the iterator with a line tracer installed: -> sorted [(file, function, kind)] of the source
    lines of the anchored coba files that ran while the generators of the pipeline were being closed (kind: 'header' = an
    `except …:` line that was tested, 'with' = the `with` line whose manager is left, 'body' = a line inside a handler / finally
    body, 'other' = any other line), and how many items were taken"""
    import sys
    table = c04_abandon_lines()
    seen = set()

    def local(frame, event, arg):
        if event == "line":
            rel, lines = table[frame.f_code.co_filename] if frame.f_code.co_filename in table else table[os.path.realpath(frame.f_code.co_filename)]
            q, kind = lines.get(frame.f_lineno, (getattr(frame.f_code, "co_qualname", frame.f_code.co_name), "other"))
            seen.add((rel, q, kind))
        return local

    def tracer(frame, event, arg):
        fn = frame.f_code.co_filename
        if fn in table or (fn.endswith(".py") and os.path.realpath(fn) in table):
            return local
        return None
    it = iter(env.read())
    got = 0
    for _ in range(k):
        try:
            next(it)
            got += 1
        except StopIteration:
            break
    old = sys.gettrace()
    sys.settrace(tracer)
    try:
        del it
        gc.collect()
    finally:
        sys.settrace(old)
    return sorted(seen), got


def c04_translate(repo):
    """-> (dict of extracted values, list of names that could not be extracted)"""
    import ast
    from fractions import Fraction
    V, miss = {}, []

    def parse(rel):
        with open(os.path.join(repo, *rel.split("/")), encoding="utf-8") as f:
            return ast.parse(f.read())

    def guard(name, fn, default):
        try:
            v = fn()
            if v is None or v == "?" or (isinstance(v, tuple) and "?" in v):
                raise ValueError(name)
            V[name] = v
        except Exception:
            V[name] = default
            miss.append(name)

    try:
        ef, pf, core = parse("coba/environments/filters.py"), parse("coba/pipes/filters.py"), parse("coba/environments/core.py")
        srcs = [parse("coba/environments/supervised.py"), parse("coba/environments/synthetics.py"), parse("coba/environments/serialized.py")]
    except Exception:
        return None, ["source files unreadable"]
    V["envClasses"], V["envStateful"], V["envHeld"] = c04_state_table(ef)
    V["pipeClasses"], V["pipeStateful"], V["pipeHeld"] = c04_state_table(pf)
    V["srcStateful"], V["srcHeld"] = [], []
    for t in srcs:
        _, w, h = c04_state_table(t)
        V["srcStateful"] += w
        V["srcHeld"] += h
    pcache = _c04_find_class(pf, "Cache")
    pinit = _c04_find_method(pcache, "__init__")

    def cache_defaults():
        args = pinit.args
        names = [a.arg for a in args.args][1:]
        defs = [_c04_const(d) for d in args.defaults]
        d = dict(zip(names[len(names) - len(defs):], defs))
        return (d["n_slice"], d["protected"])
    guard("cacheDefaults", cache_defaults, (25, False))

    def cache_init():
        got = {}
        for n in ast.walk(pinit):
            if isinstance(n, ast.Assign) and _c04_selfattr(n.targets[0]) in ("_cache", "_iter"):
                got[_c04_selfattr(n.targets[0])] = isinstance(n.value, ast.Constant) and n.value.value is None
        return got["_cache"] and got["_iter"]
    guard("cacheStartsUnread", cache_init, True)
    envs = _c04_find_class(core, "Environments")
    d_slice, d_prot = V["cacheDefaults"]

    def calls_in(method, name):
        return [n for n in ast.walk(_c04_find_method(envs, method)) if isinstance(n, ast.Call) and _c04_callname(n) == name]
    guard("shortcutCache", lambda: _c04_cache_args(calls_in("cache", "Cache")[0], d_slice, d_prot), (25, False))
    guard("materializeCache", lambda: _c04_cache_args(calls_in("materialize", "Cache")[0], d_slice, d_prot), (None, True))

    def nocache():
        for n in ast.walk(_c04_find_method(envs, "materialize")):
            if isinstance(n, ast.Assign) and isinstance(n.targets[0], ast.Name) and n.targets[0].id == "nocache" and isinstance(n.value, ast.Lambda):
                return _c04_bool_expr(n.value.body, n.value.args.args[0].arg)
    guard("nocache", nocache, "((!isCache) || prot)")

    def mat_skip():
        for n in ast.walk(_c04_find_method(envs, "materialize")):
            if isinstance(n, ast.If):
                return ast.unparse(n.test).replace(" ", "") == "notisinstance(env[-1],pipes.Cache)" and not n.orelse
    guard("materializeOnlyWhenLastNotCache", mat_skip, True)
    guard("materializeForcesRead", lambda: any(ast.unparse(n).replace(" ", "") == "list(env.read())" for n in ast.walk(_c04_find_method(envs, "materialize"))), True)
    guard("materializeFinalizesFirst", lambda: any(ast.unparse(n).replace(" ", "") == "map(self._finalize,self._envs)"
                                                   for n in ast.walk(_c04_find_method(envs, "materialize"))), True)

    def fin_wrap():
        m = _c04_find_method(envs, "_finalize")
        ret = [n for n in ast.walk(m) if isinstance(n, ast.Return)][0].value
        j = ret.orelse
        assert isinstance(ret, ast.IfExp) and ast.unparse(ret.body) == "env" and _c04_callname(j) == "join" and ast.unparse(j.args[0]) == "env"
        out, a = [], j.args[1]
        while isinstance(a, ast.Call):
            out.append(_c04_callname(a))
            a = a.args[0] if a.args else None
        return out
    guard("finalizeWrap", fin_wrap, ["BatchSafe", "Finalize"])

    def fin_test():
        m = _c04_find_method(envs, "_finalize")
        lam = [n for n in ast.walk(m) if isinstance(n, ast.Lambda)][0]
        assert isinstance(lam.body, ast.BoolOp) and isinstance(lam.body.op, ast.And)
        ret = [n for n in ast.walk(m) if isinstance(n, ast.Return)][0].value
        assert ast.unparse(ret.test).replace(" ", "") == "any(map(is_finalize,env))"
        return [(ast.unparse(v.args[0]).replace(lam.args.args[0].arg, "e", 1), ast.unparse(v.args[1])) for v in lam.body.values]
    guard("finalizeTest", fin_test, [("e", "BatchSafe"), ("e._filter", "Finalize")])

    def chunk_info():
        m = _c04_find_method(envs, "chunk")
        dflt = _c04_const(m.args.defaults[0])
        ret = [n for n in ast.walk(m) if isinstance(n, ast.Return)][0].value
        assert ast.unparse(ret).replace(" ", "") == "envs.cache()ifcacheelseenvs"
        joined = [_c04_callname(n.args[1]) for n in ast.walk(m) if isinstance(n, ast.Call) and _c04_callname(n) == "join"]
        return (dflt, joined[0])
    guard("chunk", chunk_info, (True, "Chunk"))

    def chunk_identity():
        m = _c04_find_method(_c04_find_class(ef, "Chunk"), "filter")
        body = [s for s in m.body if not (isinstance(s, ast.Expr) and isinstance(s.value, ast.Constant))]
        return len(body) == 1 and isinstance(body[0], ast.Return) and ast.unparse(body[0].value) == m.args.args[1].arg
    guard("chunkIsIdentity", chunk_identity, True)

    def empty_init():
        m = _c04_find_method(_c04_find_class(ef, "EmptyCheck"), "__init__")
        for n in ast.walk(m):
            if isinstance(n, ast.Assign) and _c04_selfattr(n.targets[0]) == "_isempty":
                return {None: "none", True: "some true", False: "some false"}[n.value.value]
    guard("emptyCheckInit", empty_init, "none")

    def fin_holds():
        m = _c04_find_method(_c04_find_class(ef, "Finalize"), "__init__")
        return [_c04_callname(n.value) for n in ast.walk(m) if isinstance(n, ast.Assign) and _c04_selfattr(n.targets[0]) and isinstance(n.value, ast.Call)]
    guard("finalizeHolds", fin_holds, ["EmptyCheck"])

    def env_cache_copies():
        m = _c04_find_method(_c04_find_class(ef, "Cache"), "filter")
        if m is None:
            return False
        return "methodcaller('copy')" in ast.unparse(m) or ".copy()" in ast.unparse(m)
    guard("envCacheCopies", env_cache_copies, True)

    def shuffle_logged():
        m = _c04_find_method(_c04_find_class(ef, "Shuffle"), "filter")
        fac = [n.right.value for n in ast.walk(m) if isinstance(n, ast.BinOp) and isinstance(n.op, ast.Mult) and _c04_selfattr(n.left) == "_seed"
               and isinstance(n.right, ast.Constant)]
        keys = []
        for n in ast.walk(m):
            if isinstance(n, ast.If) and isinstance(n.test, ast.BoolOp) and isinstance(n.test.op, ast.And):
                keys = [v.left.value for v in n.test.values if isinstance(v, ast.Compare) and isinstance(v.ops[0], ast.In) and isinstance(v.left, ast.Constant)]
        fr = Fraction(repr(fac[0]))
        return (fr.numerator, fr.denominator, keys)
    guard("shuffleLogged", shuffle_logged, (321, 100, ["action", "reward"]))

    def batchsafe():
        m = _c04_find_method(_c04_find_class(ef, "BatchSafe"), "filter")
        j = [n for n in ast.walk(m) if isinstance(n, ast.Call) and _c04_callname(n) == "join"][0]
        return [(_c04_callname(a) if isinstance(a, ast.Call) else ast.unparse(a)) for a in j.args]
    guard("batchSafeJoin", batchsafe, ["Unbatch", "self._filter", "Batch"])

    def save_batches():
        ser = srcs[2]
        m = _c04_find_method(_c04_find_class(ser, "EnvironmentsToObjects"), "_env_to_objects")
        return [n.args[1].value for n in ast.walk(m) if isinstance(n, ast.Call) and _c04_callname(n) == "islice" and len(n.args) == 2]
    guard("saveBatchSizes", save_batches, [1000, 1000])

    def abandon_rows():
        return c04_abandon_table(repo)
    guard("abandonRows", abandon_rows, [])

    def cache_fill():
        rows, _ = c04_abandon_scan(pf)
        mine = [r for r in rows if r[0] == "Cache.filter" and r[1] == "try"]
        return (mine[0][2], mine[0][3]) if len(mine) == 1 else "?"
    guard("cacheFill", cache_fill, ([], False))
    return V, miss


def c04_generated_text(V, miss):
    def s(x):
        return json.dumps(x, ensure_ascii=True)

    def strs(xs):
        return "[" + ", ".join(s(x) for x in xs) + "]"

    def tab(rows):
        return "[" + ", ".join("(%s, %s)" % (s(c), strs(a)) for c, a in rows) + "]"

    def held(rows):
        return "[" + ", ".join("(%s, %s, %s)" % (s(c), s(a), s(f)) for c, a, f in rows) + "]"

    def onat(x):
        return "none" if x is None else "some %d" % int(x)

    def b(x):
        return "true" if x else "false"
    L = ["-- GENERATED by harness/props/c04.py (pre_build, Python `ast`) from coba/environments/filters.py, coba/pipes/filters.py,",
         "-- coba/environments/core.py, supervised.py, synthetics.py, serialized.py on every run; do not edit.",
         "namespace Coba.C04.Generated",
         "/-- every class of coba/environments/filters.py, in source order -/",
         "def envClasses : List String := " + strs(V["envClasses"]),
         "/-- classes of coba/environments/filters.py that write instance attributes outside `__init__` (assignment, item assignment, mutating",
         "method, `next`, inserting look-up in a defaultdict), with the attributes: the per-object state that survives between two reads -/",
         "def envStateful : List (String × List String) := " + tab(V["envStateful"]),
         "/-- (class, attribute, constructor): generators / iterators / defaultdicts created in `__init__` and kept in the instance -/",
         "def envHeld : List (String × String × String) := " + held(V["envHeld"]),
         "/-- the same two tables for coba/pipes/filters.py -/",
         "def pipeStateful : List (String × List String) := " + tab(V["pipeStateful"]),
         "def pipeHeld : List (String × String × String) := " + held(V["pipeHeld"]),
         "/-- … and for the environment classes of supervised.py, synthetics.py, serialized.py -/",
         "def srcStateful : List (String × List String) := " + tab(V["srcStateful"]),
         "def srcHeld : List (String × String × String) := " + held(V["srcHeld"]),
         "/-- `pipes.Cache.__init__(self, n_slice=…, protected=…)` -/",
         "def cacheDefaultSlice : Option Nat := " + onat(V["cacheDefaults"][0]),
         "def cacheDefaultProtected : Bool := " + b(V["cacheDefaults"][1]),
         "/-- `__init__` sets `_cache = None` and `_iter = None` -/",
         "def cacheStartsUnread : Bool := " + b(V["cacheStartsUnread"]),
         "/-- the `Cache(...)` that `Environments.cache()` appends -/",
         "def shortcutCacheSlice : Option Nat := " + onat(V["shortcutCache"][0]),
         "def shortcutCacheProtected : Bool := " + b(V["shortcutCache"][1]),
         "/-- the `pipes.Cache(...)` that `Environments.materialize()` appends -/",
         "def materializeCacheSlice : Option Nat := " + onat(V["materializeCache"][0]),
         "def materializeCacheProtected : Bool := " + b(V["materializeCache"][1]),
         "/-- `nocache = lambda p: …` of `materialize()`, over `isCache := isinstance(p, pipes.Cache)` and `prot := p.protected` -/",
         "def nocache (isCache prot : Bool) : Bool := " + V["nocache"],
         "/-- `if not isinstance(env[-1], pipes.Cache):` without else; `list(env.read())` inside; `map(self._finalize, self._envs)` -/",
         "def materializeOnlyWhenLastNotCache : Bool := " + b(V["materializeOnlyWhenLastNotCache"]),
         "def materializeForcesRead : Bool := " + b(V["materializeForcesRead"]),
         "def materializeFinalizesFirst : Bool := " + b(V["materializeFinalizesFirst"]),
         "/-- `_finalize`: `env if any(map(is_finalize, env)) else Pipes.join(env, <wrap>)`; `is_finalize` = conjunction of isinstance tests -/",
         "def finalizeWrap : List String := " + strs(V["finalizeWrap"]),
         "def finalizeTest : List (String × String) := [" + ", ".join("(%s, %s)" % (s(a), s(c)) for a, c in V["finalizeTest"]) + "]",
         "/-- `chunk(self, cache=…)` joins this class and returns `envs.cache() if cache else envs`; `Chunk.filter` returns its argument -/",
         "def chunkCacheDefault : Bool := " + b(V["chunk"][0]),
         "def chunkJoins : String := " + s(V["chunk"][1]),
         "def chunkIsIdentity : Bool := " + b(V["chunkIsIdentity"]),
         "/-- `EmptyCheck.__init__`: `_isempty = …`; the objects `Finalize.__init__` creates and keeps -/",
         "def emptyCheckInit : Option Bool := " + V["emptyCheckInit"],
         "def finalizeHolds : List String := " + strs(V["finalizeHolds"]),
         "/-- `environments.Cache.filter` hands out copies -/",
         "def envCacheCopies : Bool := " + b(V["envCacheCopies"]),
         "/-- `Shuffle.filter`: `self._seed * <num/den>` when all of these keys are in the first interaction -/",
         "def shuffleLoggedFactor : Nat × Nat := (%d, %d)" % (V["shuffleLogged"][0], V["shuffleLogged"][1]),
         "def shuffleLoggedKeys : List String := " + strs(V["shuffleLogged"][2]),
         "/-- `BatchSafe.filter`: `Pipes.join(…)` around the wrapped filter for batched input -/",
         "def batchSafeJoin : List String := " + strs(V["batchSafeJoin"]),
         "/-- `islice(I, n)` sizes in `EnvironmentsToObjects._env_to_objects` (first batch, later batches) -/",
         "def saveBatchSizes : List Nat := [" + ", ".join(str(int(x)) for x in V["saveBatchSizes"]) + "]",
         "/-- every `try` / `with` statement of a generator function of the anchored files whose protected region holds a `yield`:",
         "(file, function, \"try\" | \"with\", exception classes of the handlers (sorted; `<bare>` = bare except) | context managers, has `finally`) -/",
         "def abandonRows : List (String × String × String × List String × Bool) := [" + ", ".join(
             "(%s, %s, %s, %s, %s)" % (s(f), s(q), s(k), strs(ns), b(fin)) for f, q, k, ns, fin in V["abandonRows"]) + "]",
         "/-- the handlers and the `finally` flag of the one `try` around the `yield`s of `pipes.Cache.filter` -/",
         "def cacheFillHandlers : List String := " + strs(V["cacheFill"][0]),
         "def cacheFillFinally : Bool := " + b(V["cacheFill"][1]),
         "def extracted : Bool := " + b(not miss),
         "end Coba.C04.Generated", ""]
    return "\n".join(L)


# ----------------------------------------------------------------------------------------------
# (A) for the stage table: which attributes of the pipe objects of a fresh pipeline really change between reads
def state_canon(v, depth=0):
    """canonical form of an attribute value (values, not addresses; iterators / generators by identity; generators of coba.random by state)"""
    if v is None or isinstance(v, (bool, int, float, str, bytes)):
        return repr(v)
    if depth > 5:
        return "<deep>"
    if isinstance(v, (list, tuple)):
        return [type(v).__name__, len(v)] + [state_canon(x, depth + 1) for x in v[:30]]
    if isinstance(v, dict):
        return ["dict", len(v)] + [[state_canon(k, depth + 1), state_canon(x, depth + 1)] for k, x in list(v.items())[:30]]
    if isinstance(v, (set, frozenset)):
        return ["set", sorted(repr(x) for x in v)[:30]]
    if hasattr(v, "__next__"):
        return ["iter", type(v).__name__, id(v)]
    if (type(v).__module__ or "").startswith("coba.random"):
        return ["rng", state_canon(dict(getattr(v, "__dict__", {})), depth + 1)]
    return ["obj", type(v).__name__]


def state_snapshot(pipes):
    """{(position, class names of the owning object, attribute): canonical value} over the pipes of a pipeline and the coba filter
    objects nested in them (BatchSafe._filter, Finalize._emptycheker, …)"""
    snap = {}

    def visit(o, path, depth):
        d = getattr(o, "__dict__", None)
        if not isinstance(d, dict):
            return
        mro = tuple(c.__name__ for c in type(o).__mro__ if c is not object)
        for a, v in list(d.items()):
            if depth < 4 and (type(v).__module__ or "") in ("coba.environments.filters", "coba.pipes.filters") and hasattr(v, "__dict__"):
                visit(v, path + "." + a, depth + 1)
            else:
                try:
                    snap[(path, mro, a)] = cjson(state_canon(v))
                except Exception:
                    snap[(path, mro, a)] = "<uncanonical>"
    for i, q in enumerate(pipes):
        visit(q, str(i), 0)
    return snap


def state_observe(case, tmp):
    """fresh pipeline: snapshot, abandoned read, full read, full read -> sorted [(class names, attribute)] that differ between any two
    snapshots, or None when the pipeline cannot be read"""
    envs, _ = build(case, tmp)
    env = envs[member_of(case)]
    pipes = list(env)
    snaps = [state_snapshot(pipes)]
    try:
        it = iter(env.read())
        next(it, None)
        del it
        gc.collect()
        snaps.append(state_snapshot(pipes))
        list(env.read())
        snaps.append(state_snapshot(pipes))
        list(env.read())
        snaps.append(state_snapshot(pipes))
    except BaseException as e:
        if not trappable(e):
            raise
        return None, None
    changed = set()
    for a, b in zip(snaps, snaps[1:]):
        for k in set(a) | set(b):
            if a.get(k) != b.get(k):
                changed.add((k[1], k[2]))
    consts = None
    try:
        from coba.environments import Environments
        import coba.pipes as cp
        c = [q for q in Environments(env).cache()[0] if isinstance(q, cp.Cache)][-1]
        ch = list(Environments(env).chunk()[0])
        consts = {"shortcutCache": {"sz": c._n_slice, "prot": bool(c.protected), "unread": c._cache is None and c._iter is None},
                  "chunk": [type(q).__name__ for q in ch[len(pipes):]][:2]}
    except BaseException as e:
        if not trappable(e):
            raise
    return sorted(changed), consts


class C04(Property):
    id = "C04"
    prop_modules = ["CobaVerif.Props.C04"]
    quick_n = 450
    thorough_n = 8000
    search_n = 1500
    case_timeout = 60
    workers = 8
    rule = ("environment = public constructor (5 synthetic, lambda, supervised from X/Y, row sources, csv/arff/libsvm/manik files or line sources, "
            "result object/file) + 0-8 Environments shortcut calls (enumerated by introspection, legal arguments; the stateful mechanisms - logged Shuffle, "
            "Cache followed by another filter, materialize, sparse->dense lookup, impute on missing values - are forced into ~45% of the chains); history of 3-8 "
            "full / partial(k) / params / materialize / cache / chunk / pickle / save steps on the pool of objects derived from it; "
            "non-trivial = the fresh read is non-empty, the history has >= 2 observations (full reads / params after a read) and at least one "
            "state-changing step (partial read or derive step) before the last observation; distinct by canonical JSON of the case; 25% of the cases are "
            "collections of 2-3 different environments (shortcuts applied to the collection, sibling reads interleaved, every member is an object of the model's pool); "
            "supervised row sources may be an IdentitySource owning its params dict, optionally with a twin environment of another label type over the SAME source object; "
            "a small share (25% of multi-label string cases, 1% otherwise) is additionally unpickled and read in child interpreters with PYTHONHASHSEED 1,2,3; "
            "3% are direct GroundedFeedback memo cases (1-110 instances x 2-4 arguments, 2-3 reads) compared word by word with the memo model; "
            "8% are fitting-window cases (from_lambda over caller-owned dyadic dense contexts, optionally held by cache()/materialize(), 1-4 Scale / Impute stages with "
            "every shift / scale / statistic / window size, optional params / take, 3-6 full and abandoned reads): contexts of every read predicted by Model/C11 "
            "(tolerance 1e-9 relative), delivered context OBJECTS compared by id() with the addresses of the aliasing model; "
            "falsy seeds (0, 0.0) and caller-written PMF logging policies are generated for logged(); abandoned reads are dropped by del (generated), and by "
            "close() / break / an exception in the consumer's loop in 16 pinned histories")
    trusted_base = [
        "filters that rewrite interaction content (Repr, Flatten, Sparsify, Densify) and Finalize's stateless part are REAL functions in the driver (Model/C10 on the "
        "interaction content, which the harness encodes with C10's codec; contents are matched to interned interactions through their observables); "
        "Scale / Impute are REAL functions (Model/C11 through Model/C04.fitDen) in the fitting-window case family; in the general family they and "
        "Noise / Cycle / Binary / Grounded / Logged / Batch / Unbatch stay item maps or tables taken from the code; statistics.stdev enters the driver as a 20-decimal root",
        "Densify(hashing): crc32 of the keys is computed by the harness; the C10 fix flags are detected on the tree under test by c10.detect_cfg()",
        "filters that select / order interactions (Take, Slice, Shuffle, Riffle, Reservoir, Sort, Where) are REAL functions in the driver (Model/C09, seeds through "
        "Model/C05; Reservoir's float formulas are evaluated on IEEE doubles in the driver); item-wise rewriting filters enter as their item->item map, the remaining "
        "stateless filters as their input->output table on the reference input (both taken from the code, stage by stage through the public pipes)",
        "the fields those filters look at (logged?, context as exact rationals / code points, number of actions) are extracted from the real interactions by the harness",
        "GroundedFeedback words are predicted by the memo model from CobaRandom(seed).choice (Model/C05); a GroundedFeedback is built directly from the public nested class",
        "translator (pre_build): Generated/C04Stages.lean is extracted with Python's ast from the current coba/environments/filters.py, coba/pipes/filters.py, "
        "coba/environments/core.py, supervised.py, synthetics.py, serialized.py (attributes written outside __init__ per class, generators kept from __init__, Cache / "
        "materialize / chunk / _finalize / save constants, the nocache predicate); which attributes really change between reads is also observed on the pipe objects "
        "of fresh pipelines (private attribute names, values canonicalised) and checked against the Lean stageTable through the driver",
        "Noise(context=('i',lo,hi), seed) is a REAL function in the fitting-window family (draws of CobaRandom(seed).randint through Model/C05); gaussian noise is not modelled",
        "pickle / zip I/O produce observationally equal, unshared copies",
        "CPython drops (closes) an abandoned generator as soon as its last reference disappears; that NO stage code runs then is no longer trusted: every try / with "
        "around a yield in the anchored files is extracted (Generated.abandonRows), proved silent (abandon_table_matches_source) and observed with a line tracer while "
        "real abandoned reads are closed (abandon_tie); a real pipes.Cache driven through session histories is compared with cacheSessX field by field",
    ]
    assumptions = ["openml and optional-package sources/filters (pandas, torch, vowpalwabbit) excluded",
                   "interleaved reads of two pipelines that share an unfinished Cache are treated like concurrent reads (outside the property)",
                   "time-seeded filters (seed None) excluded"]
    partial_theorems = {
        "cache_abandon_history": "hypothesis x != dropIter: what runs when the generator is closed is nothing (the source, abandon_table_matches_source) or the handler's reset; "
                                 "cache_finally_counterexample shows a `finally: self._iter = None` breaks it",
        "no_stage_writes_input_general": "hypothesis: no stage writes into the objects it is handed (alloc / share / pick only); fit_inplace_counterexample shows it is necessary for "
                                         "Scale written back into held contexts; fit_stages_do_not_write discharges it for Scale / Impute / Noise as modelled",
        "fit_kept_iterator_partial": "a stage keeping ONE upstream iterator between reads agrees with the real stage only until something has been pulled; "
                                     "fit_kept_iterator_counterexample shows the divergence; the real stage is covered at full strength by fit_stage_reads / fit_pipeline_reads",
        "fit_pipeline_reads": "hypothesis hde: interning contents is faithful (dec (enc c) = c)",
        "no_stage_writes_input": "hypothesis: no stage of the pipeline writes into the objects it receives (writesInput = false for every stage); "
                                 "inplace_stage_counterexample shows it is necessary; second_read_same additionally needs the held addresses to exist in the store",
        "collection_members_independent": "needs one pipe object per member (objects of the pool own their nodes); shared_cache_counterexample shows a shared Cache breaks it; "
                                          "one stateful filter object handed to Environments.filter() by the caller is outside (the generator never does that for collections)",
        "caller_objects_unchanged": "hypothesis: no source rewrites the heap cell it was built from (argEdit = none); inplace_argument_edit_counterexample shows it is necessary",
        "memo_stable_across_reads": "for an unbounded memo (lru_cache(maxsize=None)); memo_bounded_counterexample shows a capacity breaks it",
        "noise_fresh_rng_stable": "for the generator created per filter() call; noise_kept_rng_counterexample shows a generator kept in the instance breaks it",
        "reread": "hypothesis finIdem (Finalize leaves finalized output unchanged) is forced by F7: BatchSafe re-batches with the size of the first batch, "
                  "so save()/from_save() (which finalizes again) regroups batches when the first batch is a short one; finalize_twice_counterexample shows it is necessary; "
                  "the driver reports hyp=false on such cases and the model then predicts the regrouped read exactly",
        "shuffle_logged_stable_partial": "as-is logged Shuffle (before e4fe683) is stable only while no read session on it is abandoned; "
                                         "shuffle_abandon_counterexample shows the hypothesis is necessary; the repaired Shuffle is a pure stage and is covered by reread at full strength",
    }

    # ---- generation
    def gen_memo(self, rng, big):
        ni = rng.randint(70, 110) if big else rng.randint(1, 6)
        nact = rng.randint(3, 4) if big else rng.randint(2, 4)
        base = rng.randint(0, 50)
        insts = [{"seed": base + i, "argmax": rng.randint(0, nact - 1), "normal": rng.chance(0.6)} for i in range(ni)]
        q = [[i, a] for i in range(ni) for a in range(nact)]
        reads = [q, q] if rng.chance(0.5) else [q, rng.shuffle(q)[:max(1, len(q) // 2)], q]
        return {"memo": {"ngood": rng.randint(1, 3), "nbad": rng.randint(1, 4), "insts": insts, "reads": reads}}

    def pre_build(self):
        """translator step: per-object state of the filter classes, Cache / materialize / _finalize / chunk / save constants and the
        `nocache` predicate, read with `ast` from the CURRENT source -> lean/CobaVerif/Generated/C04Stages.lean"""
        from core import lean
        repo = os.environ.get("COBA_REPO", "/repo")
        V, miss = c04_translate(repo)
        path = os.path.join(lean.LEAN_DIR, "CobaVerif", "Generated", "C04Stages.lean")
        if V is None:
            return ["C04 stage table: source files unreadable, generated file left as it is"]
        body = c04_generated_text(V, miss)
        old = open(path, encoding="utf-8").read() if os.path.exists(path) else None
        if old != body:
            os.makedirs(os.path.dirname(path), exist_ok=True)
            with open(path, "w", encoding="utf-8") as f:
                f.write(body)
        return ["C04 stage table from source: stateful env %s, pipes %s, sources %s; held %s; cache() %s, materialize() %s, save batches %s%s"
                % (V["envStateful"], V["pipeStateful"], V["srcStateful"], V["envHeld"] + V["pipeHeld"] + V["srcHeld"], V["shortcutCache"],
                   V["materializeCache"], V["saveBatchSizes"], "; try/with around a yield: %s" % [(q, k, ns, fin) for _, q, k, ns, fin in V["abandonRows"]] + ("" if not miss else " (NOT extracted: %s — source reshaped)" % ", ".join(miss)))]

    def state_tie(self, case, fails, tags, driver, tmp):
        """(A) for the stage table: every attribute of a pipe object that changes between reads of a fresh pipeline must be allowed by the
        model's `stageTable` (asked from the driver), and the Cache that cache() appends must be the model's `shortcutCacheNode`"""
        changed, consts = state_observe(case, tmp)
        if changed is None:
            tags.append("state-check:unreadable")
            return
        ans = driver.ask({"stages": {"obs": [[list(m), a] for m, a in changed]}})
        tags.append("state-check")
        for (m, a), ok in zip(changed, ans["allowed"]):
            if ok:
                tags.append("state:%s.%s" % (m[0], a))
            else:
                fails.append(F("A", "an instance of %s changed its attribute %r between reads of one pipeline object (fresh pipeline: abandoned read, "
                                    "full read, full read), but the model's stage table lists no such per-object state" % (m[0], a),
                               "A:stage-table:unlisted:%s.%s" % (m[0], a)))
        if consts is not None:
            want = dict(ans["shortcutCache"])
            if consts["shortcutCache"] != want:
                fails.append(F("A", "Environments.cache() appended a Cache with %s, the model's step appends %s" % (consts["shortcutCache"], want), "A:stage-table:cache-shortcut"))
            if consts["chunk"] != ["Chunk", "Cache"]:
                fails.append(F("A", "Environments.chunk() appended %s, the model's step appends Chunk, Cache" % consts["chunk"], "A:stage-table:chunk-shortcut"))

    def abandon_tie(self, case, fails, tags, driver, tmp):
        """(A) for the abandon table and the explicit Cache session (`cacheSessX`): (1) a read of a fresh pipeline is dropped after k items
        under a line tracer; every source line of the anchored files that ran while the generators were closed must be allowed by the model's
        `abandonTable` (a tested `except` line / a left `with`; never a handler or `finally` body); (2) a real `pipes.Cache(sz)` over
        range(N) is driven through a history of complete / abandoned / never started sessions; `_cache`, `_iter` after every session and the
        items every session delivers must be the model's"""
        h = zlib.crc32(("abandon/" + cjson(case)).encode("utf-8"))
        k = [1, 2, 26, 3][h % 4]
        envs, _ = build(case, tmp)
        env = envs[member_of(case)]
        try:
            obs, got = abandon_observe(env, k)
        except BaseException as e:
            if not trappable(e):
                raise
            tags.append("abandon-check:unreadable")
            obs, got = None, 0
        if obs is not None and (h >> 5) % 4 == 0:
            # the same pipeline saved and reloaded: the abandoned read closes ZipMemberToObjects.read inside its `with` / `try`
            try:
                envs2, _ = build(case, tmp)
                saved = envs2.save(os.path.join(tmp, "abandon_%d.zip" % len(os.listdir(tmp))))
                obs2, _ = abandon_observe(saved[member_of(case)], k)
                obs = sorted(set(obs) | set(obs2))
                tags.append("abandon-check:saved")
            except BaseException as e:
                if not trappable(e):
                    raise
                tags.append("abandon-check:save-fails")
        n = [0, 1, 5, 26, 51, 7][(h >> 3) % 6]
        sz = [None, 1, 2, 3, 25, 25][(h >> 7) % 6]
        menu = [None, 1, 2, 3, 24, 25, 26, 50, "all", n, n + 1, max(n - 1, 0)]
        reads = [menu[(h >> (11 + 4 * i)) % len(menu)] for i in range(4)] + ["all"]
        import coba.pipes as cp
        c = cp.Cache(sz)
        real, sent = [], []
        for d in reads:
            it = iter(c.filter(range(n)))
            if d is None or d == 0:
                seq, sd = [], None
            elif d == "all":
                seq, sd = list(it), "all"
            else:
                seq, sd = [], d
                for _ in range(d):
                    try:
                        seq.append(next(it))
                    except StopIteration:
                        sd = "all"
                        break
            del it
            sent.append(sd)
            real.append({"cache": None if c._cache is None else len(c._cache), "iter": c._iter is not None, "seq": seq})
        ans = driver.ask({"abandon": {"obs": [list(o) for o in (obs or [])], "cache": {"sz": sz, "n": n, "reads": sent}}})
        if obs is not None:
            tags.append("abandon-check")
            tags.append("abandon-at:%s" % ("0" if got == 0 else "end" if got < k else str(k)))
            for o, ok in zip(obs, ans["allowed"]):
                if ok:
                    tags.append("abandon:%s:%s" % (o[1], o[2]))
                else:
                    fails.append(F("A", "while a read abandoned after %d items was being closed, a source line of %s (%s) ran (%s): the model's abandon table "
                                        "says no stage code runs when a read is dropped" % (got, o[1], o[0], o[2]), "A:abandon-table:runs:%s:%s" % (o[1], o[2])))
        prev = list(range(n))
        for i, (r, m, d) in enumerate(zip(real, ans["cache"], sent)):
            want = prev if d == "all" else [] if d is None else prev[:d]
            if r["seq"] != want or r["cache"] != m["cache"] or r["iter"] != m["iter"]:
                fails.append(F("A", "pipes.Cache(%r) over range(%d), sessions %r: session %d delivered %r / left _cache of %r items, _iter alive=%r; the model's "
                                    "session delivers %r / leaves %r, %r" % (sz, n, sent, i, r["seq"][:8], r["cache"], r["iter"], want[:8], m["cache"], m["iter"]),
                               "A:cache-session:%s" % ("all" if d == "all" else "none" if d is None else "pull")))
                break
            prev = m["next"]
        tags.append("cache-session-model")
        tags.append("cache-session:sz=%s" % sz)

    def generate(self, rng, tier):
        if rng.chance(0.03):
            return self.gen_memo(rng, rng.chance(0.4))
        if rng.chance(0.08):
            return self.gen_fit(rng)
        src, sh = g_source(rng)
        chain, sh2 = g_chain(rng, sh)
        case = {"src": src, "chain": chain}
        # filters that memoise per instance (Grounded's feedbacks): more evaluations per read than any bounded memo would hold
        names = [st["m"] for st in chain]
        if "grounded" in names and isinstance(src.get("n"), int) and rng.chance(0.6):
            src["n"] = rng.choice([100, 130, 260])
            sh2["n"] = src["n"]
        # a collection of 2-3 different environments; the shortcuts are applied to the collection, the history runs on one member
        nmembers, member = 1, 0
        if src.get("twin"):
            for st in chain:
                if "pick" in st:
                    st.pop("pick")
                    if st["m"] == "shuffle":
                        st.pop("k", None)
                        st["a"] = [rng.randint(0, 20)]
            chain[:] = [st for st in chain if not (st["m"] == "filter" and st["f"]["cls"] in ("Cache", "EmptyCheck", "Finalize", "BatchSafe"))]
            nmembers, member = 2, rng.randint(0, 1)
            case["member"] = member
        elif rng.chance(0.25):
            sibs = [x for x in (sibling_of(rng, src) for _ in range(rng.choice([1, 1, 2]))) if x is not None]
            if sibs:
                for st in chain:          # steps that multiply the environments are replaced by their single form
                    if "pick" in st:
                        st.pop("pick")
                        if st["m"] == "shuffle":
                            st.pop("k", None)
                            st["a"] = [rng.randint(0, 20)]
                # one stateful filter OBJECT handed to `.filter()` would be shared by all members (the caller's doing, not coba's):
                # the shortcuts create one object per member, `.filter(obj)` cannot
                chain[:] = [st for st in chain if not (st["m"] == "filter" and st["f"]["cls"] in ("Cache", "EmptyCheck", "Finalize", "BatchSafe"))]
                case["sibs"] = sibs
                nmembers = 1 + len(sibs)
                member = rng.randint(0, nmembers - 1)
                case["member"] = member
        case["hist"] = g_hist(rng, sh2.get("n", 5), nmembers, member)
        # "after pickling": a small share is also read in other interpreters (other string-hash seeds), mostly where set/dict order could show
        ms = member_src(case)
        hashy = ms["kind"].startswith("sup") and ms.get("label_type") == "m"
        if rng.chance(0.25 if hashy else 0.01) and not any(st.get("learner", {}).get("kind") == "pmf" for st in chain):
            case["xproc"] = True        # (a harness-defined policy class cannot be unpickled by a bare child interpreter)
        return case

    def search(self, rng, tier):
        return self.generate(rng, tier)

    def exhaustive(self, tier):
        """small-scope sweep (thorough tier): every history of length 3 over 9 step kinds on 4 fixed pipelines,
        each followed by a full read and a params look-up on the newest object"""
        lam = {"kind": "lambda", "n": 30, "ctxs": [[1, 2], [3, 4], [0.5, 7]], "acts": [["x", "y", "z"]], "rwds": [[1, 0, 0.5], [0, 1, 0.25]], "seed": 3}
        lin = {"kind": "linear", "n": 6, "n_actions": 3, "n_ctx": 2, "n_act": 0, "n_coeff": 2, "rf": ["a", "xa"], "seed": 3}
        rows = {"kind": "sup_rows", "via": "list", "rows": [[1, 2, "a"], [3, 4, "b"], [5, 6, "a"], [7, 8, "b"]], "label_col": 2, "label_type": "c", "take": None}
        pipes = [(lam, [{"m": "cache"}]), (lin, [{"m": "logged", "learner": {"kind": "random", "seed": 1}, "a": [1.23]}, {"m": "shuffle", "a": [4]}]),
                 (rows, [{"m": "scale", "a": ["min", "minmax", "context", None]}]), (lam, [{"m": "sparse", "a": [True, False]}, {"m": "dense", "a": [6, "lookup"]}, {"m": "chunk", "a": [True]}])]
        kinds = ["full", "p1", "p26", "params", "cache", "chunk", "pickle", "materialize", "save"]
        out = []
        for src, chain in pipes:
            for a in kinds:
                for b in kinds:
                    for c in kinds:
                        hist, n = [], 1
                        for kd in (a, b, c):
                            if kd == "p1":
                                hist.append({"op": "partial", "on": n - 1, "k": 1})
                            elif kd == "p26":
                                hist.append({"op": "partial", "on": n - 1, "k": 26})
                            elif kd in ("full", "params"):
                                hist.append({"op": kd, "on": n - 1})
                            else:
                                hist.append({"op": kd, "on": n - 1})
                                n += 1
                        hist += [{"op": "full", "on": n - 1}, {"op": "params", "on": n - 1}, {"op": "full", "on": n - 1}]
                        out.append({"src": src, "chain": chain, "hist": hist})
        return out

    def corpus(self):
        cs = [{"witness": "shuffle_abandon_counterexample"}]
        q = [[i, a] for i in range(90) for a in range(3)]
        cs.append({"memo": {"ngood": 2, "nbad": 2, "insts": [{"seed": 1 + i, "argmax": i % 3, "normal": i % 4 != 0} for i in range(90)], "reads": [q, q, q[::-1]]}})
        cs.append({"memo": {"ngood": 1, "nbad": 3, "insts": [{"seed": 7, "argmax": 1, "normal": True}, {"seed": 8, "argmax": 0, "normal": False}],
                            "reads": [[[0, 0], [0, 1], [1, 0], [1, 1]], [[1, 1], [0, 0]], [[0, 0], [0, 1], [1, 0], [1, 1]]]}})
        lin = {"kind": "linear", "n": 5, "n_actions": 3, "n_ctx": 2, "n_act": 0, "n_coeff": 2, "rf": ["a", "xa"], "seed": 3}
        lam = {"kind": "lambda", "n": 51, "ctxs": [[1, 2], [3, 4], [0.5, 7]], "acts": [["x", "y", "z"]], "rwds": [[1, 0, 0.5], [0, 1, 0.25]], "seed": None}
        xy = {"kind": "sup_xy", "X": [[1, 2], [3, 4], [5, 6], [7, 8]], "Y": ["a", "b", "a", "c"], "label_type": None}
        rows = {"kind": "sup_rows", "via": "list", "rows": [[1, 2, "a"], [3, 4, "b"], [5, 6, "a"]], "label_col": 2, "label_type": "c", "take": None}
        csv = {"kind": "sup_file", "fmt": "csv", "via": "file", "lines": ["f0,f1,lbl", "1,2,a", "3,4,b", "5,6,a"], "has_header": True, "label_col": "lbl", "label_type": "c", "take": None}
        logged = {"m": "logged", "learner": {"kind": "random", "seed": 1}, "a": [1.23]}
        full, par = {"op": "full", "on": 0}, {"op": "params", "on": 0}

        def part(k, on=0):
            return {"op": "partial", "on": on, "k": k}
        # the logged Shuffle: abandoned read / a downstream take that never exhausts it / cache behind it
        for chain in ([logged, {"m": "shuffle", "a": [4]}], [logged, {"m": "shuffle", "a": [4]}, {"m": "take", "a": [3, False]}],
                      [logged, {"m": "shuffle", "a": [4]}, {"m": "cache"}], [logged, {"m": "shuffle", "a": [4]}, {"m": "sort", "a": [0]}],
                      [{"m": "shuffle", "a": [4]}]):
            for hist in ([full, part(2), full, par], [full, full, par], [part(0), part(1), full], [full, {"op": "materialize", "on": 0}, {"op": "full", "on": 1}, full],
                         [part(2), {"op": "materialize", "on": 0}, {"op": "full", "on": 1}, full]):
                cs.append({"src": lin, "chain": chain, "hist": hist})
        # Cache: slice boundaries, saved iterator continuing across reads, nested caches, pickling a half-filled cache
        for n in (24, 25, 26, 50, 51):
            for k in (1, 24, 25, 26, 50):
                cs.append({"src": dict(lam, n=n), "chain": [{"m": "cache"}], "hist": [part(k), part(3), full, part(k), full, par]})
        cs.append({"src": lam, "chain": [{"m": "cache"}, {"m": "sparse", "a": [True, False]}, {"m": "cache"}], "hist": [part(3), part(30), full, full]})
        cs.append({"src": lam, "chain": [{"m": "filter", "f": {"cls": "Cache", "a": [1]}}], "hist": [part(2), part(1), full, full]})
        cs.append({"src": lam, "chain": [{"m": "filter", "f": {"cls": "Cache", "a": [None]}}], "hist": [part(2), full, full]})
        cs.append({"src": lam, "chain": [{"m": "cache"}], "hist": [part(2), {"op": "pickle", "on": 0}, {"op": "full", "on": 1}, full]})
        cs.append({"src": lam, "chain": [], "hist": [{"op": "cache", "on": 0}, part(2, 1), {"op": "cache", "on": 1}, part(30, 2), {"op": "full", "on": 2}, {"op": "materialize", "on": 2}, {"op": "full", "on": 3}]})
        cs.append({"src": lam, "chain": [{"m": "chunk", "a": [True]}], "hist": [part(26), {"op": "save", "on": 0}, {"op": "full", "on": 1}, full, {"op": "params", "on": 1}]})
        # phase 6: the ways a consumer abandons a read — `it.close()`, `break` out of a `for` loop, an exception raised by the loop body
        # (besides dropping the reference, which every other partial step does); each closes the generators at a `yield`
        def parth(k, how, on=0):
            return {"op": "partial", "on": on, "k": k, "how": how}
        for how in ("close", "break", "raise"):
            cs.append({"src": lam, "chain": [{"m": "cache"}], "hist": [parth(1, how), parth(26, how), full, parth(3, how), full, par]})
            cs.append({"src": lin, "chain": [logged, {"m": "shuffle", "a": [4]}], "hist": [full, parth(2, how), full, par]})
            cs.append({"src": lam, "chain": [{"m": "chunk", "a": [True]}], "hist": [parth(26, how), {"op": "save", "on": 0}, {"op": "full", "on": 1}, parth(2, how, 1), {"op": "full", "on": 1}, full]})
            cs.append({"src": csv, "chain": [], "hist": [parth(1, how), full, parth(2, how), full, par]})
            cs.append({"src": lam, "chain": [], "hist": [{"op": "cache", "on": 0}, parth(2, how, 1), {"op": "pickle", "on": 1}, {"op": "full", "on": 2}, {"op": "full", "on": 1}]})
        cs.append({"src": lam, "chain": [{"m": "cache"}, {"m": "shuffle", "a": [2]}, {"m": "cache"}],
                   "hist": [parth(1, "close"), parth(27, "break"), parth(3, "raise"), part(1), full, full, par]})
        # sources that know their params only once read; one-shot zip; lazy rows
        for src in (xy, rows, csv):
            cs.append({"src": src, "chain": [], "hist": [par, full, par, full, {"op": "save", "on": 0}, {"op": "params", "on": 1}, {"op": "full", "on": 1}]})
            cs.append({"src": src, "chain": [{"m": "cache"}], "hist": [full, {"op": "pickle", "on": 0}, {"op": "full", "on": 1}, {"op": "params", "on": 1}]})
            cs.append({"src": src, "chain": [{"m": "scale", "a": ["min", "minmax", "context", None]}], "hist": [part(1), full, full, par]})
        # copies handed out by the cache; missing values; stateful rewards
        onehot = dict(lam, n=6, acts=[[{"t": [1, 0, 0]}, {"t": [0, 1, 0]}, {"t": [0, 0, 1]}]])
        for chain in ([{"m": "cache"}, {"m": "cycle", "a": [1]}], [{"m": "materialize"}, {"m": "cycle", "a": [0]}], [{"m": "cache"}, {"m": "binary"}],
                      [{"m": "cache"}, {"m": "scale", "a": ["min", "minmax", "context", None]}], [{"m": "cache"}, {"m": "noise", "k": {"reward": {"t": ["i", 0, 1]}, "seed": 2}}],
                      [{"m": "materialize"}, {"m": "grounded", "a": [3, 2, 4, 2, 1]}], [{"m": "grounded", "a": [3, 2, 4, 2, 1]}, {"m": "cache"}]):
            cs.append({"src": onehot, "chain": chain, "hist": [full, part(2), full, full, par]})
        none = dict(lam, n=6, ctxs=[[1, None], [None, 4], [0.5, 7], [2, 2]])
        for stat in ("mean", "median", "mode"):
            cs.append({"src": none, "chain": [{"m": "impute", "a": [stat, True, None]}], "hist": [full, part(1), full, par]})
            cs.append({"src": {"kind": "sup_xy", "X": [[1, None], [None, 4], [0.5, 7], [2, 2]], "Y": ["a", "b", "a", "b"], "label_type": "c"},
                       "chain": [{"m": "impute", "a": [stat, False, 2]}], "hist": [full, full, par]})
        # a finalized environment whose first batch is the short one, finalized again by save()/from_save() (F7)
        cs.append({"src": dict(lin, n=7), "chain": [{"m": "batch", "a": [5]}, {"m": "shuffle", "a": [0]}, {"m": "reservoir", "a": [3, 5, False]}],
                   "hist": [full, {"op": "save", "on": 0}, {"op": "full", "on": 1}, part(1, 1), full]})
        cs.append({"src": dict(lin, n=7), "chain": [{"m": "batch", "a": [5]}], "hist": [full, {"op": "save", "on": 0}, {"op": "full", "on": 1}, {"op": "pickle", "on": 1}, {"op": "full", "on": 2}]})
        # data held by cache()/materialize() before every kind of filter that changes contexts / actions / rewards, for every
        # kind of context (list, tuple, sparse dict, SparseDense from dense(), nested, scalar, missing values, lazy csv rows)
        def lamc(ctxs, acts=None):
            return dict(lam, n=6, ctxs=ctxs, acts=acts or [["x", "y", "z"]])
        kinds = [
            ("list", lamc([[1, 2], [3, 5], [0.5, 7]]), []),
            ("tuple", lamc([{"t": [1, 2]}, {"t": [3, 5]}, {"t": [0.5, 7]}]), []),
            ("sparse", lamc([{"d": [["a", 1], ["b", 4]]}, {"d": [["a", 3], ["c", 2]]}, {"d": [["b", 8], ["c", 6]]}]), []),
            ("sparsedense", lamc([{"d": [["a", 1], ["b", 4]]}, {"d": [["a", 3], ["c", 2]]}, {"d": [["b", 8], ["c", 6]]}]), [{"m": "dense", "a": [4, "lookup"]}]),
            ("sparsedense-xy", {"kind": "sup_xy", "X": [{"d": [["a", 1.0], ["b", 4.0]]}, {"d": [["a", 3.0], ["c", 2.0]]}, {"d": [["b", 8.0], ["c", 6.0]]}, {"d": [["a", 5.0], ["b", 2.0], ["c", 4.0]]}],
                                "Y": ["x", "y", "x", "y"], "label_type": "c"}, [{"m": "dense", "a": [4, "lookup"]}]),
            ("nested", lamc([[1, [2, 3]], [4, [5, 6]]]), []),
            ("value", lamc([1, 3, 0.5]), []),
            ("none", lamc([[1, None], [None, 4], [0.5, 7], [2, 2]]), []),
            ("lazy", csv, []),
            ("onehot-actions", lamc([[1, 2], [3, 5]], [[{"t": [1, 0, 0]}, {"t": [0, 1, 0]}, {"t": [0, 0, 1]}]]), []),
        ]
        mutators = [{"m": "scale", "a": [1, 2, "context", None]}, {"m": "scale", "a": [0, 0.5, "context", None]}, {"m": "impute", "a": ["mean", True, None]},
                    {"m": "noise", "k": {"context": {"t": ["i", 1, 2]}, "reward": {"t": ["i", 1, 1]}, "seed": 2}}, {"m": "repr", "a": ["onehot", "string"]},
                    {"m": "flatten"}, {"m": "sparse", "a": [True, True]}, {"m": "cycle", "a": [0]}, {"m": "binary"}, {"m": "sort", "a": []},
                    {"m": "grounded", "a": [3, 2, 4, 2, 1]}, {"m": "batch", "a": [2]}]
        for ki, (_, src, pre) in enumerate(kinds):
            for mi, mut in enumerate(mutators):
                holder = [{"m": "cache"}, {"m": "materialize"}][(ki + mi) % 2]       # both holders for every kind and every mutator, alternating
                cs.append({"src": src, "chain": pre + [holder, mut], "hist": [full, full, par]})
        # a source that owns its params dict, used directly; two environments over ONE source object, read in both orders
        pairs = [{"t": [[1.0, 2.0], 1]}, {"t": [[3.0, 4.0], 2]}, {"t": [[5.0, 6.0], 3]}, {"t": [[7.0, 8.0], 1]}]
        ident = {"kind": "sup_rows", "via": "identity", "rows": pairs, "label_col": None, "label_type": "c", "take": None}
        cs.append({"src": ident, "chain": [], "hist": [par, part(1), full, par, full]})
        for member in (0, 1):
            other = 1 - member
            cs.append({"src": dict(ident, twin="r"), "member": member, "chain": [],
                       "hist": [full, par, {"op": "sib", "on": 0, "i": other}, par, full, {"op": "sib", "on": 0, "i": other}, par]})
            cs.append({"src": dict(ident, via="list", twin="r"), "member": member, "chain": [{"m": "cache"}],
                       "hist": [{"op": "sib", "on": 0, "i": other}, full, par, part(1), {"op": "sib", "on": 0, "i": other}, full, par]})
        # string-valued multi-labels / labels / sparse keys, also read in interpreters with other string-hash seeds
        ml = {"kind": "sup_xy", "X": [[1, 2], [3, 4], [5, 6], [7, 8], [9, 1]], "Y": [["pear", "fig"], ["kiwi"], ["fig", "plum", "kiwi"], ["lime"], ["pear"]], "label_type": "m"}
        cs.append({"src": ml, "chain": [], "hist": [full, {"op": "pickle", "on": 0}, {"op": "full", "on": 1}, full], "xproc": True})
        cs.append({"src": dict(ml, Y=["pear", "kiwi", "fig", "lime", "pear"], label_type="c"), "chain": [{"m": "sparse", "a": [True, True]}],
                   "hist": [full, full], "xproc": True})
        cs.append({"src": {"kind": "sup_file", "fmt": "libsvm", "via": "lines", "lines": ["0,2 1:3 4:1", "1 2:1 4:9", "0,1,2 1:2 5:7", "2 3:1"], "label_col": None, "label_type": "m", "take": None},
                   "chain": [], "hist": [full, full], "xproc": True})
        # labels / actions / keys that a repr-literal_eval or text round trip can mangle, held in memory and pickled / saved
        Yt = ["red wine", "white wine", " lead", "red wine", "it's", 'say "hi"', "", "back\\slash", "na\u00efve \u00fc", "trail "]
        Xt = [[i % 4, (i * 3) % 5] for i in range(len(Yt))]
        for lt, Y in (("c", Yt), ("m", [[y, Yt[(i + 3) % len(Yt)]] for i, y in enumerate(Yt)])):
            st = {"kind": "sup_xy", "X": Xt, "Y": Y, "label_type": lt}
            cs.append({"src": st, "chain": [{"m": "materialize"}], "hist": [full, {"op": "pickle", "on": 0}, {"op": "full", "on": 1}, {"op": "save", "on": 1}, {"op": "full", "on": 2}], "xproc": True})
            cs.append({"src": st, "chain": [{"m": "cache"}], "hist": [full, {"op": "pickle", "on": 0}, {"op": "full", "on": 1}, full]})
            cs.append({"src": st, "chain": [{"m": "sparse", "a": [True, True]}], "hist": [full, {"op": "save", "on": 0}, {"op": "full", "on": 1}]})
        cs.append({"src": dict(lam, n=6, acts=[["red wine", " lead", "it's", ""]], rwds=[[1, 0, 0.5, 0.25]]), "chain": [{"m": "binary"}, {"m": "materialize"}],
                   "hist": [full, {"op": "pickle", "on": 0}, {"op": "full", "on": 1}, {"op": "save", "on": 0}, {"op": "full", "on": 2}]})
        # pinned (independent of the random stream): a pickled Noise filter whose seed is not the default one
        for nk in ({"context": {"t": ["i", 0, 2]}, "seed": 5}, {"reward": {"t": ["i", 0, 3]}, "seed": 7}, {"action": {"t": ["i", 1, 2]}, "context": {"t": ["g", 0, 1]}, "seed": 3}):
            cs.append({"src": dict(lin, n=6), "chain": [{"m": "noise", "k": nk}], "hist": [full, {"op": "pickle", "on": 0}, {"op": "full", "on": 1}, part(2, 1), {"op": "full", "on": 1}, full]})
        cs.append({"src": dict(lin, n=6), "chain": [{"m": "noise", "k": {"context": {"t": ["i", 0, 2]}, "seed": 5}}], "hist": [{"op": "pickle", "on": 0}, {"op": "full", "on": 1}, full], "xproc": True})
        # pinned: more than 1024 feedback evaluations between two reads of a grounded environment held by cache() / materialize()
        many = dict(lam, n=262, acts=[["x", "y", "z", "w"]], rwds=[[1, 0, 0.5, 0.25], [0, 1, 0.25, 0.5]])
        cs.append({"src": many, "chain": [{"m": "grounded", "a": [4, 2, 5, 2, 3]}, {"m": "cache"}], "hist": [full, full]})
        cs.append({"src": many, "chain": [{"m": "grounded", "a": [4, 2, 5, 2, 3]}, {"m": "materialize"}], "hist": [full, full]})
        # pinned: Categorical values inside a nested mutable container of the caller's X, read partially and then completely
        lv = ["lo", "mid", "hi"]
        Xn = [[[{"c": lv[i % 3], "L": lv}, {"c": lv[(i + 1) % 3], "L": lv}], float(i)] for i in range(6)]
        ncat = {"kind": "sup_xy", "X": Xn, "Y": ["a", "b", "a", "b", "a", "b"], "label_type": "c"}
        cs.append({"src": ncat, "chain": [], "hist": [part(2), full, full, par]})
        cs.append({"src": ncat, "chain": [{"m": "cache"}], "hist": [full, part(1), full]})
        cs.append({"src": dict(lam, n=6, ctxs=[x for x in Xn[:3]]), "chain": [], "hist": [part(1), full, full]})
        cs.append({"src": {"kind": "sup_rows", "via": "list", "rows": [{"t": [Xn[i], ["a", "b"][i % 2]]} for i in range(6)], "label_col": None, "label_type": "c", "take": None},
                   "chain": [], "hist": [part(2), full, full]})
        # a collection of different environments: every shortcut must give each member its own pipes (cache/chunk/materialize/...)
        lin2 = dict(lin, n=6, seed=5)
        for chain in ([{"m": "cache"}], [{"m": "chunk", "a": [True]}], [{"m": "materialize"}], [{"m": "shuffle", "a": [3]}, {"m": "cache"}],
                      [{"m": "sparse", "a": [True, False]}, {"m": "dense", "a": [6, "lookup"]}], [logged, {"m": "shuffle", "a": [4]}], [{"m": "noise", "k": {"context": {"t": [0, 1]}, "seed": 3}}]):
            for member in (0, 1):
                other = 1 - member
                cs.append({"src": lin, "sibs": [lin2], "member": member, "chain": chain,
                           "hist": [{"op": "sib", "on": 0, "i": other}, full, {"op": "sib", "on": 0, "i": other}, part(2), full, par]})
        cs.append({"src": lin, "sibs": [lin2, dict(lin, n=4, seed=9)], "member": 2, "chain": [],
                   "hist": [{"op": "cache", "on": 0}, {"op": "sib", "on": 1, "i": 0}, {"op": "full", "on": 1}, {"op": "sib", "on": 1, "i": 1}, {"op": "full", "on": 1},
                            {"op": "save", "on": 1}, {"op": "sib", "on": 2, "i": 0}, {"op": "full", "on": 2}]})
        # grounded() as the last step: users and feedback words predicted by the memo model
        for src_ in (dict(lin, n=12, n_actions=4), dict(lam, n=9)):
            for ga in ([3, 2, 4, 2, 1], [5, 0, 6, 3, 7], [1, 1, 2, 1, 0]):
                cs.append({"src": src_, "chain": [{"m": "grounded", "a": ga}], "hist": [full, part(2), full]})
        cs.append({"src": dict(lin, n=12, n_actions=4), "chain": [{"m": "shuffle", "a": [3]}, {"m": "grounded", "a": [4, 2, 5, 2, 3]}], "hist": [full, full]})
        # filters that memoise per instance: more (interaction, action) evaluations per read than a bounded memo would hold
        big = dict(lin, n=100, n_actions=4)
        for chain in ([{"m": "grounded", "a": [3, 2, 4, 2, 1]}, {"m": "materialize"}], [{"m": "grounded", "a": [3, 2, 4, 2, 1]}, {"m": "cache"}],
                      [{"m": "materialize"}, {"m": "grounded", "a": [5, 3, 6, 3, 2]}]):
            cs.append({"src": big, "chain": chain, "hist": [full, full, part(99), full]})
        # synthetic constructors with a missing feature group, reward features given by the caller or left to the default
        for nc, nf, rf in ((0, 2, None), (0, 2, ["a", "xa"]), (2, 0, ["x", "xa"]), (2, 0, None), (0, 0, None), (2, 2, None), (0, 3, ["xa", "xxa", "a"])):
            cs.append({"src": dict(lin, n_ctx=nc, n_act=nf, rf=rf), "chain": [], "hist": [par, part(1), par, full, par, full]})
        # ---- round g (pinned, independent of the random stream)
        # (g1) falsy-but-legal seeds (0, 0.0) wherever a shortcut / constructor accepts a seed: `seed or default` turns them into the default or the clock
        lin12 = dict(lin, n=12, n_actions=4)
        for z in (0, 0.0):
            for lk in ("pmf", "eps"):
                cs.append({"src": lin12, "chain": [{"m": "logged", "learner": {"kind": lk, "seed": 0}, "a": [z]}], "hist": [full, full, part(3), full, par]})
            cs.append({"src": lin12, "chain": [{"m": "logged", "learner": {"kind": "pmf", "tilt": 0.25}, "k": {"seed": z}}, {"m": "shuffle", "a": [0]}], "hist": [full, part(2), full, par]})
            cs.append({"src": lin12, "chain": [{"m": "logged", "learner": {"kind": "pmf"}, "a": [z]}, {"m": "cache"}], "hist": [full, {"op": "pickle", "on": 0}, {"op": "full", "on": 1}, full]})
            for st in ({"m": "shuffle", "a": [z]}, {"m": "shuffle", "k": {"seed": z}}, {"m": "riffle", "a": [2, z]}, {"m": "reservoir", "a": [5, z, False]},
                       {"m": "noise", "k": {"context": {"t": ["i", 0, 2]}, "reward": {"t": ["i", 0, 1]}, "seed": z}}, {"m": "grounded", "a": [3, 2, 4, 2, z]}):
                if isinstance(z, float) and st["m"] in ("shuffle", "reservoir", "grounded"):
                    continue        # these demand an int seed (ValueError / TypeError on construction)
                cs.append({"src": lin12, "chain": [st], "hist": [full, part(3), full, {"op": "pickle", "on": 0}, {"op": "full", "on": 1}, par]})
            cs.append({"src": dict(lin12, seed=z), "chain": [], "hist": [full, part(3), full, par]})
            cs.append({"src": dict(lam, n=12, seed=z), "chain": [], "hist": [full, part(3), full, par]})
        cs.append({"src": {"kind": "bandit", "n": 12, "n_actions": 3, "seed": 0}, "chain": [], "hist": [full, part(3), full, par]})
        # (g3) ONE large grounded environment: 2100 interactions x 4 actions = 8400 feedback evaluations per read, feedback objects held by a cache
        huge = dict(lam, n=2100, acts=[["x", "y", "z", "w"]], rwds=[[1, 0, 0.5, 0.25], [0, 1, 0.25, 0.5]])
        cs.append({"src": huge, "chain": [{"m": "grounded", "a": [4, 2, 5, 2, 3]}, {"m": "materialize"}], "hist": [full, part(3), full]})
        # (g4) plain dict rows (int keys / str keys) holding a Categorical, owned by the CALLER: X of from_supervised(X,Y), rows of a ListSource,
        # contexts handed out by a lambda; an abandoned read first (the first row decides whether anything is encoded), then complete reads
        lvc = ["red", "green", "blue"]
        for keys in ((0, 1), (7, 3)):
            Xd = [{"d": [[keys[0], float(i)], [keys[1], {"c": lvc[i % 3], "L": lvc}]]} for i in range(12)]
            Yd = ["ab"[i % 2] for i in range(12)]
            sxy = {"kind": "sup_xy", "X": Xd, "Y": Yd, "label_type": "c"}
            cs.append({"src": sxy, "chain": [], "hist": [part(4), full, full, par]})
            cs.append({"src": sxy, "chain": [], "hist": [full, full, par]})
            cs.append({"src": sxy, "chain": [{"m": "cache"}], "hist": [part(4), full, {"op": "pickle", "on": 0}, {"op": "full", "on": 1}, full]})
            cs.append({"src": sxy, "chain": [{"m": "repr", "a": ["onehot_tuple", "onehot"]}], "hist": [part(1), full, full]})
            cs.append({"src": {"kind": "sup_rows", "via": "list", "rows": [{"t": [Xd[i], Yd[i]]} for i in range(12)], "label_col": None, "label_type": "c", "take": None},
                       "chain": [], "hist": [part(4), full, full]})
            cs.append({"src": dict(lam, n=8, ctxs=Xd[:3]), "chain": [], "hist": [part(2), full, full]})
            cs.append({"src": dict(lam, n=8, ctxs=Xd[:3]), "chain": [{"m": "materialize"}, {"m": "shuffle", "a": [2]}], "hist": [part(2), full, full]})
        # sparse ACTIONS holding a Categorical (caller-owned dicts handed out by the lambda)
        cs.append({"src": dict(lam, n=8, acts=[[{"d": [[0, 1.0], [1, {"c": c, "L": lvc}]]} for c in lvc]], rwds=[[1, 0, 0.5]]), "chain": [], "hist": [part(2), full, full]})
        # ---- phase 4: pipelines with fitting-window filters predicted on content (Model/C11 through fitDen), identities through GStage
        fctx = [[1, 3.5], [2, -4], [4, 0.5], [8, 6], [-3, 2.25], [0.5, 7]]
        fnone = [[1, 3.5], [None, -4], [4, None], [8, 6], [None, 2.25], [0.5, 7]]
        fh = [{"op": "full"}, {"op": "partial", "k": 1}, {"op": "full"}, {"op": "partial", "k": 4}, {"op": "full"}]
        for hold in ([], [{"m": "cache"}], [{"m": "materialize"}]):
            for sc in (["min", "minmax", "context", None], [1, 2, "context", None], ["mean", "std", "context", 3], ["med", "iqr", "context", 2], [0, "maxabs", "context", 4], [-2, 0.5, "context", 1]):
                cs.append({"fit": {"ctxs": fctx, "chain": hold + [{"m": "scale", "a": sc}], "hist": fh}})
            for im in (["mean", True, None], ["median", False, 3], ["mode", True, 2], ["mean", False, None]):
                cs.append({"fit": {"ctxs": fnone, "chain": hold + [{"m": "impute", "a": im}], "hist": fh}})
            cs.append({"fit": {"ctxs": fnone, "chain": hold + [{"m": "impute", "a": ["mean", True, 3]}, {"m": "scale", "a": [1, 2, "context", 2]}, {"m": "params"}, {"m": "scale", "a": ["min", "minmax", "context", None]}], "hist": fh}})
            cs.append({"fit": {"ctxs": fctx, "chain": hold + [{"m": "scale", "a": [1, 2, "context", 2]}, {"m": "take", "a": [4]}], "hist": fh}})
            cs.append({"fit": {"ctxs": fctx, "chain": hold + [{"m": "params"}, {"m": "take", "a": [3]}], "hist": fh}})
            # phase 5: Noise on content, draws of CobaRandom(seed).randint through Model/C05
            for nz in ([0, 9, 1], [-3, 3, 0], [1, 1, 7], [-20, 50, 12345]):
                cs.append({"fit": {"ctxs": fnone, "chain": hold + [{"m": "noise", "a": nz}], "hist": fh}})
            cs.append({"fit": {"ctxs": fnone, "chain": hold + [{"m": "noise", "a": [0, 9, 3]}, {"m": "impute", "a": ["mean", True, 3]}, {"m": "scale", "a": [1, 2, "context", 2]}], "hist": fh}})
            cs.append({"fit": {"ctxs": fctx, "chain": hold + [{"m": "scale", "a": ["min", "minmax", "context", 2]}, {"m": "noise", "a": [-3, 3, 5]}, {"m": "noise", "a": [0, 1, 5]}, {"m": "take", "a": [4]}], "hist": fh}})
            # phase 5: scalar and sparse contexts through Scale / Impute, predicted by Model/C11 (`kind` scalar / sparse)
            fscal, fscaln = [1, 3.5, -4, 8, 0.5, 2.25], [1, None, -4, 8, None, 2.25]
            fsp = [{"d": [["a", 1], ["b", 3.5]]}, {"d": [["a", 2]]}, {"d": [["b", -4], ["c", 1]]}, {"d": [["a", 8], ["b", 6]]}, {"d": [["c", 2.25]]}, {"d": [["a", 0.5], ["b", 7]]}]
            for sc in (["min", "minmax", "context", None], [1, 2, "context", None], ["mean", "std", "context", 3], ["med", "iqr", "context", 2], [0, "maxabs", "context", 4], [-2, 0.5, "context", 1]):
                cs.append({"fit": {"ctxs": fscal, "chain": hold + [{"m": "scale", "a": sc}], "hist": fh}})
                if hold != [{"m": "cache"}]:
                    cs.append({"fit": {"ctxs": fsp, "chain": hold + [{"m": "scale", "a": sc}], "hist": fh}})
            for im in (["mean", True, None], ["median", False, 3], ["mode", True, 2], ["mean", False, None]):
                cs.append({"fit": {"ctxs": fscaln, "chain": hold + [{"m": "impute", "a": im}], "hist": fh}})
        # empty environments (EmptyCheck), densify lookup
        cs.append({"src": dict(lin, n=0), "chain": [], "hist": [full, full, par, {"op": "materialize", "on": 0}, {"op": "full", "on": 1}]})
        cs.append({"src": lin, "chain": [{"m": "take", "a": [0, False]}], "hist": [full, part(1), full]})
        cs.append({"src": lam, "chain": [{"m": "sparse", "a": [True, False]}, {"m": "dense", "a": [6, "lookup"], "k": {"context": True, "action": False}}],
                   "hist": [part(1), full, part(2), full, {"op": "materialize", "on": 0}, {"op": "full", "on": 1}]})
        return cs

    # ---- evaluation
    def evaluate(self, case, driver):
        quiet()
        tmp = tempfile.mkdtemp(prefix="c04_")
        try:
            return self._evaluate(case, driver, tmp)
        finally:
            shutil.rmtree(tmp, ignore_errors=True)
            quiet()

    def witness(self, case):
        """the concrete history of `shuffle_abandon_counterexample` (Props/C04.lean) replayed on the real code"""
        from coba.environments import Environments
        from coba.learners import RandomLearner
        quiet()
        fails = []
        base = full_read(Environments.from_linear_synthetic(5, 3, 2, 0, seed=3).logged(RandomLearner())[0])
        env = Environments.from_linear_synthetic(5, 3, 2, 0, seed=3).logged(RandomLearner()).shuffle(4)[0]
        r1 = full_read(env)
        r2, _ = partial_read(env, 2)
        r3 = full_read(env)
        seed = env.params.get("shuffle_seed")
        asis = (r1 == [base[i] for i in [2, 1, 3, 0, 4]] and r2 == r1[:2] and r3 == [base[i] for i in [4, 0, 3, 2, 1]] and seed == 4 * 3.21)
        fixed = (r1 == [base[i] for i in [2, 1, 3, 0, 4]] and r2 == r1[:2] and r3 == r1 and seed == 4)
        if not (asis or fixed):
            fails.append(F("A", "the witness of shuffle_abandon_counterexample behaves neither as the as-is model nor as the repaired model: orders %s / %s, seed %r"
                           % ([base.index(x) for x in r1], [base.index(x) for x in r3], seed), "A:witness-shuffle"))
        tags = ["witness:" + ("asis" if asis else "fixed" if fixed else "neither")]
        # breadth report: shortcut methods / filter classes of the tree under test the generator has no arguments for
        tags += ["not-covered:shortcut:" + n for n in shortcuts() if n not in HANDLED_SHORTCUTS]
        tags += ["covered:shortcuts:%d" % len([n for n in shortcuts() if n in HANDLED_SHORTCUTS])]
        return {"fails": fails, "nontrivial": True, "tags": tags, "impl": {"seed": seed}}

    def gen_fit(self, rng):
        n = rng.choice([1, 2, 3, 4, 5, 6, 8, 12])
        w = rng.randint(1, 3)
        impute = rng.chance(0.45)
        ctxs = []
        for i in range(n):
            row = [rng.randint(-16, 24) / rng.choice([1, 2, 4]) for _ in range(w)]
            if impute and i > 0 and rng.chance(0.4):
                row[rng.randint(0, w - 1)] = None
            ctxs.append(row)
        chain = []
        if rng.chance(0.6):
            chain.append({"m": rng.choice(["cache", "materialize"])})
        for _ in range(rng.choice([1, 1, 2, 3])):
            using = rng.choice([None, None, 1, 2, 3, n, n + 2])
            if impute and rng.chance(0.7):
                chain.append({"m": "impute", "a": [rng.choice(["mean", "median", "mode"]), rng.chance(0.5), using]})
            else:
                if rng.chance(0.35):
                    chain.append({"m": "impute", "a": ["mean", False, None]}) if impute and not any(st["m"] == "impute" for st in chain) else None
                chain.append({"m": "scale", "a": [rng.choice(["min", "mean", "med", 0, 1, -2, 0.5]), rng.choice(["minmax", "std", "iqr", "maxabs", 2, 0.5, 1]), "context", using]})
        if rng.chance(0.3):
            chain.insert(rng.randint(1, len(chain)) if chain[0]["m"] in ("cache", "materialize") else len(chain), {"m": "params"})
        if rng.chance(0.3):
            chain.append({"m": "take", "a": [rng.choice([0, 1, 2, n - 1, n, n + 1])]})
        hist = []
        for _ in range(rng.randint(2, 5)):
            hist.append({"op": "full"} if rng.chance(0.5) else {"op": "partial", "k": rng.choice([0, 1, 2, 3, n - 1, n, n + 1])})
        hist.append({"op": "full"})
        case = {"fit": {"ctxs": ctxs, "chain": chain, "hist": [h if h.get("k", 0) >= 0 else {"op": "partial", "k": 0} for h in hist]}}
        # phase 5: in 2 of 5 cases a Noise(context=('i', lo, hi), seed) stage; where and with what is a function of the case (crc32), so
        # the random stream of all other cases is what it was
        hsh = zlib.crc32(cjson(case).encode("utf-8"))
        if hsh % 5 < 2:
            lo, hi = [(0, 9), (-3, 3), (1, 1), (-20, 50), (0, 1), (5, 2)][(hsh >> 4) % 6]
            seed = [1, 0, 7, 3, 12345, -2, 2 ** 30 + 5][(hsh >> 8) % 7]
            first = 1 if chain and chain[0]["m"] in ("cache", "materialize") else 0
            last = len(chain) - (1 if chain and chain[-1]["m"] == "take" else 0)
            chain.insert(first + (hsh >> 12) % (last - first + 1), {"m": "noise", "a": [lo, hi, seed]})
        elif (hsh >> 16) % 3 == 0:
            # … and in a third of the others scalar contexts (first column), or — without Impute, which does not take them — sparse ones
            if (hsh >> 20) % 2 == 0 or impute:
                case["fit"]["ctxs"] = [c[0] for c in ctxs]
            else:
                case["fit"]["ctxs"] = [{"d": [["k%d" % j, v] for j, v in enumerate(c) if (i + j) % 3 != 2 or j == 0]} for i, c in enumerate(ctxs)]
        return case

    def fit_case(self, case, driver):
        """a from_lambda environment over caller-owned dense contexts -> [cache|materialize] -> Scale / Impute stages [-> params / take]:
        (B) every full read equals the first read of a freshly built pipeline, an abandoned read is its prefix, the caller's contexts and the
        contexts the holder hands out are unchanged; (A) the CONTEXTS of every read are the ones Model/C11 computes (`fitDen`, `demTake`),
        and which delivered context objects ARE held objects / new objects is what the aliasing model (`GStage`) says"""
        quiet()
        fc = case["fit"]
        chain = fc["chain"]
        fails, tags = [], ["fit-case", "fit-stages:%d" % sum(1 for st in chain if st["m"] in ("scale", "impute", "noise"))]
        tags += ["fit:" + st["m"] for st in chain]
        try:
            ref = [cint(i) for i in fit_build(fc)[0][0].read()]
            refctx = [fit_ctx(i) for i in fit_build(fc)[0][0].read()]
        except BaseException as e:
            if not trappable(e):
                raise
            return {"fails": [], "nontrivial": False, "tags": tags + ["ref-raises:" + errname(e)], "impl": {"err": errname(e)}}
        envs, ctxs = fit_build(fc)
        before = cjson(cv(ctxs))
        env = envs[0]
        reads = []
        for n_op, h in enumerate(fc["hist"]):
            try:
                if h["op"] == "full":
                    got = list(env.read())
                    seq, want, kind = [cint(i) for i in got], ref, "full"
                else:
                    it = iter(env.read())
                    got = []
                    for _ in range(h["k"]):
                        try:
                            got.append(next(it))
                        except StopIteration:
                            break
                    del it
                    gc.collect()
                    seq, want, kind = [cint(i) for i in got], ref[:h["k"]], "partial"
            except BaseException as e:
                if not trappable(e):
                    raise
                fails.append(F("B", "read %d (%s) of a pipeline with fitting-window filters %s raises %s: %s although the first read of a freshly built identical pipeline succeeds"
                               % (n_op, h["op"], [st["m"] for st in chain], errname(e), str(e)[:100]), "read-raises:fit:" + errname(e)))
                break
            reads.append([fit_ctx(i) for i in got])
            if seq != want:
                fails.append(F("B", "read %d (%s) of a pipeline with fitting-window filters %s differs from the read of a freshly built identical pipeline: "
                                    "contexts %s instead of %s" % (n_op, kind, [st["m"] for st in chain], str(reads[-1])[:120], str(refctx[:len(seq) or 1])[:120]),
                               "%s-differs:fit:%s" % (kind, diffkind(seq, want, prefix=False))))
                break
        if cjson(cv(ctxs)) != before:
            fails.append(F("B", "reading changed the context objects the caller's lambda hands out: %s -> %s" % (before[:100], cjson(cv(ctxs))[:100]), "source-modified:fit.ctxs"))
        # the objects a holder hands out, by identity: unchanged by reads of the whole pipeline
        hold = max([i for i, st in enumerate(chain) if st["m"] in ("cache", "materialize")], default=None)
        pattern = None
        fpatterns = {}          # phase 5: identities of the interaction dicts and of the reward objects
        if hold is not None and refctx:
            envs2, _ = fit_build(fc)
            henv, hpipe = envs2[0], FIT_HOLDER[0]
            try:
                hI, hI2 = list(hpipe[0].read()), list(hpipe[0].read())
                held = [i["context"] for i in hI]
                held2 = [i["context"] for i in hI2]
                if len(held) == len(held2) and all(a is b for a, b in zip(held, held2)) and all(isinstance(c, list) for c in held):
                    snap = cjson(cv(held))
                    full1, full2 = list(henv.read()), list(henv.read())
                    out1 = [i["context"] for i in full1]
                    out2 = [i["context"] for i in full2]
                    for fld, get in (("dict", lambda x: x), ("rewards", lambda x: x.get("rewards"))):
                        h1, h2 = [get(x) for x in hI], [get(x) for x in hI2]
                        # only when the holder hands out the SAME, pairwise distinct objects on every read (cache() copies the dicts: skipped there)
                        if len(h1) == len(h2) and all(a is b for a, b in zip(h1, h2)) and len({id(a) for a in h1}) == len(h1) and all(a is not None for a in h1):
                            fids = {id(c): j for j, c in enumerate(h1)}
                            fpatterns[fld] = [[fids.get(id(get(x))) for x in out] for out in (full1, full2)]
                    if cjson(cv(held)) != snap:
                        fails.append(F("B", "reading the pipeline %s changed the contexts held by %s(): %s -> %s" % ([st["m"] for st in chain], chain[hold]["m"], snap[:100], cjson(cv(held))[:100]),
                                       "held-data-modified:fit:" + chain[hold]["m"]))
                    ids = {id(c): j for j, c in enumerate(held)}
                    pattern = [[ids.get(id(c)) for c in out] for out in (out1, out2)]
                    tags.append("alias-id:observed")
                else:
                    tags.append("alias-id:holder-hands-out-fresh-objects")
            except BaseException as e:
                if not trappable(e):
                    raise
                tags.append("alias-id:not-run:" + errname(e))
        model = None
        if driver is not None and not fails:
            stages = [st for st in chain if st["m"] in ("scale", "impute", "noise")]
            take = [st["a"][0] for st in chain if st["m"] == "take"]
            dense = all(isinstance(c, list) for c in ctxs)
            sparse = bool(ctxs) and all(isinstance(c, dict) for c in ctxs)
            scalar = bool(ctxs) and all(c is None or (isinstance(c, (int, float)) and not isinstance(c, bool)) for c in ctxs)
            # Noise is modelled on dense rows only (`mapCtxs`)
            if (dense or ((sparse or scalar) and not any(st["m"] == "noise" for st in stages))) and (not take or chain[-1]["m"] == "take"):
                kind = "dense" if dense else "sparse" if sparse else "scalar"
                rows_req = ([[fit_enc(v) for v in c] for c in ctxs] if dense else [[[str(k), fit_enc(v)] for k, v in c.items()] for c in ctxs] if sparse
                            else [fit_enc(c) for c in ctxs])
                req = {"fit": {"kind": kind, "rows": rows_req, "stages": [fit_stage_req(st) for st in stages],
                               "reads": ["all" if h["op"] == "full" else h["k"] for h in fc["hist"]]}}
                model = driver.ask(req)
                tags.append("fit-kind:" + kind)

                def same_row(r, m, mk):
                    if mk == "dense":          # (a scalar context with an Impute indicator becomes the list [value, indicator])
                        return isinstance(r, list) and len(r) == len(m) and all(fit_close(x, y) for x, y in zip(r, m))
                    if mk == "scalar":
                        return not isinstance(r, (list, dict)) and fit_close(r, m)
                    md = {k: v for k, v in m}
                    return isinstance(r, dict) and sorted(str(k) for k in r) == sorted(md) and all(fit_close(v, md[str(k)]) for k, v in r.items())
                for n_op, (h, real, mod) in enumerate(zip(fc["hist"], reads, model["reads"])):
                    rows = mod["rows"][:take[0]] if take else mod["rows"]
                    ok = len(rows) == len(real) and all(same_row(r, m, mod.get("kind", kind)) for r, m in zip(real, rows))
                    if not ok:
                        fails.append(F("A", "read %d (%s): the contexts delivered through %s differ from Model/C11's prediction: real %s, model %s"
                                       % (n_op, h["op"], [st["m"] + str(st.get("a", "")) for st in chain], str(real)[:160], str(rows)[:200]), "A:fit-content" + ("" if kind == "dense" else ":" + kind)))
                        break
                else:
                    tags.append("A:fit-content-model")
                    if any(st["m"] == "noise" for st in stages):
                        tags.append("A:noise-on-content-model")
            if pattern is not None and hold is not None:
                st_req = ["share"]
                for st in chain[hold + 1:]:
                    st_req.append("alloc" if st["m"] in ("scale", "impute", "noise") else {"take": st["a"][0]} if st["m"] == "take" else "share")
                ans = driver.ask({"galias": {"n": len(ctxs), "stages": st_req}})
                if [ans["pattern1"], ans["pattern2"]] != pattern or not ans["heldUnchanged"]:
                    fails.append(F("A", "object identities: through %s the delivered contexts are held objects / new objects %s (two reads), the aliasing model says %s"
                                   % ([st["m"] for st in chain], pattern, [ans["pattern1"], ans["pattern2"]]), "A:alias-identities"))
                else:
                    tags.append("A:alias-identities-model")
            if hold is not None:
                # the same aliasing model for the interaction dicts (every rewriting filter works on `interaction.copy()`: alloc; Params hands the dict on) and for the
                # reward objects (Scale / Impute / Params hand them on: share; Noise builds new ones: alloc); take = pick of the first k
                kinds = {"dict": {"scale": "alloc", "impute": "alloc", "noise": "alloc", "params": "share"},
                         "rewards": {"scale": "share", "impute": "share", "noise": "alloc", "params": "share"}}
                for fld, pat in sorted(fpatterns.items()):
                    st_req = ["share"] + [({"take": st["a"][0]} if st["m"] == "take" else kinds[fld][st["m"]]) for st in chain[hold + 1:]]
                    ans = driver.ask({"galias": {"n": len(ctxs), "stages": st_req}})
                    if [ans["pattern1"], ans["pattern2"]] != pat:
                        fails.append(F("A", "object identities of the %s: through %s the delivered objects are held objects / new objects %s (two reads), the aliasing model says %s"
                                       % ("interaction dicts" if fld == "dict" else "reward objects", [st["m"] for st in chain], pat, [ans["pattern1"], ans["pattern2"]]), "A:alias-identities:" + fld))
                    else:
                        tags.append("A:alias-identities-%s-model" % fld)
        nontrivial = len(ref) > 0 and any(h["op"] == "partial" for h in fc["hist"][:-1]) or len(fc["hist"]) >= 2 and len(ref) > 0
        return {"fails": fails, "nontrivial": nontrivial, "tags": tags, "impl": {"reads": [str(r)[:80] for r in reads]}, "model": model and {"pulled": model.get("pulled")}}

    def memo_case(self, case, driver):
        """`Grounded.GroundedFeedback` instances evaluated directly: (B) re-evaluating the pairs of a read gives the words of the
        first time; (A) the words are the ones the memo model draws (CobaRandom(seed).choice through Model/C05)"""
        from coba.environments.filters import Grounded
        quiet()
        mc = case["memo"]
        goods = [(g,) for g in range(mc["ngood"])]
        bads = [(b,) for b in range(mc["ngood"], mc["ngood"] + mc["nbad"])]
        insts = []
        for it in mc["insts"]:
            insts.append(Grounded.GroundedFeedback(goods, bads, it["argmax"], it["seed"]) if it["normal"]
                         else Grounded.GroundedFeedback(bads, goods, it["argmax"], it["seed"]))
        real = [[insts[i](a)[0] for i, a in q] for q in mc["reads"]]
        fails, tags = [], ["memo-case", "memo-evals:%s" % (">256" if max(len(q) for q in mc["reads"]) > 256 else "<=256")]
        first = {}
        for r, q in enumerate(mc["reads"]):
            for (i, a), v in zip(q, real[r]):
                if first.setdefault((i, a), v) != v:
                    fails.append(F("B", "GroundedFeedback instance %d evaluated on action %d gave word %d in read %d but %d the first time "
                                        "(feedbacks of an interaction change between reads)" % (i, a, v, r, first[(i, a)]), "feedback-not-stable"))
                    break
            if fails:
                break
        model = None
        if driver is not None:
            req = {"memo": {"cap": None, "insts": [{"seed": {"int": it["seed"]}, "ngood": mc["ngood"], "nbad": mc["nbad"], "argmax": it["argmax"], "normal": it["normal"]}
                                                     for it in mc["insts"]], "reads": [[list(p) for p in q] for q in mc["reads"]]}}
            model = driver.ask(req)["values"]
            if model != real:
                fails.append(F("A", "GroundedFeedback words differ from the memo model: real %s, model %s" % (str(real)[:120], str(model)[:120]), "A:memo"))
            else:
                tags.append("A:memo-model")
        return {"fails": fails, "nontrivial": len(mc["reads"]) >= 2, "tags": tags, "impl": {"reads": [r[:8] for r in real]}, "model": model and [r[:8] for r in model]}

    def _evaluate(self, case, driver, tmp):
        if "witness" in case:
            return self.witness(case)
        if "memo" in case:
            return self.memo_case(case, driver)
        if "fit" in case:
            return self.fit_case(case, driver)
        fails = []
        msrc = member_src(case)
        tags = ["src:" + msrc["kind"] + (":" + msrc.get("fmt", msrc.get("via", "")) if msrc["kind"] in ("sup_file", "sup_rows", "result") else "")]
        for st in case.get("chain", []):
            tags.append("m:" + st["m"] + (":" + st["f"]["cls"] if st["m"] == "filter" else ""))
        for h in case["hist"]:
            tags.append("op:" + h["op"])
        tags.append("chainlen:%d" % len(case.get("chain", [])))
        probe0 = LAST_PROBE.get("p") or default_probe()       # nothing runs in this process between two cases
        raw, t2, info = monitor(case, tmp)
        tags += t2
        probe1 = default_probe()
        LAST_PROBE["p"] = probe1
        if probe0 != probe1:
            ks = sorted(k for k in probe0 if probe0[k] != probe1.get(k))
            f = F("B", "after this case a FRESH environment built with the constructor's defaults (%s) yields other interactions / params than before it: "
                       "reading modified an object shared between environments (e.g. a mutable default argument)" % ", ".join(ks), "shared-default-modified:" + ",".join(ks))
            fails.append(f)
        if is_multi(case):
            tags.append("collection:%d" % (1 + len(case.get("sibs") or []) + (1 if case["src"].get("twin") else 0)))
        if case["src"].get("twin"):
            tags.append("twin-over-one-source")
        if raw is None:
            return {"fails": [], "nontrivial": False, "tags": tags, "impl": info}
        if raw:
            fails += self.attribute(case, raw, tmp)
        nobs = sum(1 for h, o in zip(case["hist"], info["outs"]) if ("full" in o) or ("params" in o and o.get("after_read")))
        changing = any(h["op"] in DERIVE or h["op"] == "partial" for h in case["hist"][:-1])
        nontrivial = info["ref_len"] > 0 and nobs >= 2 and changing
        tags.append("reflen:%s" % ("0" if info["ref_len"] == 0 else "1-25" if info["ref_len"] <= 25 else "26-50" if info["ref_len"] <= 50 else ">50"))
        impl = {"ref_len": info["ref_len"], "outs": [self.brief(o) for o in info["outs"]]}
        model = None
        if driver is not None and not any(t.startswith("unsupported:") for t in tags):
            model = self.correspondence(case, info, fails, tags, driver, tmp)
            try:
                if "held-data-check" in tags:
                    self.alias_tie(case, info, fails, tags, driver)
                if case.get("chain") and case["chain"][-1]["m"] == "grounded" and info["ref_len"] > 0:
                    self.grounded_pipeline(case, fails, tags, driver, tmp)
                if zlib.crc32(cjson(case).encode("utf-8")) % 3 == 0:       # a fixed third of the cases (a function of the case, not of the stream)
                    self.state_tie(case, fails, tags, driver, tmp)
                    self.abandon_tie(case, fails, tags, driver, tmp)
            except BaseException as e:
                if not trappable(e):
                    raise
                tags.append("A:extra-not-run:" + errname(e))
        return {"fails": fails, "nontrivial": nontrivial, "tags": tags, "impl": impl, "model": model}

    def grounded_pipeline(self, case, fails, tags, driver, tmp):
        """a pipeline that ends with grounded(): user ids, normal flags and every feedback word of a fresh read are PREDICTED by the
        memo model (user draw and word draws through Model/C05) from the seed and the position of the best action only"""
        g = case["chain"][-1]
        n_users, n_normal, n_words, n_good, gseed = [dv(x) for x in g["a"]]
        envs, _ = build(case, tmp)
        items = list(envs[member_of(case)].read())
        if not items or any(not isinstance(it.get("actions"), (list, tuple)) or not callable(it.get("feedbacks")) for it in items):
            return
        insts, reads, real, uids, normals = [], [], [], [], []
        for t, it in enumerate(items):
            acts = it["actions"]
            vals = [it["rewards"](a) if callable(it["rewards"]) else it["rewards"][i] for i, a in enumerate(acts)]
            insts.append({"seed": {"int": gseed + t}, "ngood": n_good, "nbad": n_words - n_good, "argmax": max(range(len(acts)), key=lambda i: vals[i]), "normal": True})
            reads += [[t, i] for i in range(len(acts))]
            real += [it["feedbacks"](a)[0] for a in acts]
            uids.append(it.get("userid"))
            normals.append(bool(it.get("isnormal")))
        ans = driver.ask({"memo": {"cap": None, "insts": insts, "reads": [reads], "users": {"seed": {"int": gseed}, "n": n_users, "normal": n_normal}}})
        if ans["values"] != [real] or ans["userids"] != uids or ans["normals"] != normals:
            fails.append(F("A", "grounded(): feedback words / users of a fresh read differ from the memo model: words %s vs %s, users %s vs %s"
                           % (real[:10], ans["values"][0][:10], uids[:8], ans["userids"][:8]), "A:grounded-pipeline"))
        else:
            tags.append("A:grounded-pipeline-model")

    def alias_tie(self, case, info, fails, tags, driver):
        """the aliasing model (every stage behind the holder copies before it writes) against the object-identity snapshots"""
        chain = case.get("chain", [])
        hold = max(i for i, st in enumerate(chain) if st["m"] in ("cache", "materialize", "chunk", "save") or (st["m"] == "filter" and st["f"]["cls"] == "Cache"))
        ans = driver.ask({"alias": {"stages": ["share"] + ["copy"] * (len(chain) - hold - 1), "store": [3, 5, 8], "held": [0, 1, 2], "mul": 2}})
        model_unchanged = ans["heldAfter1"] == [3, 5, 8] and ans["heldAfter2"] == [3, 5, 8] and ans["first"] == ans["second"]
        if model_unchanged != (not info.get("held_changed")):
            fails.append(F("A", "aliasing: the model (copying stages) leaves the held objects unchanged, the implementation changed them", "A:alias"))
        else:
            tags.append("A:alias-model")

    def correspondence(self, case, info, fails, tags, driver, tmp):
        """(A) implementation = model on every observation of the history; (C) model = spec"""
        try:
            quiet()
            req, I, staged, asis_ok, dinfo = describe(case, tmp, len(case["hist"]) + 3, info.get("srcpost"))
        except BaseException as e:
            if not trappable(e):
                raise
            tags.append("A:not-staged:" + errname(e))
            return None
        if staged != I.items(info["ref"]):
            tags.append("A:staged-differs")     # the pipeline is not the composition of its pipes on materialised lists
            return None
        nmem = dinfo["members"]
        hist, where = model_ops(case, nmem)
        ans = driver.ask(dict(req, variant="fixed", hist=hist))
        model = ans["model"]
        if dinfo["nreal"]:
            tags.append("A:real-filters:%d" % min(dinfo["nreal"], 4))
        if dinfo.get("fin_content"):
            tags.append("A:finalize-as-function")
        if dinfo.get("ncontent"):
            tags.append("A:content-filters:%d" % min(dinfo["ncontent"], 3))
        if nmem > 1:
            tags.append("A:collection-in-model")
        den = ans["dens"][member_of(case) if nmem > 1 else 0]
        # (C) run-time sanity of the theorems: when their hypotheses hold the model's reads are the denotation
        if ans["hyp"]:
            for i, h in enumerate(case["hist"]):
                m = model[where[i]] if not isinstance(where[i], list) else None
                if h["op"] == "full" and isinstance(m, dict) and m.get("items") != den:
                    fails.append(F("C", "model: a full read differs from the denotation although the hypotheses of `reread` hold", "C:reread"))
                if h["op"] == "partial" and isinstance(m, dict) and m.get("items") != den[:len(m.get("items", []))]:
                    fails.append(F("C", "model: an abandoned read is not a prefix of the denotation", "C:reread-prefix"))
            tags.append("hyp:reread")
        else:
            tags.append("hyp:not-good")
        diffs = compare_model(case, info["outs"], model, where, I)
        # save(): the number of batches written (1000 interactions each) against the model's `saveBatches`, which `load_save_batches` inverts
        for o in info["outs"]:
            if o.get("derived") == "save" and o.get("nbatches") is not None and ans.get("hyp") and not diffs:
                if o["nbatches"] != ans["saveBatches"][member_of(case) if nmem > 1 else 0] or not ans.get("saveRoundTrip"):
                    diffs.append((0, "save() wrote %s batches, the model %s" % (o["nbatches"], ans["saveBatches"])))
                else:
                    tags.append("A:save-batches")
                break
        # caller-owned objects: the model's heap cells after the history against the snapshot taken after the real history
        after = info.get("snap_after") or {}
        real_cells = [[I.tok("caller", k, after.get(k))] for k in dinfo["caller_keys"]]
        if ans.get("caller") != real_cells and not diffs:
            ks = [k for k, a, b in zip(dinfo["caller_keys"], ans.get("caller", []), real_cells) if a != b]
            diffs.append((len(case["hist"]) - 1, "caller-owned objects %s differ from the model's heap cells after the history" % ks))
        if not diffs:
            tags.append("A:fixed-variant")
            return {"variant": "fixed", "outs": model[:12]}
        # the code as it is (recorded findings not yet repaired in the tree under test)
        amodel = None
        if asis_ok:
            aans = driver.ask(dict(asis_request(req, case), hist=hist))
            amodel = aans["model"]
            adiffs = compare_model(case, info["outs"], amodel, where, I)
            if not adiffs:
                tags.append("A:asis-variant")
                return {"variant": "asis", "outs": amodel[:12]}
        if not asis_ok:
            # an as-is stateful stage (logged Shuffle) is followed by a filter whose laziness is not declared:
            # the as-is model cannot say how far that filter drives it (e.g. Slice never exhausts it)
            tags.append("A:asis-laziness-undeclared")
            return {"variant": "none", "outs": model[:12]}
        known = open_known_sigs()
        if fails and all(f["kind"] == "B" and f["sig"] in known for f in fails):
            tags.append("A:skipped-known-finding")
            return {"variant": "none", "outs": model[:12]}
        i, what = diffs[0]
        cls = case["hist"][i]["op"]
        fails.append(F("A", "history step %d: %s" % (i, what), "A:" + cls))
        return {"variant": "mismatch", "outs": model[:12], "asis": amodel[:12] if amodel else None}

    def brief(self, o):
        if "full" in o:
            return {"full": len(o["full"])}
        if "partial" in o:
            return {"partial": len(o["partial"]), "exhausted": o["exhausted"]}
        if "params" in o:
            return {"params": o["params"], "after_read": o["after_read"]}
        return {k: v for k, v in o.items() if k != "tb"}

    def attribute(self, case, raw, tmp):
        """turn raw failures into F records; a failure that vanishes under the proposed repairs is
        attributed to exactly the repairs it needs (signature of the recorded finding)"""
        need = None
        try:
            with Patches(KNOWN_PATCHES):
                quiet()
                raw_all, _, _ = monitor(case, tmp)
            if raw_all is not None and not raw_all:
                need = list(KNOWN_PATCHES)
                for p in list(need):
                    trial = [q for q in need if q != p]
                    with Patches(trial):
                        quiet()
                        r2, _, _ = monitor(case, tmp)
                    if r2 is not None and not r2:
                        need = trial
        except BaseException as e:
            if not trappable(e):
                raise
            need = None
        what = "; ".join(r[2] for r in raw[:3])
        if need:
            return [F("B", "%s  [disappears with the repair %s]" % (what, p), PATCH_SIG[p]) for p in need]
        out = []
        seen = set()
        for kind, detail, msg in raw:
            sig = "%s:%s" % (kind, detail)
            if sig in seen:
                continue
            seen.add(sig)
            out.append(F("B", msg, sig))
        return out

    # ---- shrinking
    def shrink(self, case):
        if "witness" in case or "memo" in case:
            return
        if "fit" in case:
            fc = case["fit"]
            for k in range(len(fc["hist"])):
                if len(fc["hist"]) > 1:
                    yield {"fit": dict(fc, hist=fc["hist"][:k] + fc["hist"][k + 1:])}
            for k in range(len(fc["chain"])):
                yield {"fit": dict(fc, chain=fc["chain"][:k] + fc["chain"][k + 1:])}
            if len(fc["ctxs"]) > 1:
                yield {"fit": dict(fc, ctxs=fc["ctxs"][:-1])}
            return
        hist = case["hist"]
        chain = case.get("chain", [])
        for k in range(len(hist)):
            h2 = hist[:k] + hist[k + 1:]
            if hist[k]["op"] in DERIVE:
                continue
            if h2:
                yield dict(case, hist=h2)
        for k in range(len(chain)):
            yield dict(case, chain=chain[:k] + chain[k + 1:])
        if case.get("sibs") and len(case["sibs"]) > 1:
            for k in range(len(case["sibs"])):
                m = case.get("member", 0)
                if m - 1 == k:
                    continue
                sibs = case["sibs"][:k] + case["sibs"][k + 1:]
                shift = lambda i: i - 1 if i > k + 1 else i
                h2 = [dict(h, i=shift(h["i"])) if h["op"] == "sib" else h for h in hist if not (h["op"] == "sib" and h["i"] == k + 1)]
                yield dict(case, sibs=sibs, member=shift(m), hist=h2)
        src = case["src"]
        if isinstance(src.get("n"), int) and src["n"] > 1:
            for n in (src["n"] // 2, src["n"] - 1):
                yield dict(case, src=dict(src, n=n))
        for key in ("X", "rows"):
            if key in src and len(src[key]) > 1:
                half = len(src[key]) // 2
                s2 = dict(src)
                s2[key] = src[key][:half]
                if key == "X":
                    s2["Y"] = src["Y"][:half]
                yield dict(case, src=s2)
        for k, h in enumerate(hist):
            if h["op"] == "partial" and h["k"] > 1:
                yield dict(case, hist=hist[:k] + [dict(h, k=h["k"] // 2)] + hist[k + 1:])

    def snippet(self, case):
        if "witness" in case:
            return "see Props/C04.lean shuffle_abandon_counterexample"
        if "memo" in case:
            return "see harness/props/c04.py C04.memo_case (Grounded.GroundedFeedback instances evaluated directly)"
        if "fit" in case:
            fc = case["fit"]
            calls = "".join(".%s(%s)" % (st["m"], "{'p':1}" if st["m"] == "params" else ", ".join(repr(dv(a)) for a in st.get("a", []))) for st in fc["chain"])
            return ("import sys; sys.path.insert(0, '/repo')\nfrom coba.environments import Environments\n"
                    "ctxs = %r\nmake = lambda: Environments.from_lambda(len(ctxs), lambda i: ctxs[i], lambda i, c: [1, 2, 3], lambda i, c, a: (a + i) %% 3 / 2)%s[0]\n"
                    "ref = [i['context'] for i in make().read()]\nenv = make()\n"
                    "for h in %r:\n"
                    "    it = iter(env.read()); got = [i['context'] for i in (it if h['op'] == 'full' else (x for _, x in zip(range(h['k']), it)))]; del it\n"
                    "    print(h, 'same as a fresh read' if got == (ref if h['op'] == 'full' else ref[:h['k']]) else ('DIFFERENT', got))\n"
                    "print('caller contexts now:', ctxs)\n" % ([dv(c) for c in fc["ctxs"]], calls, fc["hist"]))
        return ("import sys, json, tempfile; sys.path[:0] = ['/repo', '/verif/harness']\n"
                "from props import c04\ncase = json.loads(%r)\nc04.quiet(); tmp = tempfile.mkdtemp()\n"
                "ref, refp = c04.reference(case, tmp)\nouts, before, after = c04.run_history(case, tmp)\n"
                "for h, o in zip(case['hist'], outs):\n"
                "    print(h, 'same as a fresh read' if o.get('full') == ref else ('DIFFERENT from a fresh read' if 'full' in o else {k: v for k, v in o.items() if k not in ('partial','tb')}))\n"
                "print('caller data unchanged:', before == after)\n"
                "if case.get('xproc'): print('other interpreters (PYTHONHASHSEED 1,2,3):', c04.xproc_check(case, tmp, ref, []) or 'same reads')\n" % json.dumps(case))


PROPERTY = C04()
