"""A small exact stand-in for the part of numpy that coba/learners/linucb.py and lints.py use (numpy is not installed in
/venv, so without it the real LinUCB/LinTS code cannot run at all).  Vectors and matrices are lists of exact
`fractions.Fraction`s (ints and floats are converted exactly), so a history of predict/learn calls on the REAL learner is
reproduced bit for bit by the Lean model over Q (`LinState.learn`, `LinState.score`).  Only `sqrt` leaves Q (math.sqrt).

Provided: zeros, identity, array (+ .T), `@` (vec@vec, vec@mat, mat@vec, mat@mat), einsum('ij,ij->j'), sqrt, outer, amax,
where, elementwise + - * / ==, .round(n), random.default_rng(seed).multivariate_normal (only reachable for LinTS with v != 0:
not supported, raises NotImplementedError).  `install()` / `uninstall()` put the module into sys.modules as `numpy`."""
import importlib.machinery
import math
import sys
import types
from fractions import Fraction
from numbers import Rational


def _q(x):
    if isinstance(x, (Vec, Mat)):
        return x
    if isinstance(x, bool):
        return Fraction(int(x))
    if isinstance(x, Rational):
        return Fraction(x)
    if isinstance(x, float):
        return Fraction(x) if math.isfinite(x) else x
    raise TypeError("c20_numpy: unsupported scalar %r" % (x,))


class Num(Fraction):
    """an exact scalar with numpy's .round"""
    def round(self, n=0):
        return Num(round(Fraction(self), n))


class F64(float):
    def round(self, n=0):
        return F64(round(float(self), n))


def _scalar(x):
    return F64(x) if isinstance(x, float) else Num(x)


def _ew(op, a, b):
    """elementwise op with scalar broadcasting"""
    if isinstance(a, Mat) or isinstance(b, Mat):
        ra = a.rows if isinstance(a, Mat) else None
        rb = b.rows if isinstance(b, Mat) else None
        n = len(ra if ra is not None else rb)
        if ra is not None and rb is not None and len(ra) != len(rb):
            raise ValueError("c20_numpy: shapes differ")
        return Mat([_ew(op, Vec(ra[i], raw=True) if ra is not None else a, Vec(rb[i], raw=True) if rb is not None else b).xs for i in range(n)])
    if isinstance(a, Vec) and isinstance(b, Vec):
        if len(a.xs) != len(b.xs):
            raise ValueError("operands could not be broadcast together with shapes (%d,) (%d,)" % (len(a.xs), len(b.xs)))
        return Vec([op(x, y) for x, y in zip(a.xs, b.xs)], raw=True)
    if isinstance(a, Vec):
        b = _q(b)
        return Vec([op(x, b) for x in a.xs], raw=True)
    a = _q(a)
    return Vec([op(a, y) for y in b.xs], raw=True)


class _Arr:
    __array_priority__ = 100
    __hash__ = None

    def __add__(self, o): return _ew(lambda x, y: x + y, self, o)
    def __radd__(self, o): return _ew(lambda x, y: x + y, o, self)
    def __sub__(self, o): return _ew(lambda x, y: x - y, self, o)
    def __rsub__(self, o): return _ew(lambda x, y: x - y, o, self)
    def __mul__(self, o): return _ew(lambda x, y: x * y, self, o)
    def __rmul__(self, o): return _ew(lambda x, y: x * y, o, self)
    def __truediv__(self, o): return _ew(lambda x, y: x / y, self, o)
    def __neg__(self): return _ew(lambda x, y: x * y, self, -1)
    def __eq__(self, o): return _ew(lambda x, y: x == y, self, o)


class Vec(_Arr):
    def __init__(self, xs, raw=False):
        self.xs = list(xs) if raw else [_q(x) for x in xs]

    @property
    def T(self): return self
    @property
    def shape(self): return (len(self.xs),)
    @property
    def ndim(self): return 1
    def __len__(self): return len(self.xs)
    def __iter__(self): return iter(self.xs)
    def __getitem__(self, i): return self.xs[i]
    def __repr__(self): return "Vec(%r)" % ([str(x) for x in self.xs],)
    def tolist(self): return list(self.xs)
    def round(self, n=0): return Vec([round(x, n) for x in self.xs], raw=True)

    def __matmul__(self, o):
        if isinstance(o, Vec):
            if len(o.xs) != len(self.xs):
                raise ValueError("matmul: size %d is different from %d" % (len(o.xs), len(self.xs)))
            return Num(sum((x * y for x, y in zip(self.xs, o.xs)), Fraction(0)))
        if isinstance(o, Mat):      # row vector times matrix
            if len(o.rows) != len(self.xs):
                raise ValueError("matmul: size %d is different from %d" % (len(o.rows), len(self.xs)))
            k = o.ncols
            return Vec([sum((self.xs[i] * o.rows[i][j] for i in range(len(self.xs))), Fraction(0)) for j in range(k)], raw=True)
        return NotImplemented


class Mat(_Arr):
    def __init__(self, rows, ncols=None):
        self.rows = [[_q(x) for x in r] for r in rows]
        if len(set(len(r) for r in self.rows)) > 1:
            raise ValueError("c20_numpy: inhomogeneous shape")
        self.ncols = len(self.rows[0]) if self.rows else (ncols or 0)

    @property
    def T(self):
        return Mat([[r[j] for r in self.rows] for j in range(self.ncols)], ncols=len(self.rows))
    @property
    def shape(self): return (len(self.rows), self.ncols)
    @property
    def ndim(self): return 2
    def __len__(self): return len(self.rows)
    def __iter__(self): return iter(Vec(r, raw=True) for r in self.rows)
    def __getitem__(self, i): return Vec(self.rows[i], raw=True)
    def __repr__(self): return "Mat(%r)" % ([[str(x) for x in r] for r in self.rows],)
    def tolist(self): return [list(r) for r in self.rows]

    def __matmul__(self, o):
        if isinstance(o, Vec):
            if self.ncols != len(o.xs):
                raise ValueError("matmul: size %d is different from %d" % (len(o.xs), self.ncols))
            return Vec([sum((a * b for a, b in zip(r, o.xs)), Fraction(0)) for r in self.rows], raw=True)
        if isinstance(o, Mat):
            if self.ncols != len(o.rows):
                raise ValueError("matmul: size %d is different from %d" % (len(o.rows), self.ncols))
            return Mat([[sum((r[i] * o.rows[i][j] for i in range(self.ncols)), Fraction(0)) for j in range(o.ncols)] for r in self.rows], ncols=o.ncols)
        return NotImplemented


def zeros(d): return Vec([Fraction(0)] * d, raw=True)
def identity(d): return Mat([[Fraction(int(i == j)) for j in range(d)] for i in range(d)], ncols=d)


def array(x):
    if isinstance(x, (Vec, Mat)):
        return x
    x = list(x)
    if x and all(isinstance(r, (list, tuple, Vec)) for r in x):
        return Mat([list(r) for r in x])
    if any(isinstance(r, (list, tuple, dict, str)) for r in x):
        raise ValueError("c20_numpy: inhomogeneous or non-numeric array %r" % (x,))
    return Vec(x)


def einsum(spec, a, b):
    if spec.replace(" ", "") != "ij,ij->j" or not (isinstance(a, Mat) and isinstance(b, Mat)) or a.shape != b.shape:
        raise NotImplementedError("c20_numpy.einsum(%r) on %r, %r" % (spec, getattr(a, "shape", None), getattr(b, "shape", None)))
    return Vec([sum((a.rows[i][j] * b.rows[i][j] for i in range(len(a.rows))), Fraction(0)) for j in range(a.ncols)], raw=True)


def sqrt(x):
    if isinstance(x, Vec):
        return Vec([math.sqrt(v) for v in x.xs], raw=True)
    return F64(math.sqrt(x))


def outer(u, v): return Mat([[a * b for b in array(v).xs] for a in array(u).xs], ncols=len(array(v).xs))
def amax(v): return _scalar(max(array(v).xs))
def where(cond): return ([i for i, b in enumerate(array(cond).xs) if b],)
def diagonal(m): return Vec([m.rows[i][i] for i in range(min(len(m.rows), m.ncols))], raw=True)


class _Rng:
    def __init__(self, seed=None): self.seed = seed

    def multivariate_normal(self, mean, cov, method=None, **kw):
        raise NotImplementedError("c20_numpy: multivariate_normal (LinTS with v != 0) is not provided by the exact stand-in")


def module():
    m = types.ModuleType("numpy")
    m.__spec__ = importlib.machinery.ModuleSpec("numpy", None)
    m.__c20_standin__ = True
    for k in ("zeros", "identity", "array", "einsum", "sqrt", "outer", "amax", "where", "diagonal", "Vec", "Mat"):
        setattr(m, k, globals()[k])
    m.ndarray = _Arr
    m.random = types.SimpleNamespace(default_rng=_Rng)
    return m


class installed:
    """`with installed():` numpy is the exact stand-in; whatever was there before is restored afterwards"""
    def __enter__(self):
        self.saved = sys.modules.get("numpy")
        self.mod = module()
        sys.modules["numpy"] = self.mod
        return self.mod

    def __exit__(self, *a):
        if self.saved is None:
            sys.modules.pop("numpy", None)
        else:
            sys.modules["numpy"] = self.saved
