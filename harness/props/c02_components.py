"""Recording components for the C02 check (importable module, so that coba's multi-process
path can pickle them with plain pickle).  Nothing here imports the harness.

Every component is a pure function of its small integer key `k` (and of the spec given at
construction); evaluating a triple appends one line "e l v" (the *keys*, which equal the ids the
experiment assigns because every object is distinct and given in order) to the side-channel file
named by `trace`, using O_APPEND so that concurrent processes never tear each other's lines.
"""
import os


def _trace(path, text):
    if not path:
        return
    fd = os.open(path, os.O_WRONLY | os.O_APPEND | os.O_CREAT, 0o644)
    try:
        os.write(fd, (text + "\n").encode())
    finally:
        os.close(fd)


def blob(size, *seed):
    """deterministic, poorly compressible text of `size` characters (hex digits with a few quotes, brackets and
    backslashes mixed in, so that a torn tail inside it still exercises JSON string escaping)"""
    import hashlib
    out, n, i = [], 0, 0
    while n < size:
        h = hashlib.sha256(("%r/%d" % (seed, i)).encode()).hexdigest()
        if i % 17 == 5:
            h = h[:30] + '"]\\[{' + h[36:]
        out.append(h)
        n += len(h)
        i += 1
    return "".join(out)[:size]


class Env:
    """n interactions with 2-3 actions; params vary in shape with k"""

    def __init__(self, k, n, pstyle=0):
        self.k, self.n, self.pstyle = k, n, pstyle

    @property
    def params(self):
        p = {"ek": self.k}
        if self.pstyle == 1:
            p["tag"] = "envé%d" % self.k          # non-ASCII: json escapes it
        elif self.pstyle == 2:
            p["shape"] = [self.k, self.n]              # list -> tuple on decode
        elif self.pstyle == 3:
            p["text"] = "a\nb\r\"q\"\\%d" % self.k     # control characters must be escaped in the log
        return p

    def read(self):
        from coba.primitives import SimulatedInteraction
        for i in range(self.n):
            yield SimulatedInteraction((i + self.k) % 3, [0, 1, 2], [(i + self.k + a) % 3 / 2 for a in range(3)])


class Lrn:
    def __init__(self, k, pstyle=0):
        self.k, self.pstyle = k, pstyle

    @property
    def params(self):
        p = {"family": "rec", "lk": self.k}
        if self.pstyle == 1:
            p["note"] = "l]\"[,%d" % self.k             # brackets and quotes inside a string
        elif self.pstyle == 2:
            p["x"] = 0.5 + self.k
        return p

    def predict(self, context, actions):
        j = (int(context) + self.k) % len(actions)
        return [1.0 if i == j else 0.0 for i in range(len(actions))]

    def learn(self, context, action, reward, probability):
        pass


class Val:
    """mode 'rows': synthetic rows (shape given by `style`); mode 'cb': real SequentialCB(['reward']);
    `empty` lists (ek,lk) pairs for which zero rows are returned; `boom` lists pairs that raise."""

    def __init__(self, k, trace, mode="rows", style=0, nrows=3, empty=(), boom=(), big=None, slow=()):
        self.k, self.trace, self.mode, self.style, self.nrows = k, trace, mode, style, nrows
        self.slow = [list(x) for x in slow]     # (ek,lk) pairs whose evaluation takes 0.5 s (longer than a worker needs to start): reorders the records of a multi-process run
        self.big = big      # {"pairs": [[ek,lk],…], "size": characters in total, "rows": n}: these pairs yield n rows holding long strings
        self.empty = [tuple(x) for x in empty]
        self.boom = [tuple(x) for x in boom]

    @property
    def params(self):
        return {"vk": self.k, "mode": self.mode}

    def evaluate(self, env, lrn):
        ek, lk = env.params["ek"], lrn.params["lk"]
        _trace(self.trace, "%d %d %d" % (ek, lk, self.k))
        if [ek, lk] in self.slow:
            import time
            time.sleep(0.5)
        if (ek, lk) in self.boom:
            raise Exception("evaluation of (%d,%d,%d) fails by design" % (ek, lk, self.k))
        if (ek, lk) in self.empty:
            return []
        if self.big and [ek, lk] in [list(p) for p in self.big["pairs"]]:
            n = max(1, int(self.big.get("rows", 1)))
            kind = self.big.get("kind", "hex")
            if kind == "rep":       # highly compressible: one short pattern repeated (deflate reaches ~1000:1)
                pat = 'ab"]c[{\\%d%d-' % (ek, lk)
                return [{"reward": i, "blob": (pat * (self.big["size"] // n // len(pat) + 1))[:self.big["size"] // n]} for i in range(n)]
            if kind == "rows":      # highly compressible: very many short periodic rows (about 10 characters of log per row; size 1.2M = 60000 rows)
                return [{"reward": (i + ek) % 7, "tag": "row-%d" % (i % 10)} for i in range(max(1, self.big["size"] // 20))]
            return [{"reward": i, "blob": blob(self.big["size"] // n, ek, lk, self.k, i)} for i in range(n)]
        if self.mode == "cb":
            from coba.evaluators import SequentialCB
            return list(SequentialCB(["reward"], seed=1).evaluate(env, lrn))
        rows = []
        for i in range(self.nrows):
            base = (7 * ek + 3 * lk + self.k + i) % 11
            if self.style == 0:
                rows.append({"reward": base / 4})
            elif self.style == 1:
                rows.append({"reward": base % 2, "action": [i % 2, 1], "note": "r%d" % base})
            elif self.style == 2:
                r = {"reward": float(base)}
                if i % 2 == 0:
                    r["extra"] = "x]ü\n%d" % i     # ragged keys, non-ASCII, control character
                rows.append(r)
            else:
                rows.append({"metric": base - 5, "big": "z" * (20 + base)})   # no reward column
        return rows
