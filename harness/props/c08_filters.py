"""Filters used by the C08 check. They live in an importable module because `spawn` pickles them.

A `SpecFilter` is driven by a per-item table: item -> (outs, err, gen)
  gen=True : filter(item) returns a generator yielding `outs` and then raising `err` (if any)
  gen=False: filter(item) returns the single value outs[0], or raises `err` immediately
Every call is recorded (which process/thread incarnation handled which item) so that the
maxtasksperchild clause can be checked: in-memory for the scheduled runs (threads share the
module), in one file per pid for the runs with real processes.
"""
import os
import threading

CALLS = []          # (incarnation key, item) — scheduled runs only


class BadInt(int):
    """an item that cannot be pickled (the loader's Pickler turns the error into a CobaException)"""

    def __reduce_ex__(self, protocol):
        import pickle
        raise pickle.PicklingError("Can't pickle BadInt %d: c08 unpicklable item" % int(self))


class WorkerKilled(BaseException):
    """scheduled runs only: the worker process is killed (SIGKILL / OOM) while it handles this item"""


class C08Error(Exception):
    """a picklable user exception"""


class C08SubError(C08Error):
    """a subclass of a user exception"""


ERR_TYPES = {
    "ValueError": ValueError, "TypeError": TypeError, "KeyError": KeyError, "RuntimeError": RuntimeError,
    "C08Error": C08Error, "ZeroDivisionError": ZeroDivisionError,
    "AssertionError": AssertionError, "EOFError": EOFError, "BrokenPipeError": BrokenPipeError,
    "StopIteration": StopIteration, "OSError": OSError, "FileNotFoundError": FileNotFoundError, "LookupError": LookupError,
    "C08SubError": None, "AttributeError": AttributeError, "AttributeErrorFrom": AttributeError, "AttributeErrorNatural": AttributeError, "IndexError": IndexError,
    "NotImplementedError": NotImplementedError, "UnicodeError": UnicodeError,
}


def err_message(item, err=None):
    # the "... from ..." wording is what pickle's attribute-lookup error looks like; a user's AttributeError may well look alike
    if err == "AttributeErrorNatural":          # what `None.upper()`-style bugs of a user's filter look like
        return "'NoneType' object has no attribute 'c08-err-%d'" % item
    return ("c08-err-%d from c08" % item) if err == "AttributeErrorFrom" else ("c08-err-%d" % item)


def item_key(item):
    """items are ints, or a re-used one-element buffer [id] (streams that re-yield one mutable object)"""
    if item is None or isinstance(item, (bool, str)) or (isinstance(item, list) and not item):
        return 0            # a falsy value standing for the first item of the stream (None, '', [], False)
    return item[0] if isinstance(item, list) else item


ERR_TYPES["C08SubError"] = C08SubError


class SpecFilter:
    def __init__(self, table, logdir=None):
        self.table = table          # {item: (outs, errname|None, gen)}  (keys may have become str through JSON)
        self.logdir = logdir
        self.kill_at = ()           # items at which the worker process handling them is killed

    def _record(self, item):
        if self.logdir is None:
            CALLS.append(("%d/%s" % (os.getpid(), threading.current_thread().name), item))
        else:
            with open(os.path.join(self.logdir, "%d.calls" % os.getpid()), "a") as f:
                f.write("%d\n" % item)

    def filter(self, item):
        item = int(item_key(item))
        self._record(item)
        if item in getattr(self, "kill_at", ()):
            import os as _os
            if self.logdir is None:
                raise WorkerKilled(item)            # the fake process dies here without reporting anything
            _os.kill(_os.getpid(), 9)               # real processes: really die
        outs, err, gen = self.table[item][:3]
        if len(self.table[item]) > 3 and self.table[item][3]:
            import time
            time.sleep(self.table[item][3])
        if gen:
            return self._gen(item, outs, err)
        if err:
            raise ERR_TYPES[err](err_message(item, err))
        return outs[0]

    def _gen(self, item, outs, err):
        for o in outs:
            yield o
        if err:
            raise ERR_TYPES[err](err_message(item, err))


def table_of(items, force_gen=False, base=0):
    """case['items'] -> table for SpecFilter (item ids start at `base`)"""
    return {base + i: (list(it["outs"]), it.get("err"), bool(it.get("gen", True) or force_gen), it.get("sleep", 0)) for i, it in enumerate(items)}
