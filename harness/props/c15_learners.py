"""Scripted learners for C15 (importable without the harness; plain Python + coba only where noted).

A *case* (JSON-able dict, see c15.py) fixes one documented prediction format
    fmt    in  A | AP | PM | dA | dAP | dPM      (bare action, (action,prob), PMF, and the dict-hinted forms)
    kw     True/False                            (a kwargs mapping follows)
    layout in  single | row | col                (how a *batched* call is answered; `single` = the learner
                                                  cannot handle batches and reacts to a batch call as `nobatch` says)
and, per row, what the learner intends to answer (`pick` = index of the offered action, `p`, `pmf`, `kwargs`).
The learner is a pure function of (context, actions): the script row is looked up by the *value* of
(context, actions), so probe calls / per-row fallback calls / repeated calls are answered consistently.

Values are encoded as  {"n":0} None | {"b":bool} | {"i":int} | {"f":[num,den]} float | {"s":str}
                       | {"t":[..]} tuple | {"l":[..]} list | {"d":[[key,val],..]} dict (key = encoded value).
"""
from fractions import Fraction
import collections as _collections
import collections.abc as _abc
import types as _types

HINT = {"dA": "action", "dAP": "action_prob", "dPM": "pmf"}


class BatchList(list):
    """what coba.environments.Batch produces for batched interaction values (is_batch marker on a list)"""
    is_batch = True


class PlainMapping(_abc.Mapping):
    """a minimal collections.abc.Mapping that is not a dict"""

    def __init__(self, d):
        self._d = dict(d)

    def __getitem__(self, k):
        return self._d[k]

    def __iter__(self):
        return iter(self._d)

    def __len__(self):
        return len(self._d)

    def __repr__(self):
        return "PlainMapping(%r)" % (self._d,)


class DictSubclass(dict):
    pass


def as_mapping(d, flavour):
    """the kwargs payload in one of the Mapping flavours a learner may return (SafeLearner tests `abc.Mapping`)"""
    if flavour in (None, "dict"):
        return d
    if flavour == "ordered":
        return _collections.OrderedDict(d)
    if flavour == "default":
        dd = _collections.defaultdict(list)
        dd.update(d)
        return dd
    if flavour == "subclass":
        return DictSubclass(d)
    if flavour == "proxy":
        return _types.MappingProxyType(dict(d))
    if flavour == "plain":
        return PlainMapping(d)
    if flavour == "chain":
        return _collections.ChainMap(dict(d))
    raise ValueError(flavour)


DICT_FLAVOURS = ("dict", "ordered", "default", "subclass")          # isinstance(x, dict)
MAPPING_FLAVOURS = ("proxy", "plain", "chain")                       # abc.Mapping but not dict


def dec(v):
    """decode an encoded value into a *fresh* Python object"""
    (k, x), = v.items()
    if k == "n":
        return None
    if k == "nan":
        return float("nan")
    if k == "b":
        return bool(x)
    if k == "i":
        return int(x)
    if k == "f":
        return x[0] / x[1]
    if k == "s":
        return "".join([c for c in x])      # built at run time
    if k == "t":
        return tuple(dec(e) for e in x)
    if k == "l":
        return [dec(e) for e in x]
    if k == "d":
        return {dec(a): dec(b) for a, b in x}
    raise ValueError("bad value %r" % (v,))


def enc(o):
    """encode a Python object (by value)"""
    if o is None:
        return {"n": 0}
    if isinstance(o, bool):
        return {"b": o}
    if isinstance(o, int):
        return {"i": o}
    if isinstance(o, float):
        if o != o:
            return {"nan": 0}
        if o in (float("inf"), float("-inf")):
            return {"s": "float:" + repr(o)}
        fr = Fraction(o)
        return {"f": [fr.numerator, fr.denominator]}
    if isinstance(o, str):
        return {"s": o}
    if isinstance(o, tuple):
        return {"t": [enc(e) for e in o]}
    if isinstance(o, list):
        return {"l": [enc(e) for e in o]}
    if isinstance(o, _abc.Mapping):
        return {"d": [[enc(a), enc(b)] for a, b in o.items()]}
    return {"s": "object:" + type(o).__name__}


def freeze(o):
    """hashable value key; 0 == 0.0 == False collide exactly as Python's == says"""
    if isinstance(o, tuple):
        return ("t",) + tuple(freeze(e) for e in o)
    if isinstance(o, list):
        return ("l",) + tuple(freeze(e) for e in o)
    if isinstance(o, _abc.Mapping):
        return ("d", frozenset((freeze(a), freeze(b)) for a, b in o.items()))
    if isinstance(o, float) and o != o:
        return "<nan>"          # nan != nan: as a key every nan counts as the same value
    return o


def is_batch(x):
    return hasattr(x, "is_batch")


class NotBatchable(Exception):
    pass


class _Opaque:
    pass


def _r_int(v): int(v)
def _r_float(v): float(v)
def _r_in(v): 0 in _Opaque()
def _r_missing(v): (lambda argument: None)()
def _r_unexpected(v): (lambda: None)(batch=v)
def _r_hash(v): {v: 1}
def _r_add(v): v + 1
def _r_round(v): round(v)
def _r_attr(v): v.shape
def _r_attr_score(v): raise AttributeError("'%s' object has no attribute 'score'" % type(v).__name__)
def _r_index(v): [][len(v)]
def _r_key(v): {}["argument"]
def _r_value(v): float("argument")
def _r_zero(v): 1 / 0
def _r_assert(v): assert not is_batch(v), "one interaction at a time"
def _r_notimpl(v): raise NotImplementedError("batches are not implemented")
def _r_runtime(v): raise RuntimeError("bad argument: a batch")
def _r_learn_missing(v): raise TypeError("learn() missing 1 required positional argument: 'probability'")


# how an ordinary one-interaction-at-a-time learner fails when its first operation touches a batched value (round g): the real
# CPython exceptions of int()/float()/in/hash/arithmetic/attribute access/indexing ..., incl. TypeErrors whose text mentions
# "argument", "missing", "got an unexpected" and AttributeErrors mentioning 'score' (the texts SafeLearner itself looks for elsewhere)
REFUSALS = {"int": _r_int, "float": _r_float, "in": _r_in, "missing": _r_missing, "unexpected": _r_unexpected, "hash": _r_hash,
            "add": _r_add, "round": _r_round, "attr": _r_attr, "attr_score": _r_attr_score, "index": _r_index, "key": _r_key,
            "value": _r_value, "zero": _r_zero, "assert": _r_assert, "notimpl": _r_notimpl, "runtime": _r_runtime,
            "learn_missing": _r_learn_missing}


def refuse(flavour, v, default):
    """raise what a batch-unaware learner of this flavour raises when handed the batched value v"""
    f = REFUSALS.get(flavour)
    if f is None:
        raise NotBatchable(default)
    f(v)
    raise NotBatchable(default)       # not reached: every flavour raises


class Scripted:
    """Answers `predict` in ONE documented format, consistently; records everything it is given."""

    def __init__(self, case):
        self.case = case
        self.fmt, self.kw, self.layout = case["fmt"], bool(case.get("kw")), case["layout"]
        self.wrap = tuple if case.get("wrap", "tuple") == "tuple" else list
        self.answer = case.get("answer", "offered")
        self.nobatch = case.get("nobatch", "raise")
        self.script = {}
        for call in case["calls"]:
            for row in call:
                key = (freeze(dec(row["ctx"])), freeze([dec(a) for a in row["actions"]]))
                self.script.setdefault(key, row)
        # batch-awareness is a property of each METHOD (SafeLearner memoises the call style per method): by default learn and
        # score take batches iff predict does
        self.learn_batch = bool(case.get("learn_batch", self.layout != "single"))
        self.score_batch = bool(case.get("score_batch", self.layout != "single"))
        self.predict_calls = []   # (batched?, context, actions) as received
        self.answers = []         # what was returned (object), or the exception
        self.learn_calls = []     # (batched?, context, action, reward, probability, kwargs)
        self.score_calls = []     # (batched?, context, actions, action)
        # phase 6 (aliasing): a learner that OWNS its answer data and hands the same objects out again - the kwargs mapping and the
        # PMF list of a row are built once and returned on every later call for that row (case["reuse_answers"]); `handed` keeps a
        # by-value snapshot of every such object taken when it was built
        self.reuse = bool(case.get("reuse_answers"))
        self.cache = {}
        self.handed = []          # (what, object, snapshot)
        # a caller that reuses ONE action list object and changes it in place (case["drop"] == "inplace"): what the learner was
        # offered must be recorded by value at the time of the call
        self.snap_actions = case.get("drop") == "inplace"

    # ---- one row
    def _row(self, context, actions):
        row = self.script[(freeze(context), freeze(list(actions)))]
        return row

    def _action(self, row, actions):
        a = actions[row["pick"]]
        if self.answer == "copy":
            return dec(enc(a))            # an equal but freshly built object (ambiguous un-hinted answer; (A) only)
        return a                          # the offered object itself

    def _owned(self, what, row, build):
        key = (what, id(row))
        if key not in self.cache:
            obj = build()
            self.cache[key] = obj
            self.handed.append((what, obj, enc(obj)))
        return self.cache[key]

    def mutated(self):
        """learner-owned answer objects whose content is no longer what the learner built"""
        return [(what, snap, enc(obj)) for what, obj, snap in self.handed if enc(obj) != snap]

    def _pmf(self, row, actions):
        if self.reuse and self.answer == "offered":
            return self._owned("pmf", row, lambda: (lambda pmf: pmf if self.case.get("pmf_type", "list") == "list" else tuple(pmf))([dec(x) for x in row["pmf"]]))
        pmf = [dec(x) for x in row["pmf"]]
        if self.answer == "alias":        # PMF entries that equal an offered action ARE that object ((A) only)
            pmf = [next((a for a in actions if type(a) is type(x) and a == x), x) for x in pmf]
        return pmf if self.case.get("pmf_type", "list") == "list" else tuple(pmf)

    def _kwargs(self, row):
        if self.reuse:
            return self._owned("kwargs", row, lambda: as_mapping({dec(k): dec(v) for k, v in row["kwargs"]}, self.case.get("kwmap")))
        return as_mapping({dec(k): dec(v) for k, v in row["kwargs"]}, self.case.get("kwmap"))

    def _core(self, row, actions):
        """the format-specific fields of one row, as a list of columns' entries"""
        f = self.fmt
        if f == "A":
            return [self._action(row, actions)]
        if f == "AP":
            return [self._action(row, actions), dec(row["p"])]
        if f == "PM":
            return [self._pmf(row, actions)]
        if f == "dA":
            return [{"action": self._action(row, actions)}]
        if f == "dAP":
            return [{"action_prob": self.wrap([self._action(row, actions), dec(row["p"])])}]
        if f == "dPM":
            return [{"pmf": self._pmf(row, actions)}]
        raise ValueError(f)

    def _single(self, context, actions):
        row = self._row(context, actions)
        core = self._core(row, actions)
        if self.kw:
            return self.wrap(core + [self._kwargs(row)])
        return core[0] if len(core) == 1 else self.wrap(core)

    # ---- the learner interface
    def predict(self, context, actions):
        batched = is_batch(context) or is_batch(actions)
        seen = actions
        if self.snap_actions:
            seen = [list(a) for a in actions] if is_batch(actions) else list(actions)
        self.predict_calls.append((batched, context, seen))
        try:
            out = self._predict(batched, context, actions)
        except BaseException as e:
            self.answers.append(e)
            raise
        self.answers.append(out)
        return out

    def _predict(self, batched, context, actions):
        if not batched:
            return self._single(context, actions)
        if self.layout == "single":
            if self.nobatch == "raise":
                raise NotBatchable("this learner cannot handle batches")
            if self.nobatch == "none":
                return None
            if self.nobatch == "keyerror":
                return self._single(context[0], actions)     # treats the batch of action lists as one action list -> KeyError
            refuse(self.nobatch, context if is_batch(context) else actions, self.nobatch)
        n = len(actions)
        ctxs = context if is_batch(context) else [context] * n
        rows = [self._row(c, a) for c, a in zip(ctxs, actions)]
        if self.layout == "row":
            return [self._single(c, a) for c, a in zip(ctxs, actions)]
        # column-major
        f = self.fmt
        kwcol = None
        if self.kw:
            kws = [self._kwargs(r) for r in rows]
            kwcol = as_mapping({k: [kw[k] for kw in kws] for k in kws[0]}, self.case.get("kwmap"))
        if f in ("A", "AP"):
            cols = [list(c) for c in zip(*[self._core(r, a) for r, a in zip(rows, actions)])]
        elif f == "PM":
            pmfs = [self._pmf(r, a) for r, a in zip(rows, actions)]
            if self.case.get("pmfcol", "columns") == "columns":
                cols = [list(c) for c in zip(*pmfs)]          # one column per action (transpose of the row-major table)
            else:
                cols = [pmfs]                                  # one column holding the PMFs
        else:
            hint = HINT[f]
            cols = [{hint: [self._core(r, a)[0][hint] for r, a in zip(rows, actions)]}]
            if not self.kw:
                return cols[0]
        if self.kw:
            cols = cols + [kwcol]
        return cols if self.wrap is list else tuple(cols)

    def score(self, context, actions, action):
        """the probability the policy gives `action`: the stated p for the action it names, 0.0 for any other;
        a batch is answered with one score per row; a learner that cannot handle batches raises"""
        batched = is_batch(context) or is_batch(actions) or is_batch(action)
        self.score_calls.append((batched, context, actions, action))
        if not batched:
            row = self._row(context, actions)
            return dec(row["p"]) if action == actions[row["pick"]] else 0.0
        if not self.score_batch:
            refuse(self.nobatch, next(v for v in (context, actions, action) if is_batch(v)), "this learner cannot score batches")
        out = []
        for c, A, x in zip(context, actions, action):
            row = self._row(c, A)
            out.append(dec(row["p"]) if x == A[row["pick"]] else 0.0)
        return out if self.wrap is list else tuple(out)

    def learn(self, context, action, reward, probability, **kwargs):
        batched = is_batch(context) or is_batch(action) or is_batch(reward)
        if batched and not self.learn_batch:
            self.learn_calls.append(("rejected",))
            refuse(self.nobatch, next(v for v in (context, action, reward) if is_batch(v)), "this learner cannot learn from batches")
        self.learn_calls.append((batched, context, action, reward, probability, kwargs))


class ScriptedNoScore(Scripted):
    """a learner without any `score` attribute (looking it up raises CPython's AttributeError)"""
    @property
    def score(self):
        raise AttributeError("'ScriptedNoScore' object has no attribute 'score'")


class ScriptedBaseScore(Scripted):
    """a learner that inherits the `score` of coba.primitives.Learner (NotImplementedError)"""
    def score(self, context, actions, action):
        self.score_calls.append(("base",))
        raise NotImplementedError("The `score` interface has not been implemented for this learner.")


SCORE_EXC = {"AttributeError": AttributeError, "KeyError": KeyError, "TypeError": TypeError, "ValueError": ValueError}


class ScriptedFailingScore(Scripted):
    """a learner whose implemented `score` always raises case["score_kind"] = ["raises", exception class name, message]"""
    def score(self, context, actions, action):
        self.score_calls.append(("raises",))
        _, cls, msg = self.case["score_kind"]
        raise SCORE_EXC[cls](msg)


def make_learner(case):
    kind = case.get("score_kind", "normal")
    if kind == "absent":
        return ScriptedNoScore(case)
    if kind == "base":
        return ScriptedBaseScore(case)
    if isinstance(kind, list):
        return ScriptedFailingScore(case)
    return Scripted(case)
