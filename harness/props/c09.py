"""C09 Ordering and selection filters keep exactly the interactions they promise."""
import itertools
import gc
import json
import math
import os
from fractions import Fraction

from core.engine import Property, F

A_, C_, M_ = 116646453, 9, 2 ** 30
AINV = pow(A_, -1, M_)


def lcg(s):
    return (A_ * s + C_) % M_


def seed_for(k, target):
    """a seed in [0,M) whose k-th state (k>=1) equals `target` (same helper as in c05.py)"""
    s = target
    for _ in range(k):
        s = ((s - C_) * AINV) % M_
    return s


def q(x):
    if isinstance(x, bool):
        x = int(x)
    if isinstance(x, int):
        return [x, 1]
    fr = Fraction(x)
    return [fr.numerator, fr.denominator]


# ---------------------------------------------------------------- case <-> coba objects
def dec_ctx(c):
    """JSON context -> python context (None | number | str | list | tuple | dict)"""
    if isinstance(c, dict):
        if "l" in c:
            return list(c["l"])
        if "t" in c:
            return tuple(c["t"])
        if "d" in c:
            return {k: v for k, v in c["d"]}
    return c


def mk_reward(r):
    from coba.primitives import L1Reward, DiscreteReward
    if isinstance(r, dict):
        if "l1" in r:
            return L1Reward(r["l1"])
        if "disc" in r:
            return DiscreteReward(list(r["disc"][0]), list(r["disc"][1]))
    return list(r) if isinstance(r, list) else r


def mk_item(it, kind):
    """a fresh coba interaction for one JSON item"""
    from coba.primitives import SimulatedInteraction, LoggedInteraction, GroundedInteraction
    extra = dict(it.get("extra", {}))
    extra["id"] = it["id"]
    acts = [list(a) if isinstance(a, list) else a for a in it["actions"]] if it.get("actions") is not None else None
    if kind == "sim":
        return SimulatedInteraction(dec_ctx(it.get("ctx")), acts, mk_reward(it["rewards"]), **extra)
    if kind == "grd":
        return GroundedInteraction(dec_ctx(it.get("ctx")), acts, mk_reward(it["rewards"]), mk_reward(it["feedbacks"]), **extra)
    if kind == "log":
        if acts is not None:
            extra["actions"] = acts
        return LoggedInteraction(dec_ctx(it.get("ctx")), it["action"], it["reward"], it.get("probability"), **extra)
    if kind == "raw":        # a literal dict (used for the non-uniform key-set witnesses)
        d = dict(it["raw"])
        d["id"] = it["id"]
        return d
    if kind == "bare":       # a plain dict interaction without a 'context' key
        d = {"actions": acts, "rewards": mk_reward(it["rewards"])}
        d.update(extra)
        return d
    raise ValueError(kind)


def mk_items(case):
    return [mk_item(it, case["kind"]) for it in case["items"]]


def canon_val(v):
    """type-exact, order-exact canonical form of an interaction value"""
    from coba.primitives import L1Reward, DiscreteReward
    if v is None:
        return ["N"]
    if isinstance(v, bool):
        return ["b", v]
    if isinstance(v, int):
        return ["i", v]
    if isinstance(v, float):
        return ["f", repr(v)]
    if isinstance(v, str):
        return ["s", v]
    if isinstance(v, L1Reward):
        return ["L1", canon_val(v._argmax)]
    if isinstance(v, DiscreteReward):
        return ["DR", canon_val(v._state), canon_val(v._default)]
    if isinstance(v, tuple):
        return ["t", [canon_val(x) for x in v]]
    if isinstance(v, list):
        return ["l", [canon_val(x) for x in v]]
    if isinstance(v, dict):
        return ["d", sorted(([canon_val(k), canon_val(x)] for k, x in v.items()), key=lambda p: json.dumps(p))]
    return ["?", type(v).__name__, repr(v)]


def canon_inter(d):
    if not isinstance(d, dict):
        return ["not-a-dict", type(d).__name__, repr(d)[:80]]
    return sorted(([str(k), canon_val(v)] for k, v in d.items()), key=lambda p: p[0])


def give(items, mode):
    """how the sequence is handed to the filter"""
    if mode == "list":
        return items
    if mode == "iter":
        return iter(list(items))
    return (x for x in list(items))


ERRN = {TypeError: "TypeError", IndexError: "IndexError", ValueError: "ValueError", ZeroDivisionError: "ZeroDivisionError",
        KeyError: "KeyError", AttributeError: "AttributeError", StopIteration: "StopIteration", RuntimeError: "RuntimeError",
        OverflowError: "OverflowError"}


def errname(e):
    for t, n in ERRN.items():
        if type(e) is t:
            return n
    return "Other:" + type(e).__name__


def mk_seed(sd):
    if sd["kind"] == "int":
        return int(sd["v"])
    if sd["kind"] == "float":
        return float(sd["v"])
    return sd["v"]


def model_seed(v):
    if isinstance(v, int) or (isinstance(v, float) and v.is_integer()):
        return {"int": int(v)}
    return {"bytes": list(str(v).encode("utf-8"))}


def rng_of(r):
    if r is None:
        return None
    if isinstance(r, list):
        return tuple(r) if r and r[0] == "tuple" else r
    return r


def dec_range(r):
    """JSON -> constructor argument: None | int | (a,b) tuple | [a,b] list"""
    if r is None or isinstance(r, int):
        return r
    if r.get("list"):
        return [r["min"], r["max"]]
    return (r["min"], r["max"])


def norm_range(r):
    """-> [min,max] as Where normalises it"""
    if r is None:
        return [None, None]
    if isinstance(r, int):
        return [r, r]
    return [r["min"], r["max"]]


def mk_filter(op):
    """the real filter object(s) for an op description; returns a function items->iterable"""
    from coba.environments import filters as EF
    from coba.pipes import filters as PF
    n = op["name"]
    if n == "pshuffle":
        f = PF.Shuffle(mk_seed(op["seed"]))
    elif n == "eshuffle":
        f = EF.Shuffle(mk_seed(op["seed"]))
    elif n == "take":
        f = (PF.Take if op.get("pipes") else EF.Take)(op["count"], op["strict"]) if "strict" in op else EF.Take(op["count"])
    elif n == "slice":
        cls = PF.Slice if op.get("pipes") else EF.Slice
        f = cls(op["start"], op["stop"]) if op.get("step") is None else cls(op["start"], op["stop"], op["step"])
    elif n == "reservoir":
        cls = PF.Reservoir if op.get("pipes") else EF.Reservoir
        f = cls(op["count"], strict=op["strict"], seed=mk_seed(op["seed"]))
    elif n == "sort":
        f = EF.Sort(*[k for k in op["keys"]]) if not op.get("nested") else EF.Sort(list(op["keys"]))
    elif n == "where":
        kw = {}
        for k in ("n_interactions", "n_actions", "n_features"):
            if k in op:
                kw[k] = dec_range(op[k])
        f = EF.Where(**kw)
    elif n == "riffle":
        f = EF.Riffle(op["spacing"], mk_seed(op["seed"]))
    elif n == "identity":
        f = EF.Identity()
    elif n == "chunk":
        f = EF.Chunk()
    elif n == "params":
        f = EF.Params({"a": 1})
    elif n == "cache":
        f = EF.Cache(op.get("nslice", 25))
    elif n == "batch":
        from coba.pipes import Pipes
        f = Pipes.join(EF.Batch(op["size"]), EF.Unbatch())
    else:
        raise ValueError(n)
    return f


def _list_env_class():
    from coba.primitives import Environment

    class ListEnv(Environment):
        def __init__(self, its, mode, idx):
            self._its, self._mode, self.idx = its, mode, idx

        @property
        def params(self):
            return {"env": self.idx}

        def read(self):
            return give(self._its, self._mode)
    return ListEnv


def apply_method(e, op):
    """Environments.<shortcut method>(...) for an op description"""
    n = op["name"]
    if n == "eshuffle":
        sd = mk_seed(op["seed"])
        how = op.get("how", 0)
        return e.shuffle(sd) if how == 0 else e.shuffle(seed=sd) if how == 1 else e.shuffle([sd]) if how == 2 else e.shuffle(seeds=[sd])
    if n == "take":
        return e.take(op["count"], op["strict"]) if "strict" in op else e.take(op["count"])
    if n == "slice":
        return e.slice(op["start"], op["stop"]) if op.get("step") is None else e.slice(op["start"], op["stop"], op["step"])
    if n == "reservoir":
        sd = mk_seed(op["seed"])
        return e.reservoir(op["count"], sd if op.get("how", 0) == 0 and isinstance(sd, int) else [sd], strict=op["strict"])
    if n == "sort":
        return e.sort(*op["keys"]) if not op.get("nested") else e.sort(list(op["keys"]))
    if n == "where":
        return e.where(**{k: dec_range(op[k]) for k in ("n_interactions", "n_actions", "n_features") if k in op})
    if n == "riffle":
        return e.riffle(op["spacing"], mk_seed(op["seed"]))
    if n == "chunk":
        return e.chunk(cache=bool(op.get("cache", False))) if "cache" in op or not op.get("default") else e.chunk()
    if n == "params":
        return e.params({"a": 1})
    if n == "cache":
        return e.cache()
    if n == "batch":
        return e.batch(op["size"]).unbatch()
    if n == "identity":
        from coba.environments.filters import Identity
        return e.filter(Identity())
    raise ValueError(n)


def via_envs(op, item_lists, mode):
    """Environments(env_0, env_1, ...).<method>() -> [(index of the source environment, its pipeline)]"""
    from coba.environments import Environments
    from coba.environments.filters import BatchSafe, Finalize
    from coba.pipes import Pipes
    cls = _list_env_class()
    srcs = [cls(its, mode, k) for k, its in enumerate(item_lists)]
    e = apply_method(Environments(srcs) if len(srcs) > 1 else Environments(srcs[0]), op)
    out = []
    for pos, pipe in enumerate(getattr(e, "_envs")):
        parts = list(pipe)
        # Environments.shuffle() sorts its pipelines, which appends BatchSafe(Finalize()); Finalize rewrites interactions on
        # purpose (not a C09 filter), so it is taken off again
        if isinstance(parts[-1], BatchSafe) and isinstance(getattr(parts[-1], "_filter", None), Finalize):
            pipe = Pipes.join(*parts[:-1])
        out.append((getattr(parts[0], "idx", pos), pipe))
    return out


def via_env(op, items, mode):
    """the same through the public Environments API (option handling included)"""
    pipes = via_envs(op, [items], mode)
    if len(pipes) != 1:
        raise RuntimeError("Environments produced %d pipelines for one filter" % len(pipes))
    return pipes[0][1]


POLY_OPS = ("pshuffle", "eshuffle", "take", "slice", "reservoir", "riffle", "identity", "chunk", "params")
ENV_OPS = ("eshuffle", "take", "slice", "reservoir", "sort", "where", "riffle", "chunk", "params", "batch")


class Run:
    """runs the real code for one case"""

    def __init__(self, case):
        self.case = case
        self.op = case["op"]
        self.mode = case.get("input", "list")
        self.items = mk_items(case)          # the interaction objects handed to the filter (shared by all reads)
        self.pristine = {it["id"]: canon_inter(mk_item(it, case["kind"])) for it in case["items"]}
        self.ids = [it["id"] for it in case["items"]]

    def new_reader(self):
        """a fresh filter object (same parameters) -> function that reads it once"""
        if self.case.get("via_env") and self.op["name"] in ENV_OPS:
            src = via_env(self.op, self.items, self.mode)
            return lambda: src.read()
        f = mk_filter(self.op)
        return lambda: f.filter(give(self.items, self.mode))

    def collect(self, it):
        try:
            out = list(it)
        except Exception as e:  # noqa: BLE001 - the exception kind is the observation
            return {"err": errname(e), "msg": str(e)[:120]}
        return self.describe(out)

    def describe(self, out):
        ids, bad = [], []
        for o in out:
            i = o.get("id") if isinstance(o, dict) else None
            if isinstance(i, bool) or not isinstance(i, int) or i not in self.pristine:
                ids.append("?" if i is None or isinstance(i, (list, dict)) else "?%s" % (i,))
                bad.append("an output interaction carries no input id: %r" % (repr(o)[:100],))
                continue
            ids.append(i)
            c = canon_inter(o)
            if c != self.pristine[i]:
                bad.append("interaction id=%d came out as %s, went in as %s" % (i, json.dumps(c)[:200], json.dumps(self.pristine[i])[:200]))
        return {"ids": ids, "bad": bad}

    def read_once(self, reader):
        try:
            it = reader()
        except Exception as e:  # noqa: BLE001
            return {"err": errname(e), "msg": str(e)[:120]}
        return self.collect(it)


def need_of(b, k):
    """items a read of branch `b` (consumer takes k, None = all) pulls out of the cache: a number / None (all), or the name of
    the model's Pull kind for the whole-input filters (then the MODEL computes it: pullNeed)"""
    if b is not None and b["name"] == "riffle":
        return "eager"
    if b is not None and b["name"] == "reservoir":
        return "never" if b["count"] == 0 else "onFirst"
    if b is not None and b["name"] in ("eshuffle", "sort"):
        return "onFirst"
    if b is not None and b["name"] == "take" and b.get("strict"):
        return b["count"]
    if k == 0:
        return 0
    if b is None or b["name"] in ("identity", "params", "chunk"):
        return k
    if b["name"] == "take":
        vs = [v for v in (b["count"], k) if v is not None]
        return min(vs) if vs else None
    if b["name"] == "slice":
        if k is None:
            return b["stop"]
        nd = (b["start"] or 0) + (k - 1) * (b.get("step") or 1) + 1
        return nd if b["stop"] is None else min(nd, b["stop"])
    return None


def strip_finalize(pipe):
    """a pipeline without the BatchSafe(Finalize()) members `Environments` adds when it is iterated (Environments.shuffle sorts
    its members): Finalize rewrites interactions on purpose and is not a C09 filter"""
    from coba.environments.filters import BatchSafe, Finalize
    from coba.pipes import Pipes
    parts = [p_ for p_ in pipe if not (isinstance(p_, BatchSafe) and isinstance(getattr(p_, "_filter", None), Finalize))]
    return Pipes.join(*parts)


def join_tree(node, leaves):
    """Pipes.join over a nested list of stage indices: a list is a joined pipe of its members, an int the filter object"""
    from coba.pipes import Pipes
    if isinstance(node, int):
        return leaves[node]
    return Pipes.join(*[join_tree(c, leaves) for c in node])


def tree_leaves(node):
    return [node] if isinstance(node, int) else [x for c in node for x in tree_leaves(c)]


def pipes_by_env(e):
    """{index of the source environment: [pipelines]} of an Environments object (Finalize taken off, as in via_envs)"""
    from coba.environments.filters import BatchSafe, Finalize
    from coba.pipes import Pipes
    out = {}
    for pos, pipe in enumerate(getattr(e, "_envs")):
        parts = list(pipe)
        if isinstance(parts[-1], BatchSafe) and isinstance(getattr(parts[-1], "_filter", None), Finalize):
            pipe = Pipes.join(*parts[:-1])
        out.setdefault(getattr(parts[0], "idx", pos), []).append(pipe)
    return out


def leave_how(case, step):
    """how the abandoned read #step of a multi / product case leaves its iterator: kept alive, closed, dropped (in turn; a case
    may fix it with case["leave"])"""
    lv = case.get("leave") or ["alive", "close", "del"]
    return lv[step % len(lv)]


def same(a, b):
    return a.get("ids") == b.get("ids") and a.get("err") == b.get("err")


# ---------------------------------------------------------------- reservoir: the float part, as the code computes it
def reservoir_steps(state, count, n_rest, limit=400):
    """(steps, zero_seen).  `state` = generator state after the initial shuffle.  Mirrors
    `W = W*r1**x; S = floor(log(r2,1-W)); slot = int(r3*count)` (with the zero-uniform guard of
    fix C09-reservoir-zero-uniform) until the stream of `n_rest` further items is exhausted."""
    steps, zero = [], False
    W, x = 1, 1 / count
    s = state
    remaining = n_rest
    while len(steps) < limit:
        us = []
        for _ in range(60):
            s = lcg(s)
            us.append(s / M_)
        for i in range(0, 60, 3):
            r1, r2, r3 = us[i:i + 3]
            if r1 == 0 or r2 == 0:
                zero = True
                continue
            try:
                W = W * r1 ** x
                S = math.floor(math.log(r2, 1 - W))
            except (ZeroDivisionError, ValueError, OverflowError) as e:
                steps.append({"raise": errname(e)})
                return steps, zero
            steps.append([S, int(r3 * count)])
            if S >= remaining:
                return steps, zero
            remaining -= S + 1
    return steps, zero


def ref_reservoir_public(ids, count, strict, seed):
    """(sample, number of replacement steps): an independent straight-line Algorithm L (Li 1994) over PUBLIC CobaRandom calls
    only - one generator, initial shuffle, then uniforms drawn ONE AT A TIME (three per step, no batching) - i.e. the sample
    "the seed determines".  Carries the zero-uniform guard of fix C09-F1.  None when the float formulas raise."""
    from coba.random import CobaRandom
    rng = CobaRandom(seed)
    if count == 0:
        return [], 0
    if count is None:
        return list(rng.shuffle(list(ids))), 0
    it = iter(ids)
    res = list(itertools.islice(it, count))
    if len(res) < count:
        return ([] if strict else list(rng.shuffle(res, inplace=True))), 0
    res = rng.shuffle(res, inplace=True)
    W, steps = 1, 0
    try:
        while True:
            r1, r2, r3 = rng.random(), rng.random(), rng.random()
            if r1 == 0 or r2 == 0:
                continue
            W = W * r1 ** (1 / count)
            S = math.floor(math.log(r2, 1 - W))
            try:
                res[int(r3 * count)] = next(itertools.islice(it, S, S + 1))
            except StopIteration:
                return list(res), steps
            steps += 1
    except (ValueError, ZeroDivisionError, OverflowError):
        return None, steps


def reservoir_ok_py(count, steps, n):
    """Python mirror of the model's `reservoirOk` (lengths only): does Reservoir(count) on n items return, given the loop's steps"""
    if count is None or count == 0 or n < count:
        return True
    rest = n - count
    for st in steps:
        if isinstance(st, dict):
            return False
        S, slot = st
        if rest <= S:
            return True
        if not slot < count:
            return False
        rest -= S + 1
    return False


def zero_uniform_hit(state, n_rest, count):
    """does the unfixed loop meet a zero r1/r2 before the stream ends?"""
    return reservoir_steps(state, count, n_rest)[1]


# ---------------------------------------------------------------- model side encodings
def model_val(v):
    if isinstance(v, str):
        return {"s": [ord(ch) for ch in v]}
    return {"n": q(v)}


def model_ctx(c):
    c = dec_ctx(c)
    if c is None:
        return None
    if isinstance(c, (list, tuple)):
        return {"d": [model_val(v) for v in c]}
    if isinstance(c, dict):
        return {"sp": [[model_val(k), model_val(v)] for k, v in c.items()]}
    return model_val(c)


def rec_keys(case, it):
    """key order of the interaction dict as coba builds it"""
    return list(mk_item(it, case["kind"]).keys())


def model_items(case, with_rec=False):
    out = []
    for it in case["items"]:
        ex = it.get("extra", {})
        m = {"id": it["id"], "logged": case["kind"] == "log" or ("action" in ex and "reward" in ex), "hasCtx": case["kind"] not in ("bare", "raw"),
             "ctx": model_ctx(it.get("ctx")) if case["kind"] not in ("bare", "raw") else None,
             "nact": len(it["actions"]) if it.get("actions") is not None else 0}
        if with_rec:
            m["rec"] = [[k, it["id"] * 64 + j] for j, k in enumerate(rec_keys(case, it))]
        out.append(m)
    return out


def feat_count(ctx):
    """the property's reading of 'number of features' of a context"""
    c = dec_ctx(ctx)
    if c is None:
        return 0
    if isinstance(c, (list, tuple, dict)):
        return len(c)
    return 1


def in_range(v, r):
    a, b = r
    return (a is None or a <= v) and (b is None or v <= b)


# ---------------------------------------------------------------- translator: Environments.<shortcut> -> filter class(arguments)
import ast  # noqa: E402
SHORTCUTS = ["shuffle", "sort", "riffle", "params", "take", "slice", "reservoir", "where", "batch", "chunk", "unbatch", "cache"]
CLASSES = ["Shuffle", "Sort", "Riffle", "Params", "Take", "Slice", "Reservoir", "Where", "Batch", "Unbatch", "Chunk", "Cache", "Identity"]

def sig_of(fn):
    a = fn.args
    out = []
    pos = a.posonlyargs + a.args
    off = len(pos) - len(a.defaults)
    for i, p in enumerate(pos):
        if p.arg == "self":
            continue
        out.append((p.arg, "" if i < off else ast.unparse(a.defaults[i - off])))
    if a.vararg:
        out.append(("*" + a.vararg.arg, ""))
    elif a.kwonlyargs:
        out.append(("*", ""))
    for p, d in zip(a.kwonlyargs, a.kw_defaults):
        out.append((p.arg, "" if d is None else ast.unparse(d)))
    if a.kwarg:
        out.append(("**" + a.kwarg.arg, ""))
    return out

def extract_shortcuts(repo):
    core = ast.parse(open(os.path.join(repo, "coba/environments/core.py"), encoding="utf-8").read())
    envs = next(n for n in ast.walk(core) if isinstance(n, ast.ClassDef) and n.name == "Environments")
    rows = []
    for name in SHORTCUTS:
        fns = [f for f in envs.body if isinstance(f, ast.FunctionDef) and f.name == name]
        fn = next(f for f in fns if not any(ast.unparse(d).endswith("overload") for d in f.decorator_list))
        params = [p.arg for p in fn.args.posonlyargs + fn.args.args if p.arg != "self"] + [p.arg for p in fn.args.kwonlyargs]
        if fn.args.vararg:
            params.append(fn.args.vararg.arg)
        # comprehension variables ranging over a parameter
        each = {}
        for n in ast.walk(fn):
            if isinstance(n, ast.comprehension) and isinstance(n.target, ast.Name) and isinstance(n.iter, ast.Name):
                each[n.target.id] = n.iter.id
        def arg(e):
            star = ""
            if isinstance(e, ast.Starred):
                star, e = "*", e.value
            if isinstance(e, ast.Name) and e.id in params:
                return star + "$" + e.id
            if isinstance(e, ast.Name) and e.id in each:
                return star + "each($%s)" % each[e.id]
            return star + ast.unparse(e)
        calls = []
        for n in ast.walk(fn):
            if isinstance(n, ast.Call) and isinstance(n.func, ast.Name) and n.func.id in CLASSES:
                calls.append((n.lineno, n.col_offset, n.func.id, [("", arg(a)) for a in n.args] + [(k.arg or "**", arg(k.value)) for k in n.keywords]))
        calls.sort()
        rows.append((name, sig_of(fn), [(c[2], c[3]) for c in calls]))
    return rows

def extract_ctors(repo):
    ef = ast.parse(open(os.path.join(repo, "coba/environments/filters.py"), encoding="utf-8").read())
    pf = ast.parse(open(os.path.join(repo, "coba/pipes/filters.py"), encoding="utf-8").read())
    def cls_of(tree, name):
        return next((n for n in tree.body if isinstance(n, ast.ClassDef) and n.name == name), None)
    rows = []
    for name in CLASSES:
        c = cls_of(ef, name)
        where = "environments"
        init = next((f for f in c.body if isinstance(f, ast.FunctionDef) and f.name == "__init__"), None) if c else None
        if init is None and c is not None:
            for b in c.bases:
                if isinstance(b, ast.Attribute) and isinstance(b.value, ast.Name) and b.value.id == "pipes":
                    pc = cls_of(pf, b.attr)
                    init = next((f for f in pc.body if isinstance(f, ast.FunctionDef) and f.name == "__init__"), None) if pc else None
                    where = "pipes." + b.attr
                    break
        rows.append((name, where if init is not None else "none", sig_of(init) if init is not None else []))
    return rows



def _lean_str(x):
    if not all(32 <= ord(ch) < 127 and ch not in '"\\' for ch in x):
        raise ValueError("unexpected character in %r" % (x,))
    return '"%s"' % x


def _lean_pairs(ps):
    return "[%s]" % ", ".join("(%s, %s)" % (_lean_str(a), _lean_str(b)) for a, b in ps)


def extract_program(repo, name, path="coba/environments/core.py", cls="Environments"):
    """the body of Environments.<name> (or <cls>.<name> of another file) as a small program: [(depth, kind, a, b)] - kind assign (target, expression), if (test),
    else, return (expression); docstring and comments dropped, expressions as ast.unparse text"""
    core = ast.parse(open(os.path.join(repo, path), encoding="utf-8").read())
    envs = next(n for n in ast.walk(core) if isinstance(n, ast.ClassDef) and n.name == cls)
    fn = next(f for f in envs.body if isinstance(f, ast.FunctionDef) and f.name == name and not any(ast.unparse(d).endswith("overload") for d in f.decorator_list))
    out = []

    def walk(stmts, d):
        for st in stmts:
            if isinstance(st, ast.Expr) and isinstance(st.value, ast.Constant) and isinstance(st.value.value, str):
                continue
            if isinstance(st, ast.If):
                out.append((d, "if", ast.unparse(st.test), ""))
                walk(st.body, d + 1)
                if st.orelse:
                    out.append((d, "else", "", ""))
                    walk(st.orelse, d + 1)
            elif isinstance(st, ast.Assign) and len(st.targets) == 1:
                out.append((d, "assign", ast.unparse(st.targets[0]), ast.unparse(st.value)))
            elif isinstance(st, ast.For) and not st.orelse:
                out.append((d, "for", ast.unparse(st.target), ast.unparse(st.iter)))
                walk(st.body, d + 1)
            elif isinstance(st, ast.Return):
                out.append((d, "return", "" if st.value is None else ast.unparse(st.value), ""))
            else:
                out.append((d, "other", type(st).__name__, " ; ".join(ast.unparse(st).split("\n"))[:300]))
    walk(fn.body, 0)
    return out


def _lean_prog(prog):
    return "[%s]" % ",\n  ".join("(%d, %s, %s, %s)" % (d, _lean_str(k), _lean_str(a), _lean_str(b)) for d, k, a, b in prog)


def shortcuts_lean(repo):
    rows, ctors = extract_shortcuts(repo), extract_ctors(repo)
    body = ("-- GENERATED by harness/props/c09.py (pre_build) from coba/environments/core.py, coba/environments/filters.py and\n"
            "-- coba/pipes/filters.py on every run; do not edit.\n"
            "import CobaVerif.Model.C09\nnamespace Coba.Generated.C09\nopen Coba.C09\n"
            "def extracted : Bool := true\n"
            "def shortcuts : List ShortcutRow := [\n%s]\n"
            "def ctors : List CtorRow := [\n%s]\n"
            "def shuffleProgram : List PLine := PROG_SHUFFLE\n"
            "def chunkProgram : List PLine := PROG_CHUNK\n"
            "-- phase 6: the code that runs a pipeline of filters (pipes/filters.py FiltersFilter, pipes/sources.py SourceFilters) and\n"
            "-- Environments.filter\n"
            "def filtersFilterInit : List PLine := PROG_FFINIT\n"
            "def filtersFilterFilter : List PLine := PROG_FFFILTER\n"
            "def sourceFiltersInit : List PLine := PROG_SFINIT\n"
            "def sourceFiltersRead : List PLine := PROG_SFREAD\n"
            "def environmentsFilter : List PLine := PROG_ENVFILTER\n"
            "end Coba.Generated.C09\n"
            % (",\n".join("  { method := %s, sig := %s, calls := [%s] }" % (_lean_str(m), _lean_pairs(sg), ", ".join("(%s, %s)" % (_lean_str(c), _lean_pairs(a)) for c, a in calls)) for m, sg, calls in rows),
               ",\n".join("  { cls := %s, src := %s, sig := %s }" % (_lean_str(c), _lean_str(w), _lean_pairs(sg)) for c, w, sg in ctors)))
    try:
        ps, pc = _lean_prog(extract_program(repo, "shuffle")), _lean_prog(extract_program(repo, "chunk"))
    except Exception:  # noqa: BLE001 - an unextractable body breaks shuffle_chunk_programs_as_modelled
        ps = pc = "[]"
    body = body.replace("PROG_SHUFFLE", ps).replace("PROG_CHUNK", pc)
    for tag, args in (("PROG_FFINIT", ("__init__", "coba/pipes/filters.py", "FiltersFilter")), ("PROG_FFFILTER", ("filter", "coba/pipes/filters.py", "FiltersFilter")),
                      ("PROG_SFINIT", ("__init__", "coba/pipes/sources.py", "SourceFilters")), ("PROG_SFREAD", ("read", "coba/pipes/sources.py", "SourceFilters")),
                      ("PROG_ENVFILTER", ("filter", "coba/environments/core.py", "Environments"))):
        try:
            txt = _lean_prog(extract_program(repo, *args))
        except Exception:  # noqa: BLE001 - an unextractable body breaks pipeline_code_as_modelled
            txt = "[]"
        body = body.replace(tag, txt)
    return body, rows, ctors


# ---------------------------------------------------------------- the property
class C09(Property):
    id = "C09"
    prop_modules = ["CobaVerif.Props.C09"]
    quick_n = 6000
    thorough_n = 60000
    search_n = 4000
    case_timeout = 60
    workers = 8
    rule = ("one filter applied to one interaction sequence of length 0-40 (simulated / logged / grounded / context-less; dense list or tuple, "
            "sparse, scalar number or string, None contexts; list or callable rewards), handed over as list, iterator or generator, directly or "
            "through Environments.<method>; parameters: seeds (small, >2^30, float, seeds whose k-th uniform is 0 or 1-2^-30), counts 0/None/"
            "around the length, strict, slice start/stop/step incl. None, where-ranges exact/one-sided/two-sided around the actual counts, "
            "sort keys (none, indices, names, missing sparse keys, duplicates of key values), riffle spacing 0-6, batch sizes 0-N+1, cache "
            "read histories with abandoned reads; 12 % collections of 2-3 different environments behind one Environments shortcut, read in a "
            "PRNG-chosen order with re-reads and abandoned reads; 6 % environments x filters products (Environments.filter([f..]), shuffle(seeds=[..]), "
            "reservoir(n, seeds=[..])) with the member order compared; 4 % hand-made Unbatch inputs (fully batched with uneven sizes, un-batched, mixed "
            "cells, numbers / nested lists); 15 % of the accessor-free filters additionally through BatchSafe on hand-made batches of uneven sizes "
            "incl. an empty first batch; 8 % additionally through BatchSafe on the plain and on the batched input; non-trivial = the input has >= 2 interactions and the filter is not Identity/Chunk/Params; "
            "5 % 2-3 environments (up to 60 interactions) behind .cache()/.chunk() with shuffle / reservoir / sort / riffle (and selecting) branches, reads closed / dropped / "
            "alive (cachemulti); 3 % every call form of Environments.shuffle (n=, seed=, seeds=, nested lists, positional, nothing) and chunk(cache) (shufcall); corpus: 15 long reservoir runs "
            "(25-234 replacement steps, crossing the 20-triple batch of Reservoir.filter) checked against an independent Algorithm L over public CobaRandom calls; "
            "7 % pipelines of 2-5 filters on one environment (chain): chained Environments shortcuts / one Pipes.join / nested Pipes.join calls of any shape / "
            "a FiltersFilter applied to the interactions, 45 % of the following stages of the same kind as the one before (a third of those with the same "
            "parameters, then possibly the same OBJECT at both positions), read completely, again, abandoned (closed), again; "
            "distinct by canonical JSON of the case")
    trusted_base = [
        "Reservoir's W = W*r1**x, S = floor(log(r2,1-W)), slot = int(r3*n) are evaluated by the model itself on Lean `Float` (IEEE doubles, the C "
        "library's log/pow, the ones CPython calls); on every case the harness recomputes them in Python from the model's generator state and "
        "compares the two step lists, and the size/subset/distinctness theorems hold for every step list whatsoever",
        "str(seed*3.21) / str(seed) for non-integer seeds is computed by CPython in the harness and passed to the model as bytes (Seed.bytes)",
        "Python's sorted() is stable and compares key tuples lexicographically (the model uses a stable insertion sort on the same order)",
        "itertools.islice semantics (modelled as take/drop/every-step-th)",
    ]
    assumptions = [
        "seed None (time seeded) is excluded; Slice steps are >= 1; sort keys exist in every dense context and compare (no str/number mix); "
        "missing / unsubscriptable sort keys are generated as correspondence-only cases (the model raises the same exception kind)",
        "Sort() without keys on sparse contexts orders by the tuple of key NAMES (sort_sparse_no_keys_order); the property's 'chosen context keys' "
        "is read as not covering that case: (B) demands a permutation there, (A) pins the behaviour",
        "all interactions of one sequence are of one kind (same key set) - Batch takes the key set from the first interaction "
        "(batch_unbatch_id_partial + counterexamples; batchsafe_eq_plain uses the same hypothesis)",
        "one reader at a time on a Cache object (interleaved concurrent generators belong to C04/C19)",
        "torch batches are excluded (optional package not installed)",
        "inside BatchSafe only accessor-free inner filters (Take, Slice, Shuffle, Riffle, Reservoir, Identity/Chunk/Params) are run on hand-made "
        "uneven / empty-first batches: with an empty first batch the inner filter sees whole batches, which Sort/Where cannot read",
        "Unbatch's values are modelled as numbers or (nested) lists; strings (indexable like lists) are not generated",
    ]
    partial_theorems = {
        "reservoir_total_partial": "no exception provided no iteration's float computation raises (statement about arbitrary step lists)",
        "reservoir_total_under_laws": "no exception under the stated laws of the arithmetic (FloatLaws); real arithmetic satisfies them (float_laws_satisfiable), IEEE doubles "
                                      "break oneMinus_unit once W < 2^-53 (reservoir_underflow_counterexample) - needs a skip of > 10^9 items first, unreachable for real streams",
        "unbatch_rows_partial": "Unbatch delivers the rows in order only for fully batched interactions that carry the first batched key of the first one; mixed plain/batched "
                                "sequences are excluded inputs (unbatch_mixed_counterexample 1-3: spurious rows, TypeError, batches passed through)",
        "batch_unbatch_id_partial": "needs one common key set per sequence; Batch reads the keys of the first interaction only (counterexamples batch_unbatch_id_counterexample/2)",
    }

    # ------------------------------------------------------------ generators
    def pre_build(self):
        """translator step: the shortcut -> filter-class(argument) table of `Environments` and the constructor signatures of the
        filter classes, read off the CURRENT source with `ast`, written to lean/CobaVerif/Generated/C09Shortcuts.lean;
        `shortcuts_wired_as_modelled` (Props/C09.lean) proves it equal to the table the model assumes"""
        from core import lean
        repo = os.environ.get("COBA_REPO", "/repo")
        try:
            body, rows, ctors = shortcuts_lean(repo)
            notes = ["shortcut table extracted: %d Environments methods, %d filter constructors" % (len(rows), len(ctors))]
        except Exception as e:  # noqa: BLE001
            body = ("-- GENERATED: the shortcut table could not be extracted (%s)\n"
                    "import CobaVerif.Model.C09\nnamespace Coba.Generated.C09\nopen Coba.C09\n"
                    "def extracted : Bool := false\ndef shortcuts : List ShortcutRow := []\ndef ctors : List CtorRow := []\n"
                    "def shuffleProgram : List PLine := []\ndef chunkProgram : List PLine := []\n"
                    "def filtersFilterInit : List PLine := []\ndef filtersFilterFilter : List PLine := []\ndef sourceFiltersInit : List PLine := []\n"
                    "def sourceFiltersRead : List PLine := []\ndef environmentsFilter : List PLine := []\n"
                    "end Coba.Generated.C09\n" % str(e).replace("\n", " ")[:150])
            notes = ["shortcut table could NOT be extracted (%s): shortcuts_wired_as_modelled fails" % e]
        path = os.path.join(lean.LEAN_DIR, "CobaVerif", "Generated", "C09Shortcuts.lean")
        old = open(path, encoding="utf-8").read() if os.path.exists(path) else None
        if old != body:
            os.makedirs(os.path.dirname(path), exist_ok=True)
            with open(path, "w", encoding="utf-8") as f:
                f.write(body)
        return notes

    def gen_value(self, rng, kind):
        if kind == "int":
            return rng.randint(-3, 3)
        if kind == "float":
            return rng.choice([0.5, -1.25, 2.0, 0.0, 3.5, 1.0])
        return rng.choice(["a", "b", "ab", "B", "", "z", "é"])

    def gen_items(self, rng, n, kind, ctx, rew):
        """n items of one kind / context shape. Values are drawn from small pools so key ties are frequent."""
        width = rng.randint(1, 3)
        colk = [rng.choice(["int", "int", "float", "str"]) for _ in range(width)]
        spkeys = rng.choice([["a", "b", "c"], [1, 2, 3], ["x", "y"]])
        items = []
        vary_acts = rng.chance(0.6)
        for i in range(n):
            it = {"id": i if not self._sparse_ids else i * 3 + 1}
            if ctx == "none":
                it["ctx"] = None
            elif ctx == "num":
                it["ctx"] = rng.choice([0, 1, 2, -1, 0.5, 3])
            elif ctx == "str":
                it["ctx"] = rng.choice(["a", "abc", "b", "xy"])
            elif ctx in ("list", "tuple"):
                vals = [self.gen_value(rng, k) for k in colk]
                it["ctx"] = {"l" if ctx == "list" else "t": vals}
            elif ctx == "ragged":      # dense contexts of different lengths (numbers only)
                it["ctx"] = {"l": [rng.randint(0, 2) for _ in range(rng.randint(0, 3))]}
            elif ctx == "dict":
                ks = [k for k in spkeys if rng.chance(0.6)]
                it["ctx"] = {"d": [[k, rng.choice([1, 2, 0.5, -1, 3])] for k in rng.shuffle(ks)]}
            na = rng.choice([2, 3, 4]) if vary_acts else 3
            acts = rng.choice([[1, 2, 3, 4], ["x", "y", "z", "w"], [[1, 0], [0, 1], [1, 1], [0, 0]]])[:na]
            if kind in ("sim", "grd", "bare"):
                it["actions"] = acts
                if rew == "list":
                    it["rewards"] = [rng.choice([0, 1, 0.5]) for _ in acts]
                elif rew == "l1":
                    it["rewards"] = {"l1": rng.randint(0, 3)}
                else:
                    it["rewards"] = {"disc": [acts, [rng.choice([0, 1]) for _ in acts]]}
                if kind == "grd":
                    it["feedbacks"] = [rng.choice([0, 1]) for _ in acts]
            else:
                it["action"] = acts[rng.below(len(acts))]
                it["reward"] = rng.choice([0, 1, 0.25])
                if self._log_prob:
                    it["probability"] = rng.choice([0.5, 0.25, 1.0])
                if self._log_acts:
                    it["actions"] = acts
            if self._extra:
                it["extra"] = {"note": rng.choice(["p", "q"]), "n": rng.randint(0, 9)}
            if kind == "bare" and self._bare_keys:
                it.setdefault("extra", {}).update({k: 1 for k in self._bare_keys})
            items.append(it)
        return items, {"width": width, "spkeys": spkeys}

    def gen_seed(self, rng, nonneg_int=False, boundary_at=()):
        r = rng.below(100)
        if boundary_at and r < 35:
            k = rng.choice(list(boundary_at))
            t = rng.choice([0, 0, 0, M_ - 1, 1])
            return {"kind": "int", "v": seed_for(k, t) + (M_ * rng.randint(0, 2) if rng.chance(0.2) else 0)}
        if r < 70 or nonneg_int:
            return {"kind": "int", "v": rng.choice([rng.randint(0, 10), rng.randint(0, 1000), 100 * rng.randint(0, 50), rng.randint(0, 2 ** 40), rng.randint(0, M_ - 1)])}
        if r < 80:
            return {"kind": "int", "v": -rng.randint(1, 10 ** 6)}
        if r < 88:
            return {"kind": "float", "v": repr(float(rng.choice([0, 3, 7, 10 ** 6, 2 ** 31 + 5])))}
        if r < 96:
            return {"kind": "float", "v": repr(rng.choice([1.5, 0.1, -3.25, 1.23, 7.77]))}
        return {"kind": "str", "v": rng.choice(["abc", "seed", "1.5"])}

    def gen_count(self, rng, n):
        return rng.choice([0, 1, 2, max(0, n - 1), n, n + 1, n + 5, rng.randint(0, n + 2), None])

    def gen_range(self, rng, v, allow_none=True):
        """a Where bound around the actual value v"""
        r = rng.below(100)
        if r < 8 and allow_none:
            return None
        if r < 30:
            return rng.choice([v, v, max(0, v - 1), v + 1, 0])
        lo = rng.choice([None, 0, max(0, v - 2), max(0, v - 1), v, v + 1])
        hi = rng.choice([None, max(0, v - 3), max(0, v - 1), v, v + 1, v + 3])
        if r < 60:
            lo, hi = rng.choice([(lo, None), (None, hi)])
        elif lo is not None and hi is not None and lo > hi and rng.chance(0.8):
            lo, hi = hi, lo
        out = {"min": lo, "max": hi}
        if rng.chance(0.2):
            out["list"] = True
        return out

    MULTI_OPS = ("eshuffle", "take", "slice", "reservoir", "sort", "where", "riffle", "batch", "cache", "chunk", "params", "identity")

    def generate(self, rng, tier, boundary=False):
        r = rng.below(100)
        if r < 11:
            return self.generate_multi(rng, tier, boundary)
        if r < 17:
            return self.generate_product(rng, tier, boundary)
        if r < 21:
            return self.generate_unbatchg(rng)
        if r < 28:
            return self.generate_cachepipe(rng, tier, boundary)
        if r < 33:
            return self.generate_cachemulti(rng, tier, boundary)
        if r < 36:
            return self.generate_shufcall(rng, tier, boundary)
        if r < 43:
            return self.generate_chain(rng, tier, boundary)
        return self.generate_single(rng, tier, boundary)

    # ------------------------------------------------------------ selecting filters around a shared .cache() / .chunk()
    def gen_random_branch(self, rng, n, rnd):
        """a whole-input shortcut (shuffle / reservoir / sort / riffle) downstream of a cache; rnd = (context shape, meta of gen_items)"""
        ctx, meta = rnd
        kinds = [(30, "eshuffle"), (30, "reservoir"), (20, "riffle")] + ([(25, "sort")] if ctx in ("list", "dict") else [])
        b = rng.wchoice(kinds)
        if b == "eshuffle":
            return {"name": "eshuffle", "seed": self.gen_seed(rng, nonneg_int=True), "how": rng.below(4)}
        if b == "reservoir":
            return {"name": "reservoir", "count": rng.choice([0, 0, 1, 2, 24, 25, 26, max(0, n - 1), n, n + 1, None, rng.randint(0, n + 2)]),
                    "strict": rng.chance(0.4), "seed": self.gen_seed(rng, nonneg_int=True), "how": rng.below(2)}
        if b == "riffle":
            return {"name": "riffle", "spacing": rng.choice([0, 1, 2, 3, 6, 25]), "seed": self.gen_seed(rng, nonneg_int=True)}
        if ctx == "list":
            keys = [rng.below(meta["width"]) for _ in range(rng.randint(0, 2))]
        else:
            keys = [rng.choice(meta["spkeys"]) for _ in range(rng.randint(1, 2))]
        return {"name": "sort", "keys": keys}

    def gen_branch(self, rng, n, items, rnd=None):
        """one downstream shortcut on a cached environment of n interactions (None = the cached environment itself)"""
        b = rng.wchoice([(30, "take"), (22, "slice"), (20, "where"), (8, "params"), (5, "identity"), (15, "none")] + ([(45, "random")] if rnd is not None else []))
        if b == "random":
            return self.gen_random_branch(rng, n, rnd)
        near = [0, 1, 2, 3, 24, 25, 26, 49, 50, 51, max(0, n - 1), n, n + 1, rng.randint(0, n + 2)]
        if b == "take":
            op = {"name": "take", "count": rng.choice(near + [None])}
            if rng.chance(0.8):
                op["strict"] = rng.chance(0.4)
            return op
        if b == "slice":
            return {"name": "slice", "start": rng.choice([None, 0, 1, 2, 25, 26, rng.randint(0, n + 1)]), "stop": rng.choice([None] + near), "step": rng.choice([None, 1, 2, 3, 25])}
        if b == "where":
            op = {"name": "where"}
            r = rng.below(100)
            if r < 70:
                op["n_interactions"] = self.gen_range(rng, rng.choice([n, n, 25, 26, 1]))
            if r >= 50:
                acts = [len(it["actions"]) for it in items if it.get("actions") is not None]
                if len(acts) == len(items):
                    op["n_actions"] = self.gen_range(rng, rng.choice(acts) if acts else 2)
            if len(op) == 1:
                op["n_interactions"] = self.gen_range(rng, n)
            return op
        if b == "none":
            return None
        return {"name": b}

    def generate_cachepipe(self, rng, tier, boundary=False):
        """ONE environment -> [take/slice] -> .cache()/.chunk() -> several downstream shortcuts (take/slice/where/params/none) that
        share the one Cache object; a history of reads of the branches: complete, abandoned after k items with the generator
        closed / dropped / kept alive; a final complete read of every branch is appended by evaluate"""
        n = rng.choice([0, 1, 3, 10, 24, 25, 26, 27, 40, 49, 50, 51, 60, 70]) if not boundary else rng.choice([2, 26, 30, 51, 60])
        kind = rng.wchoice([(60, "sim"), (30, "log"), (10, "grd")])
        self._sparse_ids = rng.chance(0.2)
        self._log_prob = rng.chance(0.6)
        self._log_acts = True
        self._extra = rng.chance(0.2)
        self._bare_keys = []
        ctxk = rng.choice(["list", "list", "dict", "none"])
        items, meta = self.gen_items(rng, n, kind, ctxk, "list")
        pre = None
        if rng.chance(0.25):
            pre = rng.choice([{"name": "take", "count": rng.choice([n, max(0, n - 3), 30, 26, 55]), "strict": False},
                              {"name": "slice", "start": rng.choice([None, 1, 5]), "stop": rng.choice([None, n, 40, 60]), "step": rng.choice([None, 1, 2])}])
        cop = rng.wchoice([(60, {"name": "cache"}), (25, {"name": "chunk", "default": True}), (15, {"name": "chunk", "cache": True})])
        nb = rng.choice([1, 1, 2, 2, 3])
        branches = [self.gen_branch(rng, n, items, (ctxk, meta)) for _ in range(nb)]
        reads = []
        if rng.chance(0.6):                              # the shape of the round-g change: short closed read, then everything
            reads.append([rng.below(nb), rng.choice([1, 1, 2, 3, 25, 26]), rng.choice(["close", "close", "del"])])
        for _ in range(rng.randint(1, 5)):
            k = None if rng.chance(0.4) else rng.choice([0, 1, 2, 3, 24, 25, 26, 50, 51, rng.randint(0, n + 1)])
            reads.append([rng.below(nb), k, rng.wchoice([(55, "close"), (20, "del"), (25, "alive")])])
        return {"kind": kind, "items": items, "op": {"name": "cachepipe", "cache": cop, "pre": pre, "branches": branches}, "reads": reads,
                "input": rng.choice(["list", "iter", "gen"])}

    def corpus_reslong(self):
        """round h: long reservoir runs that cross the internal batch boundary of Reservoir.filter (20 triples = 60 uniforms per
        `rng.randoms` call): 25-40, 41-63 and >= 64 replacement steps, several seeds, pipes / environment class / Environments.reservoir"""
        def its(n):
            return [{"id": i, "ctx": None, "actions": [1, 2], "rewards": [0, 1]} for i in range(n)]
        cs = []
        for N, c, seed, extra in ((150, 10, 1, {}), (150, 10, 2, {"pipes": True}), (150, 10, 3, {}), (300, 8, 2, {"via_env": True}),      # 25-40 steps
                                  (200, 10, 1, {}), (400, 10, 1, {"pipes": True}), (400, 10, 7, {}), (1000, 10, 2, {"via_env": True}),  # 41-63
                                  (400, 20, 1, {}), (400, 20, 2, {"pipes": True}), (400, 20, 3, {"via_env": True}), (600, 30, 1, {}),
                                  (1000, 100, 1, {}), (1000, 100, 3, {"pipes": True}), (1000, 10, 1, {})):                             # >= 64 / 57
            op = {"name": "reservoir", "count": c, "strict": seed % 2 == 0, "seed": {"kind": "int", "v": seed}}
            case = {"kind": "sim", "items": its(N), "op": op, "input": "iter" if extra.get("pipes") else "list"}
            if extra.get("pipes"):
                op["pipes"] = True
            if extra.get("via_env"):
                case["via_env"] = True
            cs.append(case)
        return cs

    def corpus_cachepipe(self, sim, log):
        cs = []
        t3, t40 = {"name": "take", "count": 3, "strict": False}, {"name": "take", "count": 40, "strict": True}
        sl = {"name": "slice", "start": 2, "stop": 55, "step": 3}
        wh = {"name": "where", "n_interactions": {"min": 30, "max": 60}}
        whm = {"name": "where", "n_interactions": {"min": None, "max": 70}}
        par = {"name": "params"}
        for cop in ({"name": "cache"}, {"name": "chunk", "default": True}):
            # the demo of the round-g change: take(3) and the whole cached environment share one Cache
            cs.append({"kind": "sim", "items": sim(60), "op": {"name": "cachepipe", "cache": cop, "pre": None, "branches": [t3, par]}, "reads": [[0, None, "close"], [1, None, "close"], [0, None, "close"]], "input": "gen"})
            for b in (None, t40, sl, wh, whm):
                for how in ("close", "del", "alive"):
                    cs.append({"kind": "sim", "items": sim(60), "op": {"name": "cachepipe", "cache": cop, "pre": None, "branches": [b]}, "reads": [[0, 1, how], [0, None, how]], "input": "gen"})
            cs.append({"kind": "log", "items": log(52), "op": {"name": "cachepipe", "cache": cop, "pre": {"name": "take", "count": 51, "strict": False}, "branches": [t3, sl, None]},
                       "reads": [[0, None, "close"], [1, 2, "close"], [2, 26, "del"], [1, None, "close"]], "input": "list"})
        return cs

    def evaluate_cachepipe(self, case, driver):
        """(B) every complete read of every branch delivers what the branch's filter promises for the environment's (pre-filtered)
        interactions, whatever was read, completed or abandoned (closed / dropped / alive) before; abandoned reads are prefixes"""
        import gc
        from coba.environments import Environments
        fails, tags = [], []
        op = case["op"]
        mode = case.get("input", "list")
        items = case["items"]
        n = len(items)
        R = Run({"kind": case["kind"], "items": items, "op": {"name": "cache"}, "input": mode})
        pre, cop, branches = op.get("pre"), op["cache"], op["branches"]
        ids = [it["id"] for it in items]
        if pre is None:
            base_ids = ids
        elif pre["name"] == "take":
            base_ids = ids[:pre["count"]]
        else:
            base_ids = ids[pre["start"]:pre["stop"]:pre.get("step")]
        by_id = {it["id"]: it for it in items}
        base_items = [by_id[i] for i in base_ids]
        nm = lambda b: "cached" if b is None else b["name"]
        what = "Environments(env[%d])%s.%s -> branches %s read %s" % (n, "" if pre is None else "." + json.dumps(pre), json.dumps(cop), json.dumps(branches), json.dumps(case["reads"]))
        tags += ["op:cachepipe", "cachepipe:" + cop["name"], "kind:" + case["kind"], "input:" + mode, "cachepipe:len" + ("<=25" if len(base_ids) <= 25 else ">25"),
                 "cachepipe:pre=" + ("none" if pre is None else pre["name"])]
        impl = {"reads": []}
        try:
            e0 = Environments(_list_env_class()(R.items, mode, 0))
            if pre is not None:
                e0 = apply_method(e0, pre)
            ec = apply_method(e0, cop)
            pipes = []
            for b in branches:
                eb = ec if b is None else apply_method(ec, b)
                ps = [p_ for l_ in pipes_by_env(eb).values() for p_ in l_]
                if len(ps) != 1:
                    fails.append(F("B", "%s: branch %s has %d pipelines for one environment" % (what, json.dumps(b), len(ps)), "cachepipe-%s-pipeline-count" % nm(b)))
                    return {"fails": fails, "nontrivial": False, "tags": tags, "impl": impl, "model": None}
                pipes.append(ps[0])
        except Exception as e:  # noqa: BLE001
            fails.append(F("B", "%s raised %s (%s) while building the pipelines" % (what, errname(e), str(e)[:100]), "cachepipe-method-raises-" + errname(e)))
            return {"fails": fails, "nontrivial": False, "tags": tags, "impl": impl, "model": None}
        subs = [{"kind": case["kind"], "items": base_items, "op": (b if b is not None else {"name": "cache"}), "input": mode} for b in branches]
        order = [list(r) for r in case["reads"]] + [[j, None, "close"] for j in range(len(branches))]
        full, alive, pending = {}, [], []
        for step, (j, k, how) in enumerate(order):
            b = branches[j]
            label = "read #%d of branch %d (%s), %s" % (step, j, nm(b), "complete" if k is None else "abandoned after %d (%s)" % (k, how))

            def bfail(msg, sig, label=label):
                fails.append(F("B", "%s: %s: %s" % (what, label, msg), "cachepipe-" + sig))
            try:
                g = iter(pipes[j].read())
                if k is None:
                    o = R.describe(list(g))
                else:
                    o = R.describe(list(itertools.islice(g, k)))
                    if how == "alive":
                        alive.append(g)
                    elif how == "close" and hasattr(g, "close"):
                        g.close()
                del g
                if how != "alive":
                    gc.collect(0)
            except Exception as e:  # noqa: BLE001
                o = {"err": errname(e), "msg": str(e)[:120]}
            impl["reads"].append([j, k, how, o.get("ids", o.get("err"))])
            tags.append("cachepipe:%s:%s" % (nm(b), "full" if k is None else "partial-" + how))
            if k is None:
                self.promise(subs[j], o, bfail, tags if step >= len(case["reads"]) else [])
                if j not in full:
                    full[j] = o
                    for (pj, pk, plabel, po) in [p for p in pending if p[0] == j]:
                        if "ids" in o and po != o["ids"][:pk]:
                            fails.append(F("B", "%s: %s delivered %s, the later complete read starts with %s" % (what, plabel, po, o["ids"][:pk]), "cachepipe-%s-partial-read-differs" % nm(b)))
                elif not same(full[j], o):
                    bfail("delivered %s, an earlier complete read of the same pipeline %s" % (o.get("ids", o.get("err")), full[j].get("ids", full[j].get("err"))), nm(b) + "-reread-differs")
            else:
                if "err" in o:
                    bfail("raised %s (%s)" % (o["err"], o.get("msg", "")), "%s-raises-%s" % (nm(b), o["err"]))
                elif o["bad"]:
                    bfail(o["bad"][0], nm(b) + "-content-altered")
                elif j in full and "ids" in full[j]:
                    if o["ids"] != full[j]["ids"][:k]:
                        bfail("delivered %s, a complete read of the same pipeline starts with %s" % (o["ids"], full[j]["ids"][:k]), nm(b) + "-partial-read-differs")
                else:
                    pending.append((j, k, label, o["ids"]))
        model = None
        if driver is not None and not fails:
            need = need_of
            req = {"op": "cachepipe", "nslice": 25, "items": model_items({"kind": case["kind"], "items": items}),
                   "pre": None if pre is None else self.inner_req(pre),
                   "reads": [[None if branches[j] is None else self.inner_req(branches[j]), need(branches[j], k), k] for j, k, how in order]}
            if any(isinstance(r[1], str) for r in req["reads"]):       # whole-input branches: the model computes the pull (pullNeed)
                base_case = {"kind": case["kind"], "items": base_items}
                req = {"op": "cachemulti", "nslice": 25, "items": [], "envs": [model_items(base_case)], "reads": [[0] + r for r in req["reads"]]}
                ans = dict(driver.ask(req), base=base_ids)
            else:
                ans = driver.ask(req)
            model = ans["reads"]
            got = [o for j, k, how, o in impl["reads"]]
            mo = [r.get("out", r.get("err")) for r in model]
            if ans["base"] != base_ids:
                fails.append(F("A", "%s: the filter before the cache leaves %s in the model, the harness expects %s" % (what, ans["base"], base_ids), "A:cachepipe-pre"))
            elif mo != got:
                i = next(i for i in range(len(got)) if i >= len(mo) or mo[i] != got[i])
                fails.append(F("A", "%s: read #%d %s delivers %s, the model (cachedRun) %s" % (what, i, order[i], got[i], mo[i] if i < len(mo) else None), "A:cachepipe"))
        return {"fails": fails, "nontrivial": len(base_ids) >= 2, "tags": tags, "impl": impl, "model": model}

    # ------------------------------------------------------------ several environments x own caches x downstream branches
    def generate_cachemulti(self, rng, tier, boundary=False):
        """2-3 environments (0-60 interactions, lengths around 25/50) -> .cache()/.chunk() -> 1-3 downstream shortcuts, at least one of
        them a whole-input one (shuffle / reservoir / sort / riffle); reads [branch, environment, k | None, close | del | alive]"""
        ne = rng.choice([2, 2, 3])
        kind = rng.wchoice([(60, "sim"), (30, "log"), (10, "grd")])
        self._sparse_ids = False
        self._log_prob = rng.chance(0.6)
        self._log_acts = True
        self._extra = rng.chance(0.2)
        self._bare_keys = []
        ctxk = rng.choice(["list", "list", "dict", "none"])
        lens = [rng.choice([0, 1, 3, 10, 24, 25, 26, 27, 40, 50, 51, 60]) for _ in range(ne)]
        if max(lens) <= 25:
            lens[rng.below(ne)] = rng.choice([26, 30, 51, 60])
        items, meta = self.gen_items(rng, sum(lens), kind, ctxk, "list")
        envs, at = [], 0
        for e, ln in enumerate(lens):
            envs.append([dict(it, id=1000 * e + i) for i, it in enumerate(items[at:at + ln])])
            at += ln
        n = max(lens)
        cop = rng.wchoice([(60, {"name": "cache"}), (25, {"name": "chunk", "default": True}), (15, {"name": "chunk", "cache": True})])
        nb = rng.choice([1, 2, 2, 3])
        branches = [self.gen_random_branch(rng, n, (ctxk, meta))] + [self.gen_branch(rng, n, items, (ctxk, meta)) for _ in range(nb - 1)]
        branches = [b for b in branches if b is None or b["name"] != "where" or "n_actions" not in b] or [None]
        branches = rng.shuffle(branches)
        nb = len(branches)
        reads = []
        if rng.chance(0.6):
            reads.append([rng.below(nb), rng.below(ne), rng.choice([1, 1, 2, 3, 25, 26]), rng.choice(["close", "close", "del"])])
        for _ in range(rng.randint(2, 6)):
            k = None if rng.chance(0.4) else rng.choice([0, 0, 1, 2, 3, 24, 25, 26, 50, 51, rng.randint(0, n + 1)])
            reads.append([rng.below(nb), rng.below(ne), k, rng.wchoice([(55, "close"), (20, "del"), (25, "alive")])])
        return {"kind": kind, "envs": envs, "op": {"name": "cachemulti", "cache": cop, "branches": branches}, "reads": reads,
                "input": rng.choice(["list", "iter", "gen"])}

    def corpus_cachemulti(self, sim, log):
        def env(off, n, mk):
            return [dict(it, id=off + i) for i, it in enumerate(mk(n))]
        sh = {"name": "eshuffle", "seed": {"kind": "int", "v": 5}, "how": 0}
        rs = {"name": "reservoir", "count": 26, "strict": False, "seed": {"kind": "int", "v": 3}, "how": 0}
        r0 = {"name": "reservoir", "count": 0, "strict": False, "seed": {"kind": "int", "v": 3}, "how": 0}
        rf = {"name": "riffle", "spacing": 3, "seed": {"kind": "int", "v": 1}}
        so = {"name": "sort", "keys": [0]}
        t3 = {"name": "take", "count": 3, "strict": False}
        cs = []
        for cop in ({"name": "cache"}, {"name": "chunk", "default": True}):
            for b in (sh, rs, r0, rf, so):
                for how in ("close", "del", "alive"):
                    cs.append({"kind": "sim", "envs": [env(0, 60, sim), env(1000, 27, sim)], "op": {"name": "cachemulti", "cache": cop, "branches": [t3, b]},
                               "reads": [[0, 0, None, how], [1, 1, 0, how], [1, 0, 1, how], [0, 1, 26, how], [1, 0, None, how]], "input": "gen"})
            cs.append({"kind": "log", "envs": [env(0, 51, log), env(1000, 0, log), env(2000, 26, log)], "op": {"name": "cachemulti", "cache": cop, "branches": [sh, None, rs]},
                       "reads": [[1, 2, 1, "close"], [0, 2, 2, "del"], [2, 0, 30, "close"], [0, 0, None, "close"], [1, 0, None, "alive"]], "input": "list"})
        return cs

    def evaluate_cachemulti(self, case, driver):
        """(B) every complete read of every (branch, environment) delivers what the branch's filter promises for THAT environment's
        interactions, the same on every re-read (determined by the seed), whatever was read / abandoned (closed, dropped, alive) of
        this or another environment or branch before; abandoned reads are prefixes of the complete read"""
        from coba.environments import Environments
        fails, tags = [], []
        op = case["op"]
        mode = case.get("input", "list")
        envs = case["envs"]
        cop, branches = op["cache"], op["branches"]
        runs = [Run({"kind": case["kind"], "items": e, "op": {"name": "cache"}, "input": mode}) for e in envs]
        nm = lambda b: "cached" if b is None else b["name"]
        what = "Environments(%s).%s -> branches %s read %s" % (", ".join("env%d[%d]" % (k, len(e)) for k, e in enumerate(envs)), json.dumps(cop), json.dumps(branches), json.dumps(case["reads"]))
        tags += ["op:cachemulti", "cachemulti:" + cop["name"], "kind:" + case["kind"], "input:" + mode, "cachemulti:envs=%d" % len(envs)]
        impl = {"reads": []}
        try:
            cls = _list_env_class()
            ec = apply_method(Environments([cls(r.items, mode, k) for k, r in enumerate(runs)]), cop)
            pipes = []
            for b in branches:
                by = pipes_by_env(ec if b is None else apply_method(ec, b))
                if sorted(by) != list(range(len(envs))) or any(len(v) != 1 for v in by.values()):
                    fails.append(F("B", "%s: branch %s has pipelines %s for %d environments" % (what, json.dumps(b), {k: len(v) for k, v in by.items()}, len(envs)), "cachemulti-%s-pipeline-count" % nm(b)))
                    return {"fails": fails, "nontrivial": False, "tags": tags, "impl": impl, "model": None}
                pipes.append({k: v[0] for k, v in by.items()})
        except Exception as e:  # noqa: BLE001
            fails.append(F("B", "%s raised %s (%s) while building the pipelines" % (what, errname(e), str(e)[:100]), "cachemulti-method-raises-" + errname(e)))
            return {"fails": fails, "nontrivial": False, "tags": tags, "impl": impl, "model": None}
        sub = lambda j, e: {"kind": case["kind"], "items": envs[e], "op": (branches[j] if branches[j] is not None else {"name": "cache"}), "input": mode}
        order = [list(r) for r in case["reads"]] + [[j, e, None, "close"] for j in range(len(branches)) for e in range(len(envs))]
        full, alive, pending = {}, [], []
        for step, (j, e, k, how) in enumerate(order):
            b, R = branches[j], runs[e]
            label = "read #%d of branch %d (%s) of environment #%d, %s" % (step, j, nm(b), e, "complete" if k is None else "abandoned after %d (%s)" % (k, how))

            def bfail(msg, sig, label=label):
                fails.append(F("B", "%s: %s: %s" % (what, label, msg), "cachemulti-" + sig))
            try:
                g = iter(pipes[j][e].read())
                if k is None:
                    o = R.describe(list(g))
                else:
                    o = R.describe(list(itertools.islice(g, k)))
                    if how == "alive":
                        alive.append(g)
                    elif how == "close" and hasattr(g, "close"):
                        g.close()
                del g
                if how != "alive":
                    gc.collect(0)
            except Exception as ex:  # noqa: BLE001
                o = {"err": errname(ex), "msg": str(ex)[:120]}
            impl["reads"].append([j, e, k, how, o.get("ids", o.get("err"))])
            tags.append("cachemulti:%s:%s" % (nm(b), "full" if k is None else "partial-" + how))
            if k is None:
                self.promise(sub(j, e), o, bfail, tags if step >= len(case["reads"]) else [])
                if (j, e) not in full:
                    full[(j, e)] = o
                    for (pj, pe, pk, plabel, po) in [p for p in pending if p[0] == j and p[1] == e]:
                        if "ids" in o and po != o["ids"][:pk]:
                            fails.append(F("B", "%s: %s delivered %s, the later complete read starts with %s" % (what, plabel, po, o["ids"][:pk]), "cachemulti-%s-partial-read-differs" % nm(b)))
                elif not same(full[(j, e)], o):
                    bfail("delivered %s, an earlier complete read of the same pipeline %s (not determined by the seed / the input)" % (o.get("ids", o.get("err")), full[(j, e)].get("ids", full[(j, e)].get("err"))), nm(b) + "-reread-differs")
            else:
                if "err" in o:
                    bfail("raised %s (%s)" % (o["err"], o.get("msg", "")), "%s-raises-%s" % (nm(b), o["err"]))
                elif o["bad"]:
                    bfail(o["bad"][0], nm(b) + "-content-altered")
                elif (j, e) in full and "ids" in full[(j, e)]:
                    if o["ids"] != full[(j, e)]["ids"][:k]:
                        bfail("delivered %s, a complete read of the same pipeline starts with %s" % (o["ids"], full[(j, e)]["ids"][:k]), nm(b) + "-partial-read-differs")
                else:
                    pending.append((j, e, k, label, o["ids"]))
        model = None
        if driver is not None and not fails:
            req = {"op": "cachemulti", "nslice": 25, "items": [], "envs": [model_items({"kind": case["kind"], "items": e_}) for e_ in envs],
                   "reads": [[e, None if branches[j] is None else self.inner_req(branches[j]), need_of(branches[j], k), k] for j, e, k, how in order]}
            ans = driver.ask(req)
            model = ans["reads"]
            got = [r[4] for r in impl["reads"]]
            mo = [r.get("out", r.get("err")) for r in model]
            if mo != got:
                i = next(i for i in range(len(got)) if i >= len(mo) or mo[i] != got[i])
                fails.append(F("A", "%s: read #%d %s delivers %s, the model (multiCachedRun, pull %s) %s" % (what, i, order[i], got[i], ans["needs"][i] if i < len(mo) else None, mo[i] if i < len(mo) else None), "A:cachemulti"))
            for (j, e, k, how), nd in zip(order, ans["needs"]):
                if isinstance(need_of(branches[j], k), str):
                    tags.append("cachemulti:pull-" + need_of(branches[j], k) + ("-all" if nd is None else "-%d" % nd))
        return {"fails": fails, "nontrivial": sum(1 for e_ in envs if len(e_) >= 2) >= 1, "tags": tags, "impl": impl, "model": model}

    # ------------------------------------------------------------ the control flow of Environments.shuffle / .chunk
    def generate_shufcall(self, rng, tier, boundary=False):
        """Environments(1-3 short environments).shuffle(<every call form>): n=k, seed=v, seeds=v, seeds=[...] (nested one level, empty,
        duplicates, unsorted), positional seeds, nothing; plus chunk() / chunk(cache=True/False)"""
        ne = rng.choice([1, 2, 2, 3])
        self._sparse_ids, self._log_prob, self._log_acts, self._extra, self._bare_keys = False, False, True, False, []
        kind = rng.choice(["sim", "log"])
        envs = []
        for e in range(ne):
            items, _ = self.gen_items(rng, rng.choice([0, 1, 2, 4, 6]), kind, "list", "list")
            envs.append([dict(it, id=100 * e + i) for i, it in enumerate(items)])
        sd = lambda: rng.choice([0, 0, 1, 1, 2, 3, 5, 9, 40, 2 ** 30 + 1])
        def row():
            out = []
            for _ in range(rng.choice([0, 1, 2, 2, 3, 4])):
                out.append(sd() if rng.chance(0.75) else [sd() for _ in range(rng.choice([0, 1, 2, 3]))])
            return out
        form = rng.below(6)
        if form == 0:
            call = {"n": rng.choice([0, 0, 1, 2, 3, 5])}
        elif form == 1:
            call = {"int": sd(), "kw": rng.choice(["seed", "seeds", "pos"])}
        elif form in (2, 3):
            call = {"row": row(), "kw": rng.choice(["seeds", "seeds", "seed", "pos"])}
            if call["kw"] == "pos":          # shuffle([..]) is already one level deep: only plain seeds inside (deeper nesting is not a legal call)
                call["row"] = [x for x in call["row"] if isinstance(x, int)]
        else:
            call = {"args": row() if form == 4 else []}
        return {"kind": kind, "envs": envs, "op": {"name": "shufcall", "call": call, "chunk": rng.choice(["default", True, False])}, "input": "list"}

    def corpus_shufcall(self, sim):
        def env(off, n):
            return [dict(it, id=off + i) for i, it in enumerate(sim(n))]
        cs = []
        for call in ({"n": 0}, {"n": 1}, {"n": 3}, {"int": 0, "kw": "seed"}, {"int": 0, "kw": "seeds"}, {"int": 0, "kw": "pos"}, {"int": 7, "kw": "seed"},
                     {"row": [], "kw": "seeds"}, {"row": [3, 1, 2], "kw": "seeds"}, {"row": [[4, 2], 3], "kw": "seeds"}, {"row": [[], 0], "kw": "seed"},
                     {"row": [[]], "kw": "seeds"}, {"row": [2, 2, 1], "kw": "pos"}, {"args": []}, {"args": [5, 1]}, {"args": [[3, 1], 2]}, {"args": [0]}):
            for ck in ("default", False):
                cs.append({"kind": "sim", "envs": [env(0, 4), env(100, 2)], "op": {"name": "shufcall", "call": call, "chunk": ck}, "input": "list"})
        return cs

    def evaluate_shufcall(self, case, driver):
        from coba.environments import Environments
        from coba.environments import filters as EF
        fails, tags = [], []
        call, envs = case["op"]["call"], case["envs"]
        runs = [Run({"kind": case["kind"], "items": e, "op": {"name": "identity"}, "input": "list"}) for e in envs]
        cls = _list_env_class()
        mk = lambda: Environments([cls(r.items, "list", k) for k, r in enumerate(runs)])
        form = "n" if "n" in call else "int-" + call["kw"] if "int" in call else "row-" + call["kw"] if "row" in call else "args"
        what = "Environments(%s).shuffle(%s)" % (", ".join("env%d[%d]" % (k, len(e)) for k, e in enumerate(envs)), json.dumps(call))
        tags += ["op:shufcall", "shufcall:" + form, "kind:" + case["kind"]]
        impl = {}
        try:
            if "n" in call:
                e = mk().shuffle(n=call["n"])
            elif "args" in call:
                e = mk().shuffle(*call["args"])
            else:
                v = call["int"] if "int" in call else call["row"]
                e = mk().shuffle(v) if call["kw"] == "pos" else mk().shuffle(**{call["kw"]: v})
            members = []
            for pipe in getattr(e, "_envs"):
                parts = list(pipe)
                if isinstance(parts[-1], EF.BatchSafe) and isinstance(getattr(parts[-1], "_filter", None), EF.Finalize):
                    parts = parts[:-1]
                sh = [p_ for p_ in parts[1:] if isinstance(p_, EF.Shuffle)]
                members.append((getattr(parts[0], "idx", None), sh[0]._seed if len(sh) == 1 and len(parts) == 2 else "?", parts))
        except Exception as ex:  # noqa: BLE001
            fails.append(F("B", "%s raised %s (%s)" % (what, errname(ex), str(ex)[:100]), "shufcall-%s-raises-%s" % (form, errname(ex))))
            return {"fails": fails, "nontrivial": False, "tags": tags, "impl": impl, "model": None}
        impl["members"] = [[i, sd] for i, sd, _ in members]
        # (B) the seeds asked for (n=k means range(k); sequences flattened): every (environment, seed) once; each member = Shuffle(seed) of its environment
        if "n" in call:
            want = list(range(call["n"]))
        elif "int" in call:
            want = [call["int"]]
        else:
            want = [x for el in (call["row"] if "row" in call else call["args"]) for x in (el if isinstance(el, list) else [el])]
        tags.append("shufcall:seeds=%s" % ("0" if not want else "1" if len(want) == 1 else "dups" if len(set(want)) < len(want) else ">1"))
        if want:
            exp_pairs = sorted((i, sd) for i in range(len(envs)) for sd in want)
            if sorted((i, sd) if isinstance(sd, int) and i is not None else (-1, -1) for i, sd, _ in members) != exp_pairs:
                fails.append(F("B", "%s built the members (environment, seed) %s, asked for: every environment with each of the seeds %s" % (what, impl["members"], want), "shufcall-%s-members" % form))
        if not fails:
            for i, sd, parts in members:
                if i is None or not isinstance(sd, int):
                    continue
                from coba.pipes import Pipes
                o = runs[i].read_once(lambda parts=parts: Pipes.join(*parts).read())
                d = runs[i].read_once(lambda i=i, sd=sd: EF.Shuffle(sd).filter(give(runs[i].items, "list")))
                if "err" in o or o["bad"] or sorted(o["ids"]) != sorted(runs[i].ids):
                    fails.append(F("B", "%s: member (environment #%d, seed %d) delivered %s, not a permutation of %s" % (what, i, sd, o.get("ids", o.get("err")), runs[i].ids), "shufcall-not-a-permutation"))
                elif not same(o, d):
                    fails.append(F("B", "%s: member (environment #%d, seed %d) delivered %s, Shuffle(%d) on the same interactions %s" % (what, i, sd, o["ids"], sd, d.get("ids")), "shufcall-not-determined-by-seed"))
        # chunk(): which filters follow each environment
        ck = case["op"].get("chunk", "default")
        try:
            ec = mk().chunk() if ck == "default" else mk().chunk(cache=ck)
            chunk_names = [[type(p_).__name__ for p_ in list(pipe)[1:]] for pipe in getattr(ec, "_envs")]
        except Exception as ex:  # noqa: BLE001
            chunk_names = "raised " + errname(ex)
        impl["chunk"] = chunk_names
        tags.append("shufcall:chunk=%s" % ck)
        model = None
        if driver is not None and not fails:
            mcall = {"n": call["n"]} if "n" in call else {"int": call["int"]} if "int" in call else {"row": call["row"]} if "row" in call and call["kw"] != "pos" else \
                    {"args": [call["row"]]} if "row" in call else {"args": call["args"]}
            if "int" in call and call["kw"] == "pos":
                mcall = {"args": [call["int"]]}
            model = driver.ask({"op": "shufcall", "items": [], "call": mcall, "nenv": len(envs)})
            if model["members"] != impl["members"]:
                fails.append(F("A", "%s: members (environment, seed) %s, the model (shuffleSeeds + sortedMembers) %s" % (what, impl["members"], model["members"]), "A:shufcall-" + form))
            if model["ran"] != model["seeds"]:
                fails.append(F("C", "%s: the interpreted program gives %s, shuffleSeeds %s" % (what, model["ran"], model["seeds"]), "C:shufcall-program"))
            mexp = model["chunk_true"] if ck in ("default", True) else model["chunk_false"]
            if chunk_names != [mexp] * len(envs):
                fails.append(F("A", "Environments(...).chunk(%s) appends %s to the environments, the model (chunkFilters) %s" % ("" if ck == "default" else "cache=%s" % ck, chunk_names, mexp), "A:chunk-filters"))
        return {"fails": fails, "nontrivial": len(want) >= 1 and sum(1 for e_ in envs if len(e_) >= 2) >= 1, "tags": tags, "impl": impl, "model": model}

    # ------------------------------------------------------------ phase 6: pipelines of several filters (composition depth / position)
    CHAIN_FORMS = ("methods", "join", "nested", "nested-src", "filter")

    def gen_stage(self, rng, n, items, ctxk, meta, prev=None):
        """one more filter of a pipeline; with a previous stage: 45 % the SAME kind again (2nd Take / Slice / Shuffle / Where ...),
        a third of those with the very same parameters"""
        if prev is not None and rng.chance(0.45):
            if rng.chance(0.35):
                return json.loads(json.dumps(prev))
            kind = prev["name"]
        else:
            kind = rng.wchoice([(18, "take"), (16, "slice"), (14, "where"), (14, "eshuffle"), (12, "reservoir"), (10, "riffle"), (5, "params"), (4, "identity")]
                               + ([(14, "sort")] if ctxk in ("list", "dict") else []))
        near = [1, 2, max(1, n - 2), max(1, n - 1), n, n + 1, rng.randint(1, n + 2)] + ([0] if rng.chance(0.3) else [])
        if kind == "take":
            op = {"name": "take", "count": rng.choice(near + [None])}
            if rng.chance(0.8):
                op["strict"] = rng.chance(0.35)
            return op
        if kind == "slice":
            return {"name": "slice", "start": rng.choice([None, 0, 1, 2, rng.randint(0, max(1, n // 2))]), "stop": rng.choice([None, None] + near), "step": rng.choice([None, 1, 2, 3])}
        if kind == "where":
            op = {"name": "where"}
            r = rng.below(100)
            if r < 70:
                op["n_interactions"] = self.gen_range(rng, rng.choice([n, n, max(0, n - 1), max(0, n - 2), 1]))
            if r >= 45:
                acts = [len(it["actions"]) for it in items if it.get("actions") is not None]
                if len(acts) == len(items):
                    op["n_actions"] = self.gen_range(rng, rng.choice(acts) if acts else 2)
            if len(op) == 1:
                op["n_interactions"] = self.gen_range(rng, n)
            return op
        if kind == "eshuffle":
            return {"name": "eshuffle", "seed": self.gen_seed(rng, nonneg_int=True), "how": rng.below(4)}
        if kind == "reservoir":
            return {"name": "reservoir", "count": rng.choice([1, 2, 3, max(1, n - 1), n, n + 1, None, rng.randint(0, n + 2)]),
                    "strict": rng.chance(0.3), "seed": self.gen_seed(rng, nonneg_int=True), "how": rng.below(2)}
        if kind == "riffle":
            return {"name": "riffle", "spacing": rng.choice([0, 1, 2, 3, 6]), "seed": self.gen_seed(rng, nonneg_int=True)}
        if kind == "sort":
            if ctxk == "list":
                keys = [rng.below(meta["width"]) for _ in range(rng.randint(0, 2))]
            else:
                keys = [rng.choice(meta["spkeys"]) for _ in range(rng.randint(1, 2))]
            return {"name": "sort", "keys": keys}
        return {"name": kind}

    def gen_shape(self, rng, idx):
        """a random nesting of the stage indices (order kept): the arguments of nested Pipes.join calls"""
        if len(idx) == 1:
            return [idx[0]] if rng.chance(0.3) else idx[0]
        out, i = [], 0
        while i < len(idx):
            w = rng.randint(1, len(idx) - i)
            grp = idx[i:i + w]
            out.append(self.gen_shape(rng, grp) if (len(grp) > 1 or rng.chance(0.3)) and len(grp) < len(idx) else (grp[0] if len(grp) == 1 else list(grp)))
            i += w
        return out

    def generate_chain(self, rng, tier, boundary=False):
        """ONE environment behind a pipeline of 2-5 filters - built by chained Environments shortcuts, by one Pipes.join, by nested
        Pipes.join calls (any nesting, with or without the source inside the first group) or as a FiltersFilter applied to the
        interactions; the same filter OBJECT may stand at several positions; the pipeline is read completely, again, abandoned, again"""
        n = rng.choice([0, 1, 2, 3, 5, 6, 8, 10, 13, 20, 30]) if not boundary else rng.choice([2, 3, 4, 5, 6, 8])
        kind = rng.wchoice([(55, "sim"), (30, "log"), (15, "grd")])
        self._sparse_ids = rng.chance(0.2)
        self._log_prob = rng.chance(0.6)
        self._log_acts = True
        self._extra = rng.chance(0.2)
        self._bare_keys = []
        ctxk = rng.choice(["list", "list", "dict", "none"])
        items, meta = self.gen_items(rng, n, kind, ctxk, "list")
        depth = rng.choice([2, 2, 2, 3, 3, 4, 5])
        stages, cur = [], n
        for _ in range(depth):
            st = self.gen_stage(rng, cur, items, ctxk, meta, stages[-1] if stages else None)
            stages.append(st)
            if st["name"] == "take" and st["count"] is not None:
                cur = min(cur, st["count"])
            elif st["name"] == "slice":
                cur = len(range(cur)[st["start"]:st["stop"]:st["step"]])
        form = rng.choice(self.CHAIN_FORMS)
        op = {"name": "chain", "stages": stages, "form": form, "same_object": rng.chance(0.5)}
        if form != "methods":
            op["shape"] = self.gen_shape(rng, list(range(depth)))
            if isinstance(op["shape"], int):
                op["shape"] = [op["shape"]]
        reads = [None] + [rng.choice([None, 0, 1, 2, rng.randint(0, n + 1)]) for _ in range(rng.randint(1, 3))]
        return {"kind": kind, "items": items, "op": op, "reads": reads, "input": rng.choice(["list", "iter", "gen"])}

    def corpus_chain(self, sim, log):
        cs = []
        t = lambda c, st=False: {"name": "take", "count": c, "strict": st}
        sl = lambda a, b, s=None: {"name": "slice", "start": a, "stop": b, "step": s}
        sh = lambda v: {"name": "eshuffle", "seed": {"kind": "int", "v": v}, "how": 0}
        rs = lambda c, v: {"name": "reservoir", "count": c, "strict": False, "seed": {"kind": "int", "v": v}}
        rf = lambda sp, v: {"name": "riffle", "spacing": sp, "seed": {"kind": "int", "v": v}}
        so = lambda *k: {"name": "sort", "keys": list(k)}
        wh = lambda **kw: dict({"name": "where"}, **kw)
        chains = [[t(5), t(3)], [t(3), t(5)], [t(2), t(3, True)], [t(4, True), t(4, True)], [sl(1, None, 2), sl(1, None, 2)], [sl(2, 9), sl(None, 3), sl(1, None)],
                  [sh(1), sh(1)], [sh(1), sh(2), sh(1)], [rs(6, 1), rs(3, 1)], [rf(2, 1), rf(2, 1)], [so(0), so(1)], [so(0), so(0)],
                  [wh(n_interactions={"min": 5, "max": None}), t(4), wh(n_interactions={"min": 5, "max": None})],
                  [wh(n_interactions={"min": None, "max": 4}), wh(n_interactions=10)], [t(8), sh(3), t(4), so(0), sl(1, None)],
                  [sh(5), t(6), rs(4, 2), rf(1, 3), t(3, True)], [{"name": "params"}, t(3), {"name": "identity"}, t(2)]]
        forms = [("methods", None), ("join", [0, 1, 2, 3, 4]), ("nested", [[0], [1, [2, [3, 4]]]]), ("nested-src", [[0, 1], [[2], 3], 4]), ("filter", [[[0, 1]], 2, [3, 4]])]
        for ci, ch in enumerate(chains):
            for fi, (form, shape) in enumerate(forms):
                if (ci + fi) % 2 and form not in ("methods", "nested"):
                    continue
                op = {"name": "chain", "stages": ch, "form": form, "same_object": True}
                if shape is not None:
                    def cut(node):
                        if isinstance(node, int):
                            return node if node < len(ch) else None
                        kids = [c for c in (cut(x) for x in node) if c is not None and c != []]
                        return kids
                    op["shape"] = cut(shape)
                cs.append({"kind": "log" if ci % 3 == 2 else "sim", "items": (log if ci % 3 == 2 else sim)(10), "op": op, "reads": [None, 2, None], "input": ("list", "iter", "gen")[ci % 3]})
        return cs

    def evaluate_chain(self, case, driver):
        """(B) stage by stage: filter i (a fresh object, alone) must deliver what it promises for what filter i-1 delivered; the
        pipeline - however it was put together, at every complete read - must deliver what the last stage delivers (each filter is
        a function of its parameters and its input, wherever it stands); abandoned reads are prefixes; content unchanged.
        (A) every stage, the pipeline, the nested join (spliced and member-by-member) and the number of filters against
        `pipeline` / `Pipe` of the model."""
        import gc
        from coba.environments import Environments
        from coba.pipes import Pipes
        fails, tags = [], []
        op, mode, items = case["op"], case.get("input", "list"), case["items"]
        stages, form = op["stages"], op["form"]
        n, k = len(items), len(op["stages"])
        R = Run({"kind": case["kind"], "items": items, "op": {"name": "identity"}, "input": mode})
        by_id = {it["id"]: it for it in items}
        obj_by_id = {it["id"]: o for it, o in zip(items, R.items)}
        names = [st["name"] for st in stages]
        what = "pipeline %s (%s%s) on %d %s interactions (%s)" % (" -> ".join(json.dumps(st) for st in stages), form,
                                                                  "" if form == "methods" else " " + json.dumps(op.get("shape")), n, case["kind"], mode)
        tags += ["op:chain", "chain:form=" + form, "chain:depth=%d" % k, "kind:" + case["kind"], "input:" + mode]
        for i in range(1, k):
            if names[i] == names[i - 1]:
                tags.append("chain:2nd-" + names[i] + ("-same-parameters" if stages[i] == stages[i - 1] else ""))
        if len(set(names)) < len(names):
            tags.append("chain:kind-repeated")

        def bfail(msg, sig):
            fails.append(F("B", "%s: %s" % (what, msg), "chain-" + sig))

        # ---- the stages, one at a time, each a fresh filter object applied to what the stage before delivered
        cur, stage_out, impl = [it["id"] for it in items], [], {"stages": [], "reads": []}
        for i, st in enumerate(stages):
            sub = {"kind": case["kind"], "items": [by_id[j] for j in cur], "op": st, "input": "list"}
            try:
                o = R.collect(mk_filter(st).filter(give([obj_by_id[j] for j in cur], "list" if i else mode)))
            except Exception as e:  # noqa: BLE001
                o = {"err": errname(e), "msg": str(e)[:120]}
            impl["stages"].append(o.get("ids", o.get("err")))
            stage_out.append(o)
            self.promise(sub, o, lambda msg, sig, i=i, st=st: bfail("stage %d (%s) alone on the %d interactions stage %d delivers: %s" % (i, st["name"], len(cur), i - 1, msg), sig), tags if i else [])
            if "err" in o or fails:
                break
            cur = o["ids"]
            tags.append("chain:stage%d-in=%s" % (i + 1, "0" if not cur else "1" if len(cur) == 1 else "2+"))
        if fails:
            return {"fails": fails, "nontrivial": False, "tags": tags, "impl": impl, "model": None}
        final = stage_out[-1]

        # ---- the pipeline as the case builds it
        try:
            same_obj = op.get("same_object")
            leaves = []
            for i, st in enumerate(stages):
                j = next((j for j in range(i) if stages[j] == st), None) if same_obj else None
                leaves.append(leaves[j] if j is not None else mk_filter(st))
            if any(leaves[i] is leaves[j] for i in range(k) for j in range(i)) and form != "methods":
                tags.append("chain:same-object-twice")
            src = _list_env_class()(R.items, mode, 0)
            if form == "methods":
                e = Environments(src)
                for st in stages:
                    e = apply_method(e, st)
                ps = list(getattr(e, "_envs"))
                if len(ps) != 1:
                    bfail("%d pipelines for one environment" % len(ps), "methods-pipeline-count")
                    return {"fails": fails, "nontrivial": False, "tags": tags, "impl": impl, "model": None}
                pipe = strip_finalize(ps[0])
                read = pipe.read
                nfilters = len(pipe) - 1
            elif form == "filter":
                ff = join_tree(op["shape"], leaves)
                read = lambda: ff.filter(give(R.items, mode))
                nfilters = len(ff)
            else:
                shape = op["shape"]
                if form == "nested-src" and len(shape) >= 1:
                    first = Pipes.join(src, join_tree(shape[0], leaves))
                    pipe = Pipes.join(first, *[join_tree(c, leaves) for c in shape[1:]])
                else:
                    pipe = Pipes.join(src, *[join_tree(c, leaves) for c in shape])
                read = pipe.read
                nfilters = len(pipe) - 1
        except Exception as e:  # noqa: BLE001
            bfail("building the pipeline raised %s (%s)" % (errname(e), str(e)[:100]), "build-raises-" + errname(e))
            return {"fails": fails, "nontrivial": False, "tags": tags, "impl": impl, "model": None}
        impl["nfilters"] = nfilters
        first_full = None
        for step, c in enumerate(list(case.get("reads") or [None]) + [None]):
            try:
                g = iter(read())
                if c is None:
                    o = R.describe(list(g))
                else:
                    o = R.describe(list(itertools.islice(g, c)))
                    if hasattr(g, "close") and step % 2:
                        g.close()
                del g
                gc.collect(0)
            except Exception as e:  # noqa: BLE001
                o = {"err": errname(e), "msg": str(e)[:120]}
            impl["reads"].append([c, o.get("ids", o.get("err"))])
            tags.append("chain:read-" + ("full" if c is None else "partial"))
            label = "read #%d (%s)" % (step, "complete" if c is None else "abandoned after %d" % c)
            if c is None:
                if first_full is None:
                    first_full = o
                if not same(o, final):
                    pos = "-".join(names) if k <= 2 else "%d-filters" % k
                    bfail("%s delivers %s, the stages one after the other deliver %s (stage outputs %s)" % (label, o.get("ids", o.get("err")), final.get("ids", final.get("err")), impl["stages"]),
                          ("pipeline-differs-from-its-stages" if step == 0 else "pipeline-reread-differs") + ":" + pos)
                    break
                if o.get("bad"):
                    bfail(o["bad"][0], "content-altered")
                    break
            else:
                if "err" in o:
                    if "err" not in final:
                        bfail("%s raised %s (%s)" % (label, o["err"], o.get("msg", "")), "partial-read-raises-" + o["err"])
                        break
                elif "ids" in final and o["ids"] != final["ids"][:c]:
                    bfail("%s delivers %s, a complete read starts with %s" % (label, o["ids"], final["ids"][:c]), "partial-read-differs")
                    break
                elif o["bad"]:
                    bfail(o["bad"][0], "content-altered")
                    break
        model = None
        if driver is not None and not fails:
            reqs = [self.inner_req(st) for st in stages]
            tree = (lambda f: f(f, op["shape"]))(lambda f, node: reqs[node] if isinstance(node, int) else [f(f, c) for c in node]) if form != "methods" else list(reqs)
            ans = driver.ask({"op": "chain", "ops": reqs, "tree": tree, "items": model_items({"kind": case["kind"], "items": items})})
            model = ans
            mo = lambda r: r.get("out", r.get("err"))
            mst = [mo(r) for r in ans["stages"]]
            for i, o in enumerate(stage_out):
                if mst[i + 1] != o.get("ids", o.get("err")):
                    fails.append(F("A", "%s: stage %d (%s) delivers %s, the model's pipeline prefix %s" % (what, i, names[i], o.get("ids", o.get("err")), mst[i + 1]), "A:chain-stage-" + names[i]))
                    break
            else:
                got = first_full.get("ids", first_full.get("err")) if first_full else None
                if mo(ans["flat"]) != got:
                    fails.append(F("A", "%s: the pipeline delivers %s, the model (pipeline) %s" % (what, got, mo(ans["flat"])), "A:chain"))
                if not (mo(ans["flat"]) == mo(ans["joined"]) == mo(ans["unit"])):
                    fails.append(F("C", "%s: model: flat %s, spliced join %s, member by member %s" % (what, mo(ans["flat"]), mo(ans["joined"]), mo(ans["unit"])), "C:chain-join"))
                if not (ans.get("ran_filter") == ans.get("ran_read") == ans["joined"]):
                    fails.append(F("C", "%s: the interpreted method bodies give %s / %s, chainF %s" % (what, ans.get("ran_filter"), ans.get("ran_read"), ans["joined"]), "C:chain-program"))
                if ans["nfilters"] != nfilters:
                    fails.append(F("A", "%s: the joined pipe holds %d filters, the model's spliced list %d" % (what, nfilters, ans["nfilters"]), "A:chain-nfilters"))
        return {"fails": fails, "nontrivial": n >= 2 and k >= 2, "tags": tags, "impl": impl, "model": model}

    def generate_product(self, rng, tier, boundary=False):
        """2-3 environments x 2-3 filters of one kind through Environments.filter([...]) / shuffle(seeds=[...]) / reservoir(n, seeds=[...])"""
        base = self.generate_multi(rng, tier, boundary)
        for _ in range(50):
            if base["op"]["method"]["name"] in ("eshuffle", "take", "slice", "reservoir", "riffle", "where", "sort"):
                break
            base = self.generate_multi(rng, tier, boundary)
        m0 = base["op"]["method"]
        name = m0["name"]
        nf = rng.choice([2, 2, 3])
        methods = [m0]
        how = "filter"
        seeds_used = {m0["seed"]["v"]} if "seed" in m0 else set()
        for _ in range(nf - 1):
            m = json.loads(json.dumps(m0))
            if "seed" in m:
                while True:
                    sd = {"kind": "int", "v": rng.randint(0, 40)}
                    if sd["v"] not in seeds_used:
                        break
                seeds_used.add(sd["v"])
                m["seed"] = sd
            elif name == "take":
                m["count"] = self.gen_count(rng, len(base["envs"][0]))
            elif name == "slice":
                m["start"], m["step"] = rng.choice([None, 0, 1, 2]), rng.choice([None, 1, 2])
            elif name == "where":
                m = {"name": "where", "n_interactions": self.gen_range(rng, len(base["envs"][-1]))}
            methods.append(m)
        if name in ("eshuffle", "reservoir") and all(m["seed"]["kind"] == "int" and m["seed"]["v"] >= 0 for m in methods) and rng.chance(0.7):
            how = rng.choice(["seeds=", "seeds"]) if name == "eshuffle" else "seeds="
            if name == "reservoir":
                for m in methods:
                    m["count"], m["strict"] = m0["count"], m0["strict"]
        for m in methods:
            m.pop("how", None)
        nm = len(base["envs"]) * len(methods)
        order = [[rng.below(nm), None if rng.chance(0.75) else rng.randint(0, 4)] for _ in range(rng.randint(1, 6))]
        return {"kind": base["kind"], "envs": base["envs"], "op": {"name": "product", "methods": methods, "how": how}, "order": order, "input": base.get("input", "list")}

    def generate_unbatchg(self, rng):
        """hand-made input for Unbatch: fully batched, un-batched and mixed interactions; values are numbers or (nested) lists"""
        keys = rng.choice([["c"], ["c", "r"], ["c", "r", "n"]])
        style = rng.wchoice([(40, "wf"), (15, "plain"), (45, "mixed")])
        tok = [0]

        def pv(depth=0):
            tok[0] += 1
            if depth < 2 and rng.chance(0.3):
                return [pv(depth + 1) for _ in range(rng.randint(0, 3))]
            return tok[0]
        recs = []
        for ri in range(rng.randint(0, 4)):
            sz = rng.randint(0, 3)
            rec = []
            ks = keys if style != "mixed" or rng.chance(0.8) else [k for k in keys if rng.chance(0.6)]
            for k in ks:
                batched = style == "wf" or (style == "mixed" and rng.chance(0.6 if ri == 0 else 0.5))
                if batched:
                    rec.append([k, {"col": [pv() for _ in range(sz if style == "wf" or rng.chance(0.7) else rng.randint(0, 3))]}])
                else:
                    rec.append([k, {"val": pv()}])
            if rec:
                recs.append(rec)
        return {"kind": "raw", "op": {"name": "unbatchg"}, "recs": recs}

    def generate_multi(self, rng, tier, boundary=False):
        """2-3 different environments (a split of one generated sequence: distinct ids, different lengths, possibly empty)
        behind Environments(...).<method>(), read in a PRNG-chosen order, some reads abandoned, environments re-read"""
        for _ in range(50):
            base = self.generate_single(rng, tier, boundary)
            if base["op"]["name"] in self.MULTI_OPS and not base.get("malformed"):
                break
        items, op = base["items"], dict(base["op"])
        r = rng.below(100)
        if r < 22 or op["name"] == "cache":
            op = {"name": "cache"}
        elif r < 40:
            op = rng.choice([{"name": "chunk", "default": True}, {"name": "chunk", "cache": True}, {"name": "chunk", "cache": False}])
        elif r < 45:
            op = {"name": rng.choice(["params", "identity"])}
        for k in ("pipes",):
            op.pop(k, None)
        ne = rng.choice([2, 2, 3])
        n = len(items)
        cuts = sorted(rng.randint(0, n) for _ in range(ne - 1))
        if n >= ne and rng.chance(0.7):           # mostly non-empty environments of different lengths
            cuts = sorted(rng.sample(list(range(1, n)), ne - 1)) if n > ne - 1 else cuts
        bounds = [0] + cuts + [n]
        envs = [items[bounds[i]:bounds[i + 1]] for i in range(ne)]
        j = rng.below(ne)
        if op["name"] in ("take", "reservoir") and rng.chance(0.5):
            op["count"] = self.gen_count(rng, len(envs[j]))
            if op["name"] == "reservoir" and op["count"] is None and rng.chance(0.5):
                op["count"] = len(envs[j])
        if op["name"] == "where" and "n_interactions" in op and rng.chance(0.7):
            op["n_interactions"] = self.gen_range(rng, len(envs[j]))
        order = []
        for _ in range(rng.randint(2, 7)):
            k = rng.below(ne)
            order.append([k, None if rng.chance(0.7) else rng.randint(0, len(envs[k]) + 1)])
        if rng.chance(0.5):                        # start with an environment other than the first
            order.insert(0, [rng.randint(1, ne - 1), None])
        return {"kind": base["kind"], "envs": envs, "op": {"name": "multi", "method": op}, "order": order, "input": base.get("input", "list")}

    def generate_single(self, rng, tier, boundary=False):
        n = rng.choice([0, 1, 2, 3, 4, 5, 6, 8, 10, 13, 20, 40]) if not boundary else rng.choice([0, 1, 2, 3, 4, 5, 7])
        opn = rng.wchoice([(7, "pshuffle"), (14, "eshuffle"), (11, "take"), (13, "slice"), (17, "reservoir"), (13, "sort"),
                           (15, "where"), (9, "riffle"), (9, "batch"), (6, "cache"), (3, "idle")])
        kind = rng.wchoice([(45, "sim"), (30, "log"), (15, "grd"), (10, "bare")])
        ctx = rng.wchoice([(30, "list"), (10, "tuple"), (22, "dict"), (12, "none"), (10, "num"), (8, "str"), (8, "ragged")])
        rew = rng.wchoice([(70, "list"), (15, "l1"), (15, "disc")])
        self._sparse_ids = rng.chance(0.3)
        self._log_prob = rng.chance(0.6)
        self._log_acts = rng.chance(0.5)
        self._extra = rng.chance(0.3)
        self._bare_keys = rng.choice([[], [], ["action"], ["reward"], ["action", "reward"]])
        op = {"name": opn}
        malformed = False
        if opn == "pshuffle":
            op["seed"] = self.gen_seed(rng, nonneg_int=True, boundary_at=range(1, max(2, n)))
        elif opn == "eshuffle":
            if rng.chance(0.45):
                kind = "log"
            op["seed"] = self.gen_seed(rng, nonneg_int=True, boundary_at=range(1, max(2, n)))
            if kind == "log" and op["seed"]["v"] > 2 ** 41:
                op["seed"]["v"] %= 2 ** 41
            op["how"] = rng.below(4)
        elif opn == "take":
            op["count"] = self.gen_count(rng, n)
            if rng.chance(0.85):
                op["strict"] = rng.chance(0.5)
            if op["count"] is None and op.get("strict") and not rng.chance(0.5):
                op["count"] = n
            op["pipes"] = rng.chance(0.2)
        elif opn == "slice":
            op["start"] = rng.choice([None, None, 0, 1, 2, max(0, n - 1), n, n + 2, rng.randint(0, n + 1)])
            op["stop"] = rng.choice([None, None, 0, 1, max(0, n - 1), n, n + 3, rng.randint(0, n + 1)])
            op["step"] = rng.choice([None, 1, 1, 2, 3, 5, n + 1])
            op["pipes"] = rng.chance(0.2)
        elif opn == "reservoir":
            c = rng.choice([0, 1, 1, 2, 2, 3, 5, max(1, n - 1), n, n + 1, n + 4, None, rng.randint(1, n + 1)])
            op["count"] = c
            op["strict"] = rng.chance(0.4)
            cc = c or 1
            op["seed"] = self.gen_seed(rng, boundary_at=[max(1, cc - 1 + d) for d in (1, 2, 4, 5, 7)] if c is not None and c <= n else ())
            op["pipes"] = rng.chance(0.2)
            op["how"] = rng.below(2)
            if op["how"] == 1 and op["seed"]["kind"] != "int":
                op["how"] = 0
        elif opn == "sort":
            if kind == "bare":
                op["keys"] = rng.choice([[], [0], ["a"]])
            else:
                ctx = rng.wchoice([(42, "list"), (14, "tuple"), (28, "dict"), (7, "ragged"), (3, "num"), (4, "str"), (2, "none")])
        elif opn == "where":
            pass
        elif opn == "riffle":
            op["spacing"] = rng.choice([0, 1, 2, 3, 3, 4, 6, n, n + 1])
            op["seed"] = self.gen_seed(rng, boundary_at=range(1, 4))
        elif opn == "batch":
            op["size"] = rng.choice([None, 0, 1, 2, 3, max(1, n - 1), n, n + 1, 100])
        elif opn == "cache":
            op["nslice"] = rng.choice([1, 2, 3, 5, 25])
            op["reads"] = [rng.choice([None, None, 0, 1, 2, rng.randint(0, n + 1), n]) for _ in range(rng.randint(1, 5))]
            op["close"] = [k is not None and rng.chance(0.6) for k in op["reads"]]
        else:
            op["name"] = rng.choice(["identity", "chunk", "params"])
        items, meta = self.gen_items(rng, n, kind, ctx, rew)
        if opn == "sort" and kind != "bare":
            r = rng.below(10)
            if ctx in ("list", "tuple"):
                w = meta["width"]
                idx = lambda: rng.below(w) if rng.chance(0.8) else rng.randint(-w, -1)      # negative indices count from the end
                op["keys"] = [] if r < 3 else [idx()] if r < 6 else [idx() for _ in range(rng.randint(1, 3))]
                if rng.chance(0.06):
                    op["keys"] = op["keys"][:1] + [rng.choice([w, w + 1, -w - 1])]          # an index no context has: IndexError
                    malformed = bool(items)
            elif ctx == "dict":
                pool = list(meta["spkeys"]) + [rng.choice(["zz", 9])]     # a key no context has: everything ties at the default 0
                op["keys"] = [] if r < 1 else [rng.choice(pool)] if r < 5 else [rng.choice(pool) for _ in range(rng.randint(1, 3))]
            elif ctx == "ragged":
                op["keys"] = [] if r < 6 else [rng.randint(0, 2)]          # an index only some contexts have
                malformed = bool(items) and bool(op["keys"])
            elif ctx == "str":
                op["keys"] = rng.choice([[], [0], [-1], [0, -1]])          # a string context is a sequence of characters
            else:
                op["keys"] = rng.choice([[], [0]])
                malformed = bool(items)     # a number / None is neither iterable nor subscriptable: TypeError, correspondence only
            op["nested"] = rng.chance(0.2) and bool(op["keys"])
        if opn == "where":
            acts = [len(it["actions"]) for it in items if it.get("actions") is not None]
            has_acts = len(acts) == len(items)
            r = rng.below(100)
            if ctx in ("num", "str", "none") and kind != "bare" and items and rng.chance(0.5):
                r = 45                           # scalar / None contexts: mostly exercise the feature count
                if ctx == "num" and rng.chance(0.6):
                    items[0]["ctx"] = rng.choice([0, 0.0])
            which = ["n_interactions"] if r < 40 else ["n_features"] if r < 55 else ["n_actions"] if r < 75 else \
                [w for w in ("n_interactions", "n_features", "n_actions") if rng.chance(0.6)]
            for w in which:
                if w == "n_interactions":
                    op[w] = self.gen_range(rng, n)
                elif w == "n_features":
                    op[w] = self.gen_range(rng, feat_count(items[0].get("ctx")) if items and kind != "bare" else 0)
                elif has_acts or not items:
                    op[w] = self.gen_range(rng, rng.choice(acts) if acts else 2)
        case = {"kind": kind, "items": items, "op": op, "input": rng.choice(["list", "list", "iter", "gen"])}
        if op["name"] in ENV_OPS and rng.chance(0.3):
            case["via_env"] = True
        if op["name"] in ("take", "slice", "eshuffle", "sort", "reservoir", "where", "riffle") and n > 0 and rng.chance(0.12) and not malformed:
            case["batchsafe"] = rng.choice([1, 2, 3, n])
        if op["name"] in POLY_OPS and n >= 2 and rng.chance(0.15) and not malformed:
            sizes, left = [], n
            if rng.chance(0.35):
                sizes.append(0)                           # an empty first batch: batch_size is falsy
            while left > 0:
                sz = min(left, rng.choice([1, 2, 2, 3, 5]))
                sizes.append(sz)
                left -= sz
                if rng.chance(0.1):
                    sizes.append(0)
            case["bsizes"] = sizes
        if malformed:
            case["malformed"] = True
        return case

    def search(self, rng, tier):
        return self.generate(rng, tier, boundary=True)

    def corpus(self):
        def sim(n, ctx=lambda i: {"l": [i % 3, "a"]}, acts=lambda i: [1, 2, 3]):
            return [{"id": i, "ctx": ctx(i), "actions": acts(i), "rewards": [0] * len(acts(i))} for i in range(n)]

        def log(n):
            return [{"id": i, "ctx": {"l": [i]}, "action": 1, "reward": 0.5, "probability": 0.5} for i in range(n)]
        cs = []
        # reservoir: r1 = 0 (ZeroDivisionError on the unfixed code), r2 = 0 (ValueError), count 1 with an exhausted stream
        cs.append({"kind": "sim", "items": sim(5), "op": {"name": "reservoir", "count": 2, "strict": False, "seed": {"kind": "int", "v": seed_for(2, 0)}}, "input": "list"})
        cs.append({"kind": "sim", "items": sim(5), "op": {"name": "reservoir", "count": 2, "strict": False, "seed": {"kind": "int", "v": seed_for(3, 0)}}, "input": "iter"})
        cs.append({"kind": "sim", "items": sim(1), "op": {"name": "reservoir", "count": 1, "strict": True, "seed": {"kind": "int", "v": seed_for(1, 0)}}, "input": "list"})
        cs.append({"kind": "sim", "items": sim(9), "op": {"name": "reservoir", "count": 3, "strict": False, "seed": {"kind": "int", "v": seed_for(6, 0)}}, "input": "gen"})
        for c in (0, 1, 2, 4, 5, 6, None):
            for st in (False, True):
                cs.append({"kind": "sim", "items": sim(5), "op": {"name": "reservoir", "count": c, "strict": st, "seed": {"kind": "int", "v": 1}}, "input": "list"})
        # logged shuffle (seed*3.21: str branch; 100*3.21 = 321.0: int branch), abandoned read
        cs.append({"kind": "sim", "items": sim(3, ctx=lambda i: 0), "op": {"name": "where", "n_features": 1}, "input": "list"})
        cs.append({"kind": "sim", "items": sim(3, ctx=lambda i: 0.0), "op": {"name": "where", "n_features": {"min": 1, "max": None}}, "input": "list"})
        cs.append({"kind": "sim", "items": sim(3, ctx=lambda i: None), "op": {"name": "where", "n_features": 0}, "input": "list"})
        cs.append({"kind": "sim", "items": sim(3, ctx=lambda i: {"d": []}), "op": {"name": "where", "n_features": {"min": None, "max": 0}}, "input": "list"})
        for sd in (5, 100, 0, 1):
            cs.append({"kind": "log", "items": log(6), "op": {"name": "eshuffle", "seed": {"kind": "int", "v": sd}}, "input": "list"})
            cs.append({"kind": "sim", "items": sim(6), "op": {"name": "eshuffle", "seed": {"kind": "int", "v": sd}}, "input": "iter", "via_env": True})
        # where: two-sided range below the length, exact, open ends, empty
        for n in (0, 1, 3, 4, 10):
            for r in ({"min": 1, "max": 3}, {"min": 3, "max": 3}, 3, {"min": None, "max": 3}, {"min": 4, "max": None}, {"min": None, "max": None}, {"min": 0, "max": 0}):
                cs.append({"kind": "sim", "items": sim(n), "op": {"name": "where", "n_interactions": r}, "input": "list"})
        cs.append({"kind": "sim", "items": sim(3, ctx=lambda i: "abc"), "op": {"name": "where", "n_features": 1}, "input": "list"})
        cs.append({"kind": "sim", "items": sim(4, acts=lambda i: [1, 2, 3][:1 + i % 3]), "op": {"name": "where", "n_actions": {"min": 2, "max": 2}}, "input": "list"})
        # take: None + strict, around the length
        for c in (None, 0, 2, 3, 4):
            for st in (False, True):
                cs.append({"kind": "sim", "items": sim(3), "op": {"name": "take", "count": c, "strict": st}, "input": "gen"})
        # slice
        for a, b, s in ((None, None, None), (1, None, 2), (None, 4, 3), (2, 2, 1), (5, 3, 1), (0, 7, 7), (6, None, 1)):
            cs.append({"kind": "sim", "items": sim(7), "op": {"name": "slice", "start": a, "stop": b, "step": s}, "input": "list"})
        # sort: stability on ties, sparse default 0, no keys
        cs.append({"kind": "sim", "items": sim(7), "op": {"name": "sort", "keys": [0]}, "input": "list"})
        cs.append({"kind": "sim", "items": sim(7), "op": {"name": "sort", "keys": []}, "input": "list"})
        cs.append({"kind": "sim", "items": sim(6, ctx=lambda i: {"d": [["a", 1 - i % 2]] if i % 3 else []}), "op": {"name": "sort", "keys": ["a"]}, "input": "list"})
        # riffle, batch, cache
        for sp in (0, 1, 3, 9):
            cs.append({"kind": "sim", "items": sim(9), "op": {"name": "riffle", "spacing": sp, "seed": {"kind": "int", "v": 1}}, "input": "list"})
        for k in (None, 0, 1, 2, 5, 6):
            cs.append({"kind": "log", "items": log(5), "op": {"name": "batch", "size": k}, "input": "list"})
        cs.append({"kind": "sim", "items": sim(7), "op": {"name": "cache", "nslice": 2, "reads": [3, 0, None, 2, None]}, "input": "gen"})
        # round g: an abandoned read whose generator is CLOSED (peek_first / downstream take), then complete reads
        for ns, n_, reads in ((2, 7, [3, None, None]), (25, 60, [1, None, None]), (3, 10, [1, 4, None]), (1, 5, [2, 0, None]), (5, 12, [5, None])):
            cs.append({"kind": "sim", "items": sim(n_), "op": {"name": "cache", "nslice": ns, "reads": reads, "close": [k is not None for k in reads]}, "input": "gen"})
        cs.extend(self.corpus_cachepipe(sim, log))
        cs.extend(self.corpus_reslong())
        cs.extend(self.corpus_shufcall(sim))
        cs.extend(self.corpus_cachemulti(sim, log))
        cs.extend(self.corpus_chain(sim, log))
        # collections of environments behind the Environments shortcut methods, read out of order and repeatedly
        def env(lo, n):
            return [{"id": lo + i, "ctx": {"l": [i % 3, "a"]}, "actions": [1, 2, 3], "rewards": [0, 1, 0]} for i in range(n)]
        seed1 = {"kind": "int", "v": 1}
        for m in ({"name": "cache"}, {"name": "chunk", "default": True}, {"name": "chunk", "cache": False}, {"name": "params"}, {"name": "identity"},
                  {"name": "take", "count": 2, "strict": False}, {"name": "slice", "start": 1, "stop": None, "step": 2}, {"name": "eshuffle", "seed": seed1, "how": 0},
                  {"name": "reservoir", "count": 3, "strict": False, "seed": seed1}, {"name": "sort", "keys": [0]}, {"name": "riffle", "spacing": 2, "seed": seed1},
                  {"name": "where", "n_interactions": {"min": 1, "max": 5}}, {"name": "batch", "size": 2}):
            cs.append({"kind": "sim", "envs": [env(0, 4), env(100, 6), env(200, 0)], "op": {"name": "multi", "method": m},
                       "order": [[1, None], [0, None], [2, None], [1, 2], [0, None], [1, None]], "input": "list"})
            cs.append({"kind": "sim", "envs": [env(0, 3), env(100, 5)], "op": {"name": "multi", "method": m},
                       "order": [[1, 1], [0, 2], [1, None], [0, None], [1, None]], "input": "gen"})
        # phase 3: BatchSafe on uneven batches (C04-F7 shape [2,5]) and with an empty first batch; environments x filters;
        # Unbatch on the witnesses of unbatch_mixed_counterexample 1-3 and on well-formed uneven batches
        for m in ({"name": "identity"}, {"name": "take", "count": 1, "strict": False}, {"name": "eshuffle", "seed": seed1}, {"name": "reservoir", "count": 2, "strict": False, "seed": seed1}):
            for sizes in ([2, 5], [0, 3, 4], [3, 0, 4], [1, 1, 5]):
                cs.append({"kind": "sim", "items": env(0, 7), "op": m, "input": "list", "bsizes": sizes})
        cs.append({"kind": "sim", "envs": [env(0, 4), env(100, 6)], "op": {"name": "product", "how": "seeds=", "methods": [{"name": "eshuffle", "seed": {"kind": "int", "v": v}} for v in (5, 1, 3)]},
                   "order": [[4, None], [0, 2], [5, None], [4, None]], "input": "list"})
        cs.append({"kind": "sim", "envs": [env(0, 4), env(100, 6), env(200, 1)], "op": {"name": "product", "how": "filter", "methods": [{"name": "take", "count": 2, "strict": True}, {"name": "take", "count": 5, "strict": False}]},
                   "order": [[3, None], [1, 1], [5, None]], "input": "gen"})
        cs.append({"kind": "sim", "envs": [env(0, 4), env(100, 6)], "op": {"name": "product", "how": "seeds=", "methods": [{"name": "reservoir", "count": 3, "strict": False, "seed": {"kind": "int", "v": v}} for v in (7, 2)]},
                   "order": [[2, None], [0, None]], "input": "list"})
        for recs in ([[["c", {"col": [1, 2]}], ["n", {"val": [7, 8]}]], [["c", {"val": [3, 4, 5]}], ["n", {"val": 9}]]],
                     [[["c", {"col": [1]}]], [["c", {"val": 3}]]],
                     [[["c", {"val": 1}]], [["c", {"col": [3, 4]}]]],
                     [[["c", {"col": [1, 2]}], ["r", {"col": [5, 6]}]], [["c", {"col": [3]}], ["r", {"col": [7]}]], [["c", {"col": []}], ["r", {"col": []}]]],
                     [[["c", {"col": [1]}]], [["r", {"col": [3]}]]]):
            cs.append({"kind": "raw", "op": {"name": "unbatchg"}, "recs": recs})
        # witnesses of batch_unbatch_id_counterexample / 2 (key sets differ inside one sequence): correspondence only
        cs.append({"kind": "raw", "items": [{"id": 0, "raw": {"a": 1}}, {"id": 1, "raw": {"a": 2, "b": 3}}], "op": {"name": "batch", "size": 2}, "input": "list", "malformed": True})
        cs.append({"kind": "raw", "items": [{"id": 0, "raw": {"a": 1, "b": 3}}, {"id": 1, "raw": {"a": 2}}], "op": {"name": "batch", "size": 2}, "input": "list", "malformed": True})
        return cs

    def exhaustive(self, tier):
        """small-scope sweeps (thorough tier): every Take / Slice / Where(n_interactions) / Batch parameter combination on 0-6 interactions"""
        def sim(n):
            return [{"id": i, "ctx": {"l": [i % 2]}, "actions": [1, 2], "rewards": [0, 1]} for i in range(n)]
        opt = [None, 0, 1, 2, 3, 4, 5, 7]
        for n in range(0, 7):
            its = sim(n)
            for c in opt:
                for st in (False, True):
                    yield {"kind": "sim", "items": its, "op": {"name": "take", "count": c, "strict": st}, "input": "iter"}
            for a in opt:
                for b in opt:
                    for stp in (None, 1, 2, 3, 7):
                        yield {"kind": "sim", "items": its, "op": {"name": "slice", "start": a, "stop": b, "step": stp}, "input": "iter"}
                    yield {"kind": "sim", "items": its, "op": {"name": "where", "n_interactions": {"min": a, "max": b}}, "input": "iter"}
            for k in opt:
                yield {"kind": "sim", "items": its, "op": {"name": "batch", "size": k}, "input": "iter"}
                for sp in (0, 1, 2, 3):
                    if k is not None:
                        yield {"kind": "sim", "items": its, "op": {"name": "riffle", "spacing": sp, "seed": {"kind": "int", "v": k}}, "input": "iter"}
                for st in (False, True):
                    yield {"kind": "sim", "items": its, "op": {"name": "reservoir", "count": k, "strict": st, "seed": {"kind": "int", "v": 3}}, "input": "iter"}

    # ------------------------------------------------------------ evaluation
    def evaluate(self, case, driver):
        if case["op"]["name"] == "multi":
            return self.evaluate_multi(case, driver)
        if case["op"]["name"] == "product":
            return self.evaluate_product(case, driver)
        if case["op"]["name"] == "unbatchg":
            return self.evaluate_unbatchg(case, driver)
        if case["op"]["name"] == "cachepipe":
            return self.evaluate_cachepipe(case, driver)
        if case["op"]["name"] == "cachemulti":
            return self.evaluate_cachemulti(case, driver)
        if case["op"]["name"] == "shufcall":
            return self.evaluate_shufcall(case, driver)
        if case["op"]["name"] == "chain":
            return self.evaluate_chain(case, driver)
        fails, tags = [], []
        op = case["op"]
        name = op["name"]
        items = case["items"]
        n = len(items)
        ids = [it["id"] for it in items]
        R = Run(case)
        tags += ["op:" + name, "kind:" + case["kind"], "input:" + case.get("input", "list"), "len:" + ("0" if n == 0 else "1" if n == 1 else "2-5" if n <= 5 else "6-13" if n <= 13 else "14+")]
        if case.get("via_env") and name in ENV_OPS:
            tags.append("via:Environments")
        malformed = bool(case.get("malformed"))
        if malformed:
            tags.append("malformed")
        what = "%s on %d %s interactions (%s)" % (json.dumps(op), n, case["kind"], case.get("input", "list"))

        def bfail(msg, sig):
            fails.append(F("B", "%s: %s" % (what, msg), sig))

        impl = {}
        # ---- cache: one object, a history of reads
        if name == "cache":
            from coba.environments import filters as EF
            cache = EF.Cache(op.get("nslice", 25))
            outs, alive = [], []
            closes = op.get("close") or []
            for ri, k in enumerate(op["reads"]):
                try:
                    g = cache.filter(give(R.items, "gen"))
                    if k is None:
                        o = R.describe(list(g))
                    else:
                        o = R.describe(list(itertools.islice(g, k)))
                        if ri < len(closes) and closes[ri]:
                            g.close()         # the reader closes / drops the half-read generator (peek_first, a downstream take)
                            del g
                            tags.append("cache:closed-partial")
                        else:
                            alive.append(g)
                except Exception as e:  # noqa: BLE001
                    o = {"err": errname(e), "msg": str(e)[:100]}
                outs.append(o)
                exp = ids if k is None else ids[:k]
                tags.append("cache:" + ("full" if k is None else "partial"))
                if "err" in o:
                    bfail("read %r raised %s" % (k, o["err"]), "cache-raises-" + o["err"])
                elif o["ids"] != exp:
                    bfail("read (consuming %r items) of a Cache delivered ids %s, expected %s (history %s)" % (k, o["ids"], exp, op["reads"]), "cache-not-identity")
                elif o["bad"]:
                    bfail(o["bad"][0], "cache-content-altered")
            impl = {"reads": outs}
            model = None
            if driver is not None and not fails:
                ans = driver.ask({"op": "cache", "nslice": op.get("nslice", 25), "reads": op["reads"], "items": model_items(case)})
                model = ans
                if [o.get("ids") for o in outs] != ans["reads"]:
                    fails.append(F("A", "%s: implementation reads %s, model %s" % (what, [o.get("ids") for o in outs], ans["reads"]), "A:cache"))
            return {"fails": fails, "nontrivial": n >= 2, "tags": tags, "impl": impl, "model": model}

        # ---- everything else: read the filter several times
        try:
            reader_a = R.new_reader()
            o1 = R.read_once(reader_a)
        except Exception as e:  # noqa: BLE001  (constructor rejected the parameters)
            o1 = {"err": errname(e), "msg": str(e)[:120], "ctor": True}
            reader_a = None
        impl["out"] = o1
        random_op = name in ("pshuffle", "eshuffle", "riffle", "reservoir")
        if "err" in o1:
            tags.append("err:" + o1["err"])
        # determinism: a second filter object with the same parameters, the same object again, and again while an
        # abandoned iterator of it is still alive
        if reader_a is not None and "err" not in o1 and not malformed:
            o2 = R.read_once(R.new_reader())
            o3 = R.read_once(reader_a)
            if not same(o1, o2):
                bfail("a second filter object with the same parameters gave %s, the first %s" % (o2.get("ids", o2.get("err")), o1["ids"]), name + "-not-deterministic")
            elif not same(o1, o3):
                bfail("reading the same filter object a second time gave %s, the first time %s" % (o3.get("ids", o3.get("err")), o1["ids"]), name + "-not-deterministic-second-read")
            if random_op and n > 0 and o1["ids"]:
                try:
                    it = iter(reader_a())
                    next(it)
                    o4 = R.read_once(reader_a)
                    o5 = R.read_once(reader_a)
                    del it
                    tags.append("abandoned-read")
                    if not same(o1, o4) or not same(o1, o5):
                        sig = name + "-not-deterministic-after-abandoned-read"
                        k0 = R.items[0].keys() if R.items else ()
                        if name == "eshuffle" and "action" in k0 and "reward" in k0:
                            sig = "eshuffle-logged-abandoned-read-changes-order"
                        bfail("with an abandoned (still alive) iterator of the same filter the next reads gave %s then %s instead of %s"
                              % (o4.get("ids", o4.get("err")), o5.get("ids", o5.get("err")), o1["ids"]), sig)
                except Exception as e:  # noqa: BLE001
                    bfail("abandoned-read sequence raised %s" % errname(e), name + "-abandoned-read-raises")

        # ---- (B) the promised sequence
        if not malformed:
            self.promise(case, o1, bfail, tags)

        # ---- BatchSafe(F): on the plain input and on the input batched by Batch(k), against the model (batchsafe_eq_plain)
        if case.get("batchsafe") and "err" not in o1 and not fails and name not in ("cache", "batch"):
            from coba.environments import filters as EF
            tags.append("batchsafe")
            req = self.inner_req(op)
            for size in (0, case["batchsafe"]):
                try:
                    bs = EF.BatchSafe(mk_filter(op))
                    inp = give(R.items, "iter") if size == 0 else EF.Batch(size).filter(give(R.items, "iter"))
                    raw = list(bs.filter(inp))
                    shape = [(list(b["id"]) if hasattr(b["id"], "is_batch") else b["id"]) for b in raw]
                    got = R.describe(list(EF.Unbatch().filter(iter(raw))))
                    got["shape"] = shape
                except Exception as e:  # noqa: BLE001
                    got = {"err": errname(e), "msg": str(e)[:100]}
                impl["batchsafe/%d" % size] = got
                if "err" in got or got["ids"] != o1["ids"] or got["bad"]:
                    fails.append(F("A", "%s: BatchSafe(filter) on %s gave %s %s, the filter alone %s" % (what, "the plain input" if size == 0 else "batches of %d" % size,
                                                                                                       got.get("ids", got.get("err")), got.get("bad", [])[:1], o1["ids"]), "A:batchsafe"))
                elif driver is not None and req is not None:
                    m = driver.ask({"op": "batchsafe", "size": size, "inner": req, "items": model_items(case, with_rec=True)})
                    if "err" in m:
                        fails.append(F("A", "%s: BatchSafe model raised %s, implementation %s" % (what, m["err"], got["ids"]), "A:batchsafe-model"))
                    else:
                        mshape = []
                        for b in m["batches"]:
                            if "plain" in b:
                                mshape.append(b["plain"][0][1] // 64 if b["plain"] else None)
                            else:
                                col = dict((k, ts) for k, ts in b["batch"]).get("id", [])
                                mshape.append([t // 64 for t in col])
                        if mshape != got["shape"]:
                            fails.append(F("A", "%s: BatchSafe(filter) on %s delivered batches %s, model %s" % (what, "the plain input" if size == 0 else "batches of %d" % size, got["shape"], mshape), "A:batchsafe-model"))

        # ---- BatchSafe(F) on hand-made batches of arbitrary sizes (uneven, an empty first batch): batchsafe_first_batch_size /
        # batchsafe_falsy_first; the inner filter must treat its items as opaque (selection / ordering filters without accessors)
        if case.get("bsizes") and "err" not in o1 and not fails and name in POLY_OPS:
            from coba.environments import filters as EF
            sizes = case["bsizes"]
            tags.append("batchsafe2:" + ("empty-first" if sizes[0] == 0 else "uneven"))
            keys = list(R.items[0].keys()) if R.items else ["id"]
            try:
                batches, pos = [], 0
                for sz in sizes:
                    chunk = R.items[pos:pos + sz]
                    pos += sz
                    batches.append({k: EF.Batch.List([]) for k in keys} if sz == 0 else next(iter(EF.Batch(sz).filter(iter(chunk)))))
                raw = list(EF.BatchSafe(mk_filter(op)).filter(iter(batches)))
                shape = [(list(b["id"]) if hasattr(b["id"], "is_batch") else b["id"]) for b in raw]
                flat = [i for sh in shape for i in (sh if isinstance(sh, list) else [sh])]
                got = {"shape": shape, "ids": flat}
            except Exception as e:  # noqa: BLE001
                got = {"err": errname(e), "msg": str(e)[:100]}
            impl["batchsafe2"] = got
            if "err" not in got and sizes[0] > 0 and got["ids"] != o1["ids"]:
                fails.append(F("A", "%s: BatchSafe(filter) on batches of sizes %s un-batches to %s, the filter alone gives %s" % (what, sizes, got["ids"], o1["ids"]), "A:batchsafe-uneven"))
            elif driver is not None:
                m = driver.ask({"op": "batchsafe2", "sizes": sizes, "keys": keys, "inner": self.inner_req(op), "items": model_items(case, with_rec=True)})
                if "err" in m or "err" in got:
                    if m.get("err") != got.get("err"):
                        fails.append(F("A", "%s: BatchSafe(filter) on batches of sizes %s: implementation %s, model %s" % (what, sizes, got.get("shape", got.get("err")), m.get("err", "a result")), "A:batchsafe2-model"))
                else:
                    mshape = [[t // 64 for t in dict((k, ts) for k, ts in b["batch"]).get("id", [])] if "batch" in b else (b["plain"][0][1] // 64 if b["plain"] else None) for b in m["batches"]]
                    if mshape != got["shape"]:
                        fails.append(F("A", "%s: BatchSafe(filter) on batches of sizes %s delivered %s, model %s" % (what, sizes, got["shape"], mshape), "A:batchsafe2-model"))

        # ---- (A) correspondence with the Lean model, (C) model = spec
        model = None
        if driver is not None and not any(f["kind"] == "B" for f in fails):
            model = self.ask_model(case, driver)
            if model is not None:
                mo = {"err": model["err"]} if "err" in model else {"ids": model["out"]}
                if not same(mo, o1):
                    fails.append(F("A", "%s: implementation %s, model %s" % (what, o1.get("ids", o1.get("err")), mo.get("ids", mo.get("err"))), "A:" + name))
                if model.get("steps_differ"):
                    fails.append(F("A", "%s: Reservoir's W/S/slot as CPython computes them %s differ from the model's (Lean Float) %s"
                                   % (what, model["steps_py"][:6], model["steps"][:6]), "A:reservoir-steps"))
                if "out_given" in model and model["out_given"] != model.get("out", model.get("err")):
                    fails.append(F("C", "%s: model with its own steps %s, with the recomputed steps %s" % (what, model.get("out", model.get("err")), model["out_given"]), "C:reservoir-steps"))
                if name == "reservoir" and "runok" in model:
                    # reservoir_total_iff_checked: the filter returns iff reservoirOk(count, steps, N) - evaluated by the driver on
                    # the model's own IEEE steps (runok) and on CPython's steps (runok_given), mirrored here on lengths (runok_py)
                    tags.append("reservoir:runok=%s" % model["runok"])
                    if model["runok"] != ("err" not in o1):
                        fails.append(F("A", "%s: the real filter %s, the model's run-time check reservoirOk says %s" % (what, "raised " + o1["err"] if "err" in o1 else "returned", model["runok"]), "A:reservoir-runok"))
                    if model["runok"] != ("err" not in model):
                        fails.append(F("C", "%s: reservoirOk %s but the model %s" % (what, model["runok"], "raised" if "err" in model else "returned"), "C:reservoir-runok"))
                    if "runok_py" in model and not (model["runok_py"] == model["runok_given"] == model["runok"]):
                        fails.append(F("C", "%s: reservoirOk on CPython's steps: Lean %s, Python mirror %s, on the model's steps %s" % (what, model["runok_given"], model["runok_py"], model["runok"]), "C:reservoir-runok-steps"))
                if "spec" in model and model.get("out") != model["spec"]:
                    fails.append(F("C", "%s: model %s but spec %s" % (what, model.get("out"), model["spec"]), "C:" + name))
                if name == "batch" and "batches" in model:
                    d = self.check_batches(case, R, model)
                    if d:
                        fails.append(F("A", "%s: %s" % (what, d), "A:batch-structure"))
        nontrivial = n >= 2 and name not in ("identity", "chunk", "params") and not malformed
        return {"fails": fails, "nontrivial": nontrivial, "tags": tags, "impl": impl, "model": model}

    # ------------------------------------------------------------ a collection of environments
    def sub_case(self, case, k):
        return {"kind": case["kind"], "items": case["envs"][k], "op": case["op"]["method"], "input": case.get("input", "list")}

    def evaluate_multi(self, case, driver):
        """Environments(env_0, env_1, ...).<method>(): every environment of the collection, read in the given order
        (complete reads and abandoned ones), must deliver what ITS OWN filter promises for ITS OWN interactions."""
        fails, tags = [], []
        inner = case["op"]["method"]
        name = inner["name"]
        envs = case["envs"]
        mode = case.get("input", "list")
        subs = [self.sub_case(case, k) for k in range(len(envs))]
        runs = [Run(sc) for sc in subs]
        tags += ["op:multi", "multi:" + name, "multi:envs=%d" % len(envs), "kind:" + case["kind"], "input:" + mode]
        what = "Environments(%s).%s" % (", ".join("env%d[%d]" % (k, len(e)) for k, e in enumerate(envs)), json.dumps(inner))

        def bfail_for(k, label):
            def bfail(msg, sig):
                fails.append(F("B", "%s: environment #%d (ids %s), %s: %s" % (what, k, [it["id"] for it in envs[k]][:8], label, msg), "multi-" + sig))
            return bfail

        impl = {"reads": []}
        try:
            pipes = via_envs(inner, [r.items for r in runs], mode)
        except Exception as e:  # noqa: BLE001
            fails.append(F("B", "%s raised %s (%s) while building the pipelines" % (what, errname(e), str(e)[:100]), "multi-%s-method-raises-%s" % (name, errname(e))))
            return {"fails": fails, "nontrivial": False, "tags": tags, "impl": impl, "model": None}
        by_env = {}
        for idx, pipe in pipes:
            by_env.setdefault(idx, []).append(pipe)
        if len(pipes) != len(envs) or sorted(by_env) != list(range(len(envs))):
            fails.append(F("B", "%s produced %d pipelines over source environments %s for %d environments and one filter"
                           % (what, len(pipes), sorted(by_env), len(envs)), "multi-%s-pipeline-count" % name))
            return {"fails": fails, "nontrivial": False, "tags": tags, "impl": impl, "model": None}
        full = {}       # env -> first complete read
        alive = []
        order = list(case["order"]) + [[k, None] for k in range(len(envs))]     # a final complete read of every environment
        for step, (k, c) in enumerate(order):
            R, pipe = runs[k], by_env[k][0]
            label = "read #%d (%s)" % (step, "complete" if c is None else "abandoned after %d" % c)
            try:
                g = iter(pipe.read())
                if c is None:
                    o = R.describe(list(g))
                else:
                    o = R.describe(list(itertools.islice(g, c)))
                    lhow = leave_how(case, step)
                    if lhow == "alive":
                        alive.append(g)
                    elif lhow == "close" and hasattr(g, "close"):
                        g.close()
                    del g
                    if lhow != "alive":
                        gc.collect(0)
                    tags.append("multi:partial-" + lhow)
            except Exception as e:  # noqa: BLE001
                o = {"err": errname(e), "msg": str(e)[:120]}
            impl["reads"].append([k, c, o.get("ids", o.get("err"))])
            tags.append("multi:read-" + ("full" if c is None else "partial"))
            bfail = bfail_for(k, label)
            if c is None:
                self.promise(subs[k], o, bfail, [])
                if k not in full:
                    full[k] = o
                elif not same(full[k], o):
                    bfail("delivered %s, an earlier complete read of the same environment %s" % (o.get("ids", o.get("err")), full[k].get("ids", full[k].get("err"))), name + "-reread-differs")
            else:
                if "err" in o:
                    bfail("raised %s (%s)" % (o["err"], o.get("msg", "")), "%s-raises-%s" % (name, o["err"]))
                elif o["bad"]:
                    bfail(o["bad"][0], name + "-content-altered")
                elif k in full and "ids" in full[k] and o["ids"] != full[k]["ids"][:c]:
                    bfail("delivered %s, a complete read of the same environment starts with %s" % (o["ids"], full[k]["ids"][:c]), name + "-partial-read-differs")
                else:
                    own = set(R.ids)
                    if any(i not in own for i in o["ids"]):
                        bfail("delivered ids %s which are not interactions of this environment" % (o["ids"],), name + "-foreign-interactions")
        # partial reads made before the first complete read of their environment
        seen_full = set()
        for (k, c), rec in zip(order, impl["reads"]):
            if c is None:
                seen_full.add(k)
            elif k not in seen_full and isinstance(rec[2], list) and "ids" in full.get(k, {}) and rec[2] != full[k]["ids"][:c]:
                bfail_for(k, "abandoned read")("delivered %s, the later complete read of the same environment starts with %s" % (rec[2], full[k]["ids"][:c]), name + "-partial-read-differs")
        # (A) the whole read history against the model of the collection (collection_pointwise: one fresh filter object per
        # environment), which the driver evaluates with `runColl`
        model = None
        if driver is not None and not fails:
            if name == "cache" or (name == "chunk" and (inner.get("default") or inner.get("cache"))):
                ireq = {"op": "cache", "nslice": 25}
            elif name == "batch":
                ireq = {"op": "identity"}
            else:
                ireq = self.inner_req(inner)
            if ireq is not None:
                ans = driver.ask({"op": "collection", "inner": ireq, "order": order, "envs": [model_items(sc) for sc in subs], "items": []})
                model = [[k, r.get("out", r.get("err"))] for k, r in ans["reads"]]
                got = [[k, o] for k, c, o in impl["reads"]]
                if model != got:
                    j = next(i for i in range(len(got)) if i >= len(model) or model[i] != got[i])
                    fails.append(F("A", "%s: read #%d (environment %d, consuming %s) delivers %s, the model of the collection %s"
                                   % (what, j, order[j][0], order[j][1], got[j][1], model[j][1] if j < len(model) else None), "A:multi-" + name))
        nontrivial = sum(1 for e in envs if len(e) >= 1) >= 2
        return {"fails": fails, "nontrivial": nontrivial, "tags": tags, "impl": impl, "model": model}

    # ------------------------------------------------------------ environments x filters
    def evaluate_product(self, case, driver):
        """Environments(env_0 …).filter([f_0 …]) / .shuffle(seeds=[…]) / .reservoir(n, seeds=[…]): every member must be ONE
        environment behind ONE of the filters, each pair exactly once, and deliver what that filter promises for that environment"""
        from coba.environments import Environments
        from coba.environments.filters import BatchSafe, Finalize
        from coba.pipes import Pipes
        fails, tags = [], []
        methods = case["op"]["methods"]
        name = methods[0]["name"]
        envs = case["envs"]
        mode = case.get("input", "list")
        subs = [[{"kind": case["kind"], "items": envs[i], "op": methods[j], "input": mode} for j in range(len(methods))] for i in range(len(envs))]
        runs = [Run(subs[i][0]) for i in range(len(envs))]
        tags += ["op:product", "product:" + name, "product:%dx%d" % (len(envs), len(methods)), "kind:" + case["kind"]]
        what = "Environments(%s).%s x %d %s" % (", ".join("env%d[%d]" % (k, len(e)) for k, e in enumerate(envs)), case["op"].get("how", "filter"), len(methods), json.dumps(methods)[:300])
        impl = {"members": [], "reads": []}
        cls = _list_env_class()
        srcs = [cls(r.items, mode, k) for k, r in enumerate(runs)]
        how = case["op"].get("how", "filter")
        try:
            e = Environments(srcs)
            if how == "filter":
                objs = [mk_filter(m) for m in methods]
                e = e.filter(objs)
            elif name == "eshuffle":
                seeds = [mk_seed(m["seed"]) for m in methods]
                e = e.shuffle(seeds=seeds) if how == "seeds=" else e.shuffle(seeds)
            else:
                seeds = [mk_seed(m["seed"]) for m in methods]
                e = e.reservoir(methods[0]["count"], seeds=seeds, strict=methods[0]["strict"])
            pipes = list(getattr(e, "_envs"))
        except Exception as ex:  # noqa: BLE001
            fails.append(F("B", "%s raised %s (%s)" % (what, errname(ex), str(ex)[:100]), "product-%s-method-raises-%s" % (name, errname(ex))))
            return {"fails": fails, "nontrivial": False, "tags": tags, "impl": impl, "model": None}
        members = []
        for pipe in pipes:
            parts = list(pipe)
            if isinstance(parts[-1], BatchSafe) and isinstance(getattr(parts[-1], "_filter", None), Finalize):
                parts = parts[:-1]
                pipe = Pipes.join(*parts)
            i = getattr(parts[0], "idx", None)
            j = None
            if len(parts) == 2:
                if how == "filter":
                    j = next((jj for jj, o in enumerate(objs) if o is parts[1]), None)
                else:
                    key = "shuffle_seed" if name == "eshuffle" else "reservoir_seed"
                    j = next((jj for jj, sd in enumerate(seeds) if parts[1].params.get(key) == sd), None)
            members.append((i, j, pipe))
        impl["members"] = [[i, j] for i, j, _ in members]
        want = sorted((i, j) for i in range(len(envs)) for j in range(len(methods)))
        if sorted((i, j) for i, j, _ in members if i is not None and j is not None) != want or len(members) != len(want):
            fails.append(F("B", "%s produced the members %s, expected every (environment, filter) pair exactly once" % (what, impl["members"]), "product-%s-members" % name))
            return {"fails": fails, "nontrivial": False, "tags": tags, "impl": impl, "model": None}
        order = [[m, c] for m, c in case["order"] if m < len(members)] + [[m, None] for m in range(len(members))]
        full, alive = {}, []
        for step, (m, c) in enumerate(order):
            i, j, pipe = members[m]
            R = runs[i]
            try:
                g = iter(pipe.read())
                if c is None:
                    o = R.describe(list(g))
                else:
                    o = R.describe(list(itertools.islice(g, c)))
                    lhow = leave_how(case, step)
                    if lhow == "alive":
                        alive.append(g)
                    elif lhow == "close" and hasattr(g, "close"):
                        g.close()
                    del g
                    if lhow != "alive":
                        gc.collect(0)
                    tags.append("product:partial-" + lhow)
            except Exception as ex:  # noqa: BLE001
                o = {"err": errname(ex), "msg": str(ex)[:120]}
            impl["reads"].append([m, c, o.get("ids", o.get("err"))])

            def bfail(msg, sig, i=i, j=j, step=step):
                fails.append(F("B", "%s: member (environment #%d, filter #%d %s), read #%d: %s" % (what, i, j, json.dumps(methods[j])[:120], step, msg), "product-" + sig))
            if c is None:
                self.promise(subs[i][j], o, bfail, [])
                if m not in full:
                    full[m] = o
                elif not same(full[m], o):
                    bfail("delivered %s, an earlier complete read of the same member %s" % (o.get("ids", o.get("err")), full[m].get("ids", full[m].get("err"))), name + "-reread-differs")
            elif "err" in o:
                bfail("raised %s" % o["err"], "%s-raises-%s" % (name, o["err"]))
            elif o["bad"]:
                bfail(o["bad"][0], name + "-content-altered")
            elif m in full and "ids" in full[m] and o["ids"] != full[m]["ids"][:c]:
                bfail("delivered %s, a complete read of the same member starts with %s" % (o["ids"], full[m]["ids"][:c]), name + "-partial-read-differs")
        model = None
        if driver is not None and not fails:
            reqs = [self.inner_req(mm) for mm in methods]
            if all(r is not None for r in reqs):
                ask = {"op": "product", "inners": reqs, "order": order, "envs": [model_items(subs[i][0]) for i in range(len(envs))], "items": [],
                       "sorted": name == "eshuffle" and how != "filter", "seedkeys": [mk_seed(mm["seed"]) if "seed" in mm and isinstance(mk_seed(mm["seed"]), int) and mk_seed(mm["seed"]) >= 0 else 0 for mm in methods]}
                ans = driver.ask(ask)
                model = {"members": ans["members"], "reads": [[k, r.get("out", r.get("err"))] for k, r in ans["reads"]]}
                if model["members"] != impl["members"]:
                    fails.append(F("A", "%s: members in the order %s, model %s" % (what, impl["members"], model["members"]), "A:product-order"))
                elif model["reads"] != [[m, o] for m, c, o in impl["reads"]]:
                    got = [[m, o] for m, c, o in impl["reads"]]
                    jx = next(x for x in range(len(got)) if model["reads"][x] != got[x])
                    fails.append(F("A", "%s: read #%d of member %s delivers %s, model %s" % (what, jx, impl["members"][got[jx][0]], got[jx][1], model["reads"][jx][1]), "A:product-" + name))
        return {"fails": fails, "nontrivial": sum(1 for e_ in envs if e_) >= 2, "tags": tags, "impl": impl, "model": model}

    # ------------------------------------------------------------ Unbatch on arbitrary (mixed) input
    def evaluate_unbatchg(self, case, driver):
        from coba.environments import filters as EF
        fails, tags = [], ["op:unbatchg"]
        recs = case["recs"]

        def build(pv):
            return [build(x) for x in pv] if isinstance(pv, list) else pv

        def mk(r):
            return {k: (EF.Batch.List([build(x) for x in c["col"]]) if "col" in c else build(c["val"])) for k, c in r}

        def enc(d):
            return sorted([k, ({"col": list(v)} if hasattr(v, "is_batch") else {"val": v})] for k, v in d.items())
        what = "Unbatch on %s" % json.dumps(recs)[:300]
        try:
            out = [enc(d) for d in EF.Unbatch().filter(iter([mk(r) for r in recs]))]
            impl = {"out": out}
        except Exception as ex:  # noqa: BLE001
            impl = {"err": errname(ex)}
        first_batched = bool(recs) and any("col" in c for _, c in recs[0])
        wf = all(all("col" in c for _, c in r) and len({len(c["col"]) for _, c in r}) == 1 for r in recs)
        bk = next((k for k, c in recs[0] if "col" in c), None) if recs else None
        wf = wf and all(any(k == bk for k, _ in r) for r in recs)
        tags.append("unbatchg:" + ("plain-first" if not first_batched else "well-formed" if wf else "mixed"))
        # (B) where the property speaks: un-batched input is passed through; fully batched input comes out row by row, in order
        exp = None
        if not recs:
            exp = []
        elif not first_batched:
            exp = [sorted([k, c] for k, c in r) for r in recs]
        elif wf:
            exp = [sorted([k, {"val": c["col"][i]}] for k, c in r) for r in recs for i in range(len(r[0][1]["col"]) if r else 0)]
        if exp is not None:
            if "err" in impl:
                fails.append(F("B", "%s raised %s" % (what, impl["err"]), "unbatch-raises-" + impl["err"]))
            elif impl["out"] != exp:
                fails.append(F("B", "%s delivered %s, expected %s" % (what, json.dumps(impl["out"])[:300], json.dumps(exp)[:300]), "unbatch-wrong-rows"))
        model = None
        if driver is not None and not fails:
            ans = driver.ask({"op": "unbatchg", "recs": recs, "items": []})
            model = ans
            mo = {"err": ans["err"]} if "err" in ans else {"out": [sorted(r) for r in ans["out"]]}
            if mo != impl:
                fails.append(F("A", "%s: implementation %s, model %s" % (what, json.dumps(impl)[:300], json.dumps(mo)[:300]), "A:unbatchg"))
        return {"fails": fails, "nontrivial": len(recs) >= 2, "tags": tags, "impl": impl, "model": model}

    def promise(self, case, o1, bfail, tags):
        """(B): is `o1` (what one complete read delivered) the sequence this filter promises for this input?"""
        op = case["op"]
        name = op["name"]
        items = case["items"]
        n = len(items)
        ids = [it["id"] for it in items]
        if "err" in o1:
            sig = "%s-raises-%s" % (name, o1["err"])
            if name == "take" and op.get("count") is None and op.get("strict"):
                sig = "take-none-strict-raises"
            if name == "reservoir" and o1["err"] in ("ZeroDivisionError", "ValueError"):
                c = op["count"]
                st0 = self.state_after_shuffle(op, n)
                if st0 is not None and zero_uniform_hit(st0, n - c, c):
                    sig = "reservoir-raises-on-zero-uniform"
            bfail("raised %s (%s) on legal arguments" % (o1["err"], o1.get("msg", "")), sig)
        else:
            out = o1["ids"]
            if o1["bad"]:
                bfail(o1["bad"][0], name + "-content-altered")
            if name in ("pshuffle", "eshuffle", "riffle"):
                if sorted(out, key=str) != sorted(ids, key=str):
                    bfail("output ids %s are not a permutation of the input ids %s" % (out, ids), name + "-not-a-permutation")
                if n >= 2 and out != ids:
                    tags.append("moved")
            elif name == "take":
                c = op["count"]
                exp_ids = list(ids) if c is None else ids[:c]
                if op.get("strict") and c is not None and n < c:
                    exp_ids = []
                tags.append("take:" + ("none" if c is None else "0" if c == 0 else "<len" if c < n else "=len" if c == n else ">len") + ("/strict" if op.get("strict") else ""))
                if out != exp_ids:
                    bfail("delivered ids %s, the promised prefix is %s" % (out, exp_ids), "take-wrong-prefix" + ("-strict" if op.get("strict") else ""))
            elif name == "slice":
                step = op.get("step")
                exp_ids = ids[op["start"]:op["stop"]:step]
                tags.append("slice:" + ("open-start," if op["start"] is None else "") + ("open-stop," if op["stop"] is None else "") + ("step>1" if (step or 1) > 1 else "step1"))
                if exp_ids and len(exp_ids) < n:
                    tags.append("slice:proper")
                if out != exp_ids:
                    bfail("delivered ids %s, the slice is %s" % (out, exp_ids), "slice-wrong")
            elif name == "reservoir":
                c = op["count"]
                size = n if c is None else (0 if (op["strict"] and n < c) else min(c, n))
                tags.append("reservoir:" + ("none" if c is None else "0" if c == 0 else "<len" if c < n else "=len" if c == n else ">len") + ("/strict" if op["strict"] else ""))
                if len(out) != size:
                    bfail("sample has %d interactions, promised %d" % (len(out), size), "reservoir-wrong-size")
                if len(set(map(str, out))) != len(out) or any(i not in ids for i in out):
                    bfail("sample %s is not made of distinct input interactions %s" % (out[:40], ids[:40]), "reservoir-not-distinct-inputs")
                else:
                    # "determined by the seed": the sample Algorithm L selects when driven, three uniforms per step, by ONE
                    # CobaRandom(seed) stream (independent reference over public CobaRandom calls)
                    try:
                        exp, nsteps = ref_reservoir_public(ids, c, op["strict"], mk_seed(op["seed"]))
                    except Exception:  # noqa: BLE001 - a broken generator is C05's business
                        exp, nsteps = None, 0
                    tags.append("reservoir:steps" + ("0" if nsteps == 0 else "<=20" if nsteps <= 20 else "21-40" if nsteps <= 40 else "41-63" if nsteps <= 63 else ">=64"))
                    if exp is not None and out != exp:
                        d = next((i for i in range(min(len(out), len(exp))) if out[i] != exp[i]), min(len(out), len(exp)))
                        bfail("Reservoir(%s, seed=%r) on %d interactions (%d replacement steps) delivered %s..., the sample the seed determines (Algorithm L on "
                              "CobaRandom(seed)'s stream, 3 uniforms per step) is %s... (first difference at position %d)"
                              % (c, mk_seed(op["seed"]), n, nsteps, out[:12], exp[:12], d), "reservoir-not-the-seeds-sample" + ("-after-20-steps" if nsteps > 20 else ""))
            elif name == "sort":
                self.check_sort(case, out, ids, bfail, tags)
            elif name == "where":
                ni, na, nf = norm_range(op.get("n_interactions")), norm_range(op.get("n_actions")), norm_range(op.get("n_features"))
                fc = feat_count(items[0].get("ctx")) if items and case["kind"] != "bare" else 0
                passes = n > 0 and in_range(n, ni) and in_range(fc, nf)
                exp_ids = [it["id"] for it in items if na == [None, None] or in_range(len(it["actions"]), na)] if passes else []
                tags.append("where:" + ("pass" if passes else "drop") + ("/some-actions-out" if passes and len(exp_ids) < n else ""))
                for k in ("n_interactions", "n_actions", "n_features"):
                    if k in op and op[k] is not None:
                        r = op[k]
                        tags.append("where:%s:%s" % (k, "exact" if isinstance(r, int) else "two-sided" if r["min"] is not None and r["max"] is not None else "open" if r["min"] is None and r["max"] is None else "one-sided"))
                if out != exp_ids:
                    sig = "where-wrong-selection"
                    kept = [it["id"] for it in items if na == [None, None] or in_range(len(it["actions"]), na)]
                    if out == kept and n > 0 and ni[0] is not None and ni[1] is not None and ni[0] < ni[1] < n and in_range(fc, nf):
                        sig = "where-two-sided-upper-bound-ignored"
                    elif case["kind"] != "bare" and items and isinstance(dec_ctx(items[0].get("ctx")), str) and "n_features" in op and op["n_features"] is not None:
                        sig = "where-string-context-feature-count"
                    bfail("delivered ids %s, promised %s (interaction count %d, feature count %d)" % (out, exp_ids, n, fc), sig)
            else:   # identity, chunk, params, cache, batch+unbatch
                exp_ids = list(ids)
                if name == "batch":
                    tags.append("batch:" + ("none" if not op["size"] else "1" if op["size"] == 1 else "<len" if op["size"] < n else ">=len"))
                if out != exp_ids:
                    bfail("delivered ids %s, the input was %s" % (out, ids), name + "-not-identity")

    # ------------------------------------------------------------ helpers
    def state_after_shuffle(self, op, n):
        """generator state after Reservoir's initial shuffle (harness-side LCG; used for signatures only)"""
        c = op["count"]
        if c is None or c == 0 or n < c:
            return None
        v = mk_seed(op["seed"])
        ms = model_seed(v)
        s = ms["int"] % M_ if "int" in ms else int.from_bytes(bytes(ms["bytes"]), "big") % 2 ** 20
        for _ in range(max(c - 1, 0)):
            s = lcg(s)
        return s

    def check_sort(self, case, out, ids, bfail, tags):
        op, items = case["op"], case["items"]
        if sorted(out, key=str) != sorted(ids, key=str):
            bfail("output ids %s are not a permutation of the input ids %s" % (out, ids), "sort-not-a-permutation")
            return
        if case["kind"] == "bare" or not items:
            if out != ids:
                bfail("interactions without a context must pass through unchanged, got %s" % out, "sort-no-context-reordered")
            return
        keys = op["keys"]
        first = dec_ctx(items[0].get("ctx"))
        ctxs = {it["id"]: dec_ctx(it.get("ctx")) for it in items}
        if isinstance(first, dict):
            if not keys:
                tags.append("sort:sparse-no-keys")
                return     # "all keys" of a sparse context has no agreed meaning; permutation + correspondence only
            kf = lambda i: tuple(ctxs[i].get(k, 0) for k in keys)
            tags.append("sort:sparse")
        else:
            kf = (lambda i: tuple(ctxs[i])) if not keys else (lambda i: tuple(ctxs[i][k] for k in keys))
            tags.append("sort:dense" + ("-all" if not keys else ""))
        ks = [kf(i) for i in out]
        if any(ks[j + 1] < ks[j] for j in range(len(ks) - 1)):
            bfail("output keys %s are not in ascending order" % ks[:12], "sort-not-sorted")
            return
        exp = sorted(ids, key=kf)
        if len(set(kf(i) for i in ids)) < len(ids):
            tags.append("sort:ties")
        if out != exp:
            bfail("interactions with equal keys changed their relative order: %s, stable order %s" % (out, exp), "sort-not-stable")

    def inner_req(self, op):
        """the driver request (without items) for one single-filter op; None when the op has no stateless model"""
        name = op["name"]
        if name == "pshuffle":
            return {"op": "pshuffle", "seed": model_seed(mk_seed(op["seed"]))}
        if name == "eshuffle":
            sd = mk_seed(op["seed"])
            return {"op": "eshuffle", "seed": model_seed(sd), "lseed": model_seed(sd * 3.21)}
        if name == "take":
            return {"op": "take", "count": op["count"], "strict": bool(op.get("strict", False))}
        if name == "slice":
            return {"op": "slice", "start": op["start"], "stop": op["stop"], "step": 1 if op.get("step") is None else op["step"]}
        if name == "reservoir":
            return {"op": "reservoir", "count": op["count"], "strict": op["strict"], "seed": model_seed(mk_seed(op["seed"]))}
        if name == "sort":
            return {"op": "sort", "keys": [model_val(k) for k in op["keys"]]}
        if name == "where":
            return {"op": "where", "nint": norm_range(op.get("n_interactions")), "nact": norm_range(op.get("n_actions")), "nfet": norm_range(op.get("n_features"))}
        if name == "riffle":
            return {"op": "riffle", "spacing": op["spacing"], "seed": model_seed(mk_seed(op["seed"]))}
        if name in ("identity", "chunk", "params"):
            return {"op": "identity"}
        return None

    def ask_model(self, case, driver):
        op = case["op"]
        name = op["name"]
        n = len(case["items"])
        if name == "batch":
            ans = driver.ask({"op": "batch", "size": op["size"] or 0, "items": model_items(case, with_rec=True)})
            if "err" in ans:
                return ans
            ans["out"] = [r[0][1] // 64 for r in ans["unbatched"] if r]
            return ans
        req = self.inner_req(op)
        if req is None:
            return None
        req = dict(req, items=model_items(case))
        ans = driver.ask(req)
        if name == "reservoir":
            # the model computes W, S, slot itself (IEEE doubles, C log/pow); the harness recomputes them in Python from the
            # model's generator state and (i) compares the two step lists, (ii) feeds its own list back into the step-list model
            c = op["count"]
            if c is not None and c > 0 and n >= c:
                mine = reservoir_steps(ans["state"], c, n - c)[0]
                ans["steps_py"] = mine
                if ans["steps"][:len(mine)] != mine:
                    ans["steps_differ"] = True
                given = driver.ask(dict(req, steps=mine))
                ans["out_given"] = given.get("out_given", given.get("err_given"))
                ans["runok_given"] = given.get("runok_given")
                ans["runok_py"] = reservoir_ok_py(c, mine, n)
            ans["steps"] = ans["steps"][:40]
        return ans

    def check_batches(self, case, R, model):
        """the batched interactions Batch produces, against the model's columns (tokens -> values)"""
        from coba.environments import filters as EF
        op = case["op"]
        try:
            real = list(EF.Batch(op["size"]).filter(give(mk_items(case), "iter")))
        except Exception as e:  # noqa: BLE001
            return "Batch alone raised %s" % errname(e)
        mb = model["batches"]
        if len(real) != len(mb):
            return "Batch produced %d interactions, model %d" % (len(real), len(mb))
        prist = {it["id"]: mk_item(it, case["kind"]) for it in case["items"]}
        for b, m in zip(real, mb):
            if "plain" in m:
                want = {k: canon_val(prist[t // 64][k]) for k, t in m["plain"]}
                got = {k: canon_val(v) for k, v in b.items()}
            else:
                want = {k: [canon_val(prist[t // 64][k]) for t in ts] for k, ts in m["batch"]}
                got = {k: [canon_val(x) for x in v] for k, v in b.items()}
                if not all(hasattr(v, "is_batch") for v in b.values()):
                    return "a value of a batched interaction is not marked is_batch"
            if got != want:
                return "a batched interaction differs from the model's columns: %s vs %s" % (json.dumps(got)[:200], json.dumps(want)[:200])
        return None

    # ------------------------------------------------------------ shrinking / reproduction
    def shrink_multi(self, case):
        envs, order = case["envs"], case["order"]
        for i in range(len(order)):
            yield dict(case, order=order[:i] + order[i + 1:])
        for i, (k, c) in enumerate(order):
            if c is not None:
                yield dict(case, order=order[:i] + [[k, None]] + order[i + 1:])
        if len(envs) > 2:
            for k in range(len(envs)):
                no = [[j - (j > k), c] for j, c in order if j != k]
                yield dict(case, envs=envs[:k] + envs[k + 1:], order=no)
        for k, e in enumerate(envs):
            if len(e) > 1:
                yield dict(case, envs=envs[:k] + [e[:len(e) // 2]] + envs[k + 1:])
            for i in range(len(e)):
                yield dict(case, envs=envs[:k] + [e[:i] + e[i + 1:]] + envs[k + 1:])
        if case.get("input", "list") != "list":
            yield dict(case, input="list")

    def shrink(self, case):
        if case["op"]["name"] == "unbatchg":
            recs = case["recs"]
            for i in range(len(recs)):
                yield dict(case, recs=recs[:i] + recs[i + 1:])
                for j in range(len(recs[i])):
                    if len(recs[i]) > 1:
                        yield dict(case, recs=recs[:i] + [recs[i][:j] + recs[i][j + 1:]] + recs[i + 1:])
            return
        if case["op"]["name"] == "product":
            envs, order = case["envs"], case["order"]
            for i in range(len(order)):
                yield dict(case, order=order[:i] + order[i + 1:])
            for k, e in enumerate(envs):
                for i in range(len(e)):
                    yield dict(case, envs=envs[:k] + [e[:i] + e[i + 1:]] + envs[k + 1:])
            return
        if case["op"]["name"] == "multi":
            yield from self.shrink_multi(case)
            return
        if case["op"]["name"] == "chain":
            op, its = case["op"], case["items"]
            if op["form"] != "join":
                yield dict(case, op=dict(op, form="join", shape=list(range(len(op["stages"])))))
            if len(case.get("reads") or []) > 0:
                yield dict(case, reads=[])
            if len(op["stages"]) > 1:
                for j in range(len(op["stages"])):
                    stg = op["stages"][:j] + op["stages"][j + 1:]
                    yield dict(case, op=dict(op, stages=stg, form="join", shape=list(range(len(stg)))))
            for i in range(len(its)):
                yield dict(case, items=its[:i] + its[i + 1:])
            return
        if case["op"]["name"] == "shufcall":
            envs = case["envs"]
            if len(envs) > 1:
                for x in range(len(envs)):
                    yield dict(case, envs=envs[:x] + envs[x + 1:])
            for x, its in enumerate(envs):
                if len(its) > 1:
                    yield dict(case, envs=envs[:x] + [its[:len(its) // 2]] + envs[x + 1:])
            return
        if case["op"]["name"] == "cachemulti":
            reads, op, envs = case["reads"], case["op"], case["envs"]
            for i in range(len(reads)):
                yield dict(case, reads=reads[:i] + reads[i + 1:])
            if len(op["branches"]) > 1:
                for j in range(len(op["branches"])):
                    yield dict(case, op=dict(op, branches=op["branches"][:j] + op["branches"][j + 1:]),
                               reads=[[b - (b > j), e, k, h] for b, e, k, h in reads if b != j])
            if len(envs) > 1:
                for x in range(len(envs)):
                    yield dict(case, envs=envs[:x] + envs[x + 1:], reads=[[b, e - (e > x), k, h] for b, e, k, h in reads if e != x])
            for x, its in enumerate(envs):
                for m in (len(its) // 2, len(its) - 5, len(its) - 1):
                    if 0 < m < len(its):
                        yield dict(case, envs=envs[:x] + [its[:m]] + envs[x + 1:])
            if case.get("input", "list") != "list":
                yield dict(case, input="list")
            return
        if case["op"]["name"] == "cachepipe":
            reads, op = case["reads"], case["op"]
            for i in range(len(reads)):
                yield dict(case, reads=reads[:i] + reads[i + 1:])
            if op.get("pre") is not None:
                yield dict(case, op=dict(op, pre=None))
            if len(op["branches"]) > 1:
                for j in range(len(op["branches"])):
                    yield dict(case, op=dict(op, branches=op["branches"][:j] + op["branches"][j + 1:]),
                               reads=[[b - (b > j), k, h] for b, k, h in reads if b != j])
            for j, b in enumerate(op["branches"]):
                if b is not None:
                    yield dict(case, op=dict(op, branches=op["branches"][:j] + [None] + op["branches"][j + 1:]))
            its = case["items"]
            for m in (len(its) // 2, len(its) - 5, len(its) - 1):
                if 0 < m < len(its):
                    yield dict(case, items=its[:m])
            if case.get("input", "list") != "list":
                yield dict(case, input="list")
            return
        items = case["items"]
        n = len(items)
        if n > 1:
            yield dict(case, items=items[:n // 2])
            yield dict(case, items=items[n // 2:])
        for k in range(n):
            yield dict(case, items=items[:k] + items[k + 1:])
        for key in ("via_env", "batchsafe"):
            if key in case:
                c = dict(case)
                c.pop(key)
                yield c
        if case.get("input", "list") != "list":
            yield dict(case, input="list")
        op = case["op"]
        for k in ("count", "start", "stop", "step", "spacing", "size"):
            v = op.get(k)
            if isinstance(v, int) and v > 0:
                yield dict(case, op=dict(op, **{k: v - 1}))
                yield dict(case, op=dict(op, **{k: v // 2}))
        if op["name"] == "where":
            for k in ("n_interactions", "n_actions", "n_features"):
                if k in op:
                    o = dict(op)
                    o.pop(k)
                    yield dict(case, op=o)
        if op["name"] == "cache" and len(op["reads"]) > 1:
            for k in range(len(op["reads"])):
                yield dict(case, op=dict(op, reads=op["reads"][:k] + op["reads"][k + 1:]))
        if op["name"] == "sort" and len(op.get("keys", [])) > 1:
            for k in range(len(op["keys"])):
                yield dict(case, op=dict(op, keys=op["keys"][:k] + op["keys"][k + 1:]))
        for it_i, it in enumerate(items):
            if "extra" in it:
                j = dict(it)
                j.pop("extra")
                yield dict(case, items=items[:it_i] + [j] + items[it_i + 1:])
                break

    def snippet(self, case):
        if case["op"]["name"] in ("product", "unbatchg", "cachepipe", "cachemulti", "shufcall", "chain"):
            return ("# plain reproduction against the coba checkout (no Lean): evaluates the case with the harness monitor only\n"
                    "import sys, json; sys.path[:0] = [%r, %r]\n"
                    "from props.c09 import PROPERTY\n"
                    "out = PROPERTY.evaluate(json.loads(%r), None)\n"
                    "print(json.dumps(out['impl'], indent=1, default=str)); print(out['fails'])\n"
                    % (os.environ.get("COBA_REPO", "/repo"), os.path.dirname(os.path.dirname(os.path.abspath(__file__))), json.dumps(case)))
        head = ("# plain reproduction against the coba checkout (no Lean, no engine); prints what the filter delivers\n"
                "import sys, json, itertools; sys.path[:0] = [%r, %r]\n"
                "from props.c09 import Run, give\n"
                "case = json.loads(%r)\n"
                "r = Run(case)\n"
                "print('input ids  ', r.ids)\n"
                % (os.environ.get("COBA_REPO", "/repo"), os.path.dirname(os.path.dirname(os.path.abspath(__file__))), json.dumps(case)))
        if case["op"]["name"] == "multi":
            return ("# plain reproduction against the coba checkout (no Lean, no engine)\n"
                    "import sys, json, itertools; sys.path[:0] = [%r, %r]\n"
                    "from props.c09 import Run, via_envs\n"
                    "case = json.loads(%r)\n"
                    "runs = [Run({'kind': case['kind'], 'items': e, 'op': case['op']['method'], 'input': case.get('input', 'list')}) for e in case['envs']]\n"
                    "pipes = dict(via_envs(case['op']['method'], [r.items for r in runs], case.get('input', 'list')))   # Environments(env0, env1, ...).<method>()\n"
                    "for k, r in enumerate(runs): print('environment', k, 'holds ids', r.ids)\n"
                    "for k, c in case['order'] + [[k, None] for k in range(len(runs))]:\n"
                    "    g = iter(pipes[k].read())\n"
                    "    print('read environment', k, 'consuming', c, '->', runs[k].describe(list(g if c is None else itertools.islice(g, c))))\n"
                    % (os.environ.get("COBA_REPO", "/repo"), os.path.dirname(os.path.dirname(os.path.abspath(__file__))), json.dumps(case)))
        if case["op"]["name"] == "cache":
            return head + ("from coba.environments.filters import Cache\n"
                           "c = Cache(case['op'].get('nslice', 25)); alive = []\n"
                           "closes = case['op'].get('close') or []\n"
                           "for i, k in enumerate(case['op']['reads']):\n"
                           "    g = c.filter(give(r.items, 'gen'))\n"
                           "    print('read consuming', k, '->', r.describe(list(g if k is None else itertools.islice(g, k))))\n"
                           "    if i < len(closes) and closes[i]: g.close()     # the reader closes its half-read generator\n"
                           "    else: alive.append(g)\n")
        return head + ("reader = r.new_reader()\n"
                       "print('first read ', r.read_once(reader))\n"
                       "print('second read', r.read_once(reader))\n"
                       "print('new filter ', r.read_once(r.new_reader()))\n"
                       "it = iter(reader()); next(it, None)     # an abandoned, still alive iterator of the same filter\n"
                       "print('third read ', r.read_once(reader))\n")


PROPERTY = C09()
