"""C19: runners that execute the REAL coba cachers (scheduled threads, DiskCacher cuts, real mp array)."""
import os
import shutil
import tempfile
import threading
from contextlib import nullcontext
from hashlib import blake2b

from core.prng import Rng
from props.c19_sched import Sched, SLock, SArray, FakeTime, Kill


def kidx(key):
    """the 16-bit index coba derives from a key (recomputed here, independent of the code under test)"""
    return int.from_bytes(blake2b(str(key).encode("utf-8"), digest_size=2).digest(), "big")


def colliding_pairs(n=4, limit=6000):
    seen, out = {}, []
    for i in range(limit):
        k = "k%d" % i
        j = kidx(k)
        if j in seen:
            out.append((seen[j], k))
            if len(out) >= n:
                break
        else:
            seen[j] = k
    return out


PAIRS = colliding_pairs()


class GetterError(Exception):
    pass


class BodyError(Exception):
    pass


class RmvError(OSError):
    """the inner cacher's rmv failing (what DiskCacher.rmv does when unlink raises: PermissionError, vanished file)"""


class BodyBaseErr(BaseException):
    """a with-body left through something that is not an `Exception`"""


_REPAIRED = {}


def is_repaired():
    """does the code under test contain fixes/C19-nested-write-wait-raises.diff?  Probed by behaviour: a thread inside a
    with-block asks for the write lock of a slot somebody else reads; the repaired code raises, the original goes to sleep"""
    repo = os.environ.get("COBA_REPO", "/repo")
    if repo in _REPAIRED:
        return _REPAIRED[repo]
    import coba.context.cachers as M
    from coba.exceptions import CobaException

    class Slept(BaseException):
        pass

    class P:
        def sleep(self, secs=0):
            raise Slept()

        def __getattr__(self, name):
            import time as realtime
            return getattr(realtime, name)
    res = False
    undo = patch_time(M, P())
    try:
        inner = M.MemoryCacher()
        inner.get_set("b", 1)
        cc = M.ConcurrentCacher(inner)
        cm = cc.get_set("a", lambda: 1)
        cm.__enter__()
        cc._array[cc._index("b")] = 1          # another caller reads 'b'
        try:
            cc.rmv("b")
        except CobaException:
            res = True
        except Slept:
            res = False
    except BaseException:
        res = False
    finally:
        for name, val in undo:
            setattr(M, name, val)
    _REPAIRED[repo] = res
    return res


class BaseErr(BaseException):
    """a getter failure that is not an `Exception` (like KeyboardInterrupt / SystemExit)"""


def full_value(ki, v, parts):
    return [[ki, v, j] for j in range(parts)]


def make_chooser(case):
    sc = case.get("sched") or {"mode": "rand"}
    mode = sc.get("mode", "rand")
    rng = Rng(case.get("seed", 0), "c19-sched")
    if mode == "rand":
        return lambda cands, last: cands[rng.below(len(cands))]
    if mode == "list":
        lst = list(sc.get("list", []))
        pos = [0]

        def ch(cands, last):
            while pos[0] < len(lst):
                t = lst[pos[0]]
                pos[0] += 1
                if t in cands:
                    return t
            if last in cands and sc.get("sticky"):
                return last
            nxt = [c for c in cands if last is None or c > last]
            return nxt[0] if nxt else cands[0]
        return ch
    # preemption-bounded: run one thread for a budget of steps, then move on (budgets from the case)
    budgets = list(sc.get("switch", []))
    st = {"left": budgets.pop(0) if budgets else None}

    def pb(cands, last):
        if last is None:
            return cands[0]                   # the first stint uses the first budget
        if last in cands and (st["left"] is None or st["left"] > 0):
            if st["left"] is not None:
                st["left"] -= 1
            return last
        st["left"] = budgets.pop(0) if budgets else None
        nxt = [c for c in cands if last is None or c > last]
        return nxt[0] if nxt else cands[0]
    return pb


def patch_time(M, fake):
    """substitute `time` (and a directly imported `sleep`) in the cachers module; returns undo list"""
    import time as realtime
    undo = []
    for name, val in list(vars(M).items()):
        if val is realtime:
            undo.append((name, val))
            setattr(M, name, fake)
        elif val is realtime.sleep:
            undo.append((name, val))
            setattr(M, name, fake.sleep)
    return undo


def run_sched(case):
    """run the case's thread programs on a real ConcurrentCacher under the baton scheduler"""
    import time as realtime
    import coba.context.cachers as M
    from coba.exceptions import CobaException

    keys = case["keys"]
    idxs = [kidx(k) for k in keys]
    kpos = {k: i for i, k in enumerate(keys)}
    progs = case["progs"]
    parts = int(case.get("parts", 2))
    n = len(progs)
    repaired = is_repaired()
    s = Sched(n, make_chooser(case), max_steps=int(case.get("max_steps", 6000)))
    arr = SArray([0] * 2 ** 16).attach(s)
    cur = [None] * n                      # key the thread is operating on (labels the lock events)
    depth = [0] * n
    stacks = [[] for _ in range(n)]
    viol = []                             # (sig, what)
    st = {"base_raised": False, "spins": 0}
    reading, writing, getting = {}, {}, {}
    last_value, getter_ok, getter_runs, removed = {}, {}, {}, {}
    outcomes = [[] for _ in range(n)]
    received = [[] for _ in range(n)]
    rmv_fail = [False] * n                # the inner rmv the thread is about to reach raises
    fevs = []                             # file-level steps of the DiskCacher write: (position in the event list, thread, event)
    open_files = {}
    open_paths = {}             # real path -> threads that have it open for writing (round h: two keys, one file)

    def fev(ev):
        tid_ = s.me()
        if tid_ is not None and not s.killing:
            fevs.append([len(s.events), tid_, list(ev)])

    def keyinfo(writes):
        tid = s.me()
        ki = cur[tid] if tid is not None else None
        net = {}
        for i, old, new in writes:
            net[i] = (net[i][0] if i in net else old, new)
        net = {i: on for i, on in net.items() if on[0] != on[1]}
        if not net:
            st["spins"] += 1
            return ("spin",)
        if len(net) > 1:
            return ("multi", sorted(net.items()))
        (i, (o, nw)), = net.items()
        if ki is None or i != idxs[ki]:
            return ("wrongIndex", i, o, nw)
        if o >= 0 and nw == o + 1:
            return ("acqR", ki)
        if o == -1 and nw == 1:
            return ("sw", ki)
        if o == -1 and nw == 0:
            return ("relW", ki)
        if o == 0 and nw == -1:
            return ("acqW", ki)
        if o >= 1 and nw == o - 1:
            return ("relR", ki)
        return ("odd", ki, o, nw)

    disk_dir = None
    if case.get("inner") == "disk":
        # the real DiskCacher as the inner cacher: it writes in place, so a half-written file is visible to exists()
        disk_dir = tempfile.mkdtemp(prefix="c19sched")
        dcache = M.DiskCacher(disk_dir)

        class DiskInner:
            def __contains__(self, key):
                return key in dcache

            def rmv(self, key):
                dcache.rmv(key)

            def get_set(self, key, getter):
                g = None
                ki_ = kpos.get(key, -1)
                if callable(getter):
                    def g():
                        it = getter()

                        def lines():
                            for p in it:
                                yield "%d,%d,%d" % (p[0], p[1] if p[1] is not None else 0, p[2])
                                # DiskCacher asked for the next line: the previous one has been written
                                fev(("chunk", ki_, p[2], os.path.exists(str(dcache._cache_path(key)))))
                        return lines()
                else:
                    # the read path: what is on disk right now?  (B) at file level
                    tid_ = s.me()
                    if tid_ is not None:
                        w = [t for t in open_files.get(ki_, []) if t != tid_]
                        path_ = str(dcache._cache_path(key))
                        wp = [t for t in open_paths.get(os.path.realpath(path_), []) if t != tid_]
                        if wp and not w:
                            viol.append(("disk-reader-saw-open-file", "thread %d opens the entry %r through DiskCacher.get_set(key, None) while thread %s is writing the SAME FILE %r "
                                         "for a different key (the file name does not identify the key; %d bytes on disk)"
                                         % (tid_, key, wp, os.path.basename(path_), os.path.getsize(path_) if os.path.exists(path_) else -1)))
                        if w:
                            viol.append(("disk-reader-saw-open-file", "thread %d opens the entry %r through DiskCacher.get_set(key, None) while thread %s has its file open "
                                         "for writing (%d bytes on disk)" % (tid_, key, w, os.path.getsize(path_) if os.path.exists(path_) else -1)))
                        elif os.path.exists(path_) and os.path.getsize(path_) == 0:
                            viol.append(("disk-reader-saw-zero-length", "thread %d opens the entry %r while its file is zero-length" % (tid_, key)))
                with dcache.get_set(key, g) as f:
                    val = [[int(x) for x in ln.strip().split(",")] for ln in f]
                return nullcontext(val)
        inner = DiskInner()
        real_gzip = getattr(M, "gzip", None)

        class WFile:
            """the file DiskCacher writes through: logs open / close and adds a scheduling point after the close"""

            def __init__(self, f, ki_, rp_=None):
                self._f, self._ki, self._rp = f, ki_, rp_

            def __enter__(self):
                return self

            def __exit__(self, *exc):
                self.close()
                return False

            def close(self):
                if self._f.closed:
                    return
                self._f.close()
                tid_ = s.me()
                if tid_ in open_files.get(self._ki, []):
                    open_files[self._ki].remove(tid_)
                if tid_ in open_paths.get(self._rp, []):
                    open_paths[self._rp].remove(tid_)
                fev(("close", self._ki))
                s.yp()          # between the close and get_set returning / the `except:` that removes a failed write

            def __getattr__(self, name):
                return getattr(self._f, name)

        class GzProxy:
            def open(self, filename, mode="rb", *a, **k):
                f = real_gzip.open(filename, mode, *a, **k)
                tid_ = s.me()
                if tid_ is None or not any(c in str(mode) for c in "wax+"):
                    return f
                ki_ = kpos.get(os.path.basename(str(filename))[:-3], -1)
                open_files.setdefault(ki_, []).append(tid_)
                rp_ = os.path.realpath(str(filename))
                open_paths.setdefault(rp_, []).append(tid_)
                fev(("open", ki_, os.path.getsize(str(filename))))
                return WFile(f, ki_, rp_)

            def __getattr__(self, name):
                return getattr(real_gzip, name)
        if real_gzip is not None:
            M.gzip = GzProxy()
    else:
        inner = M.MemoryCacher()

    def others(d, ki, tid):
        return [t for t in d.get(ki, []) if t != tid]

    def start_read(ki, what):
        tid = s.me()
        if others(writing, ki, tid):
            viol.append(("overlap-read-during-write", "thread %d %s key %r while thread %s is writing/removing it" % (tid, what, keys[ki], others(writing, ki, tid))))
        reading.setdefault(ki, []).append(tid)

    def end_read(ki):
        tid = s.me()
        if tid in reading.get(ki, []):
            reading[ki].remove(tid)

    def start_write(ki, what):
        tid = s.me()
        if others(writing, ki, tid):
            viol.append(("overlap-two-writers", "thread %d %s key %r while thread %s is writing/removing it" % (tid, what, keys[ki], others(writing, ki, tid))))
        if reading.get(ki):
            viol.append(("overlap-write-during-read", "thread %d %s key %r while thread(s) %s are reading it" % (tid, what, keys[ki], reading[ki])))
        writing.setdefault(ki, []).append(tid)

    def end_write(ki):
        tid = s.me()
        if tid in writing.get(ki, []):
            writing[ki].remove(tid)

    def token(ki, val):
        if isinstance(val, list) and len(val) == parts and all(isinstance(p, list) and len(p) == 3 for p in val) \
                and val == full_value(ki, val[0][1], parts):
            return val[0][1]
        return -1

    class MonCacher(M.Cacher):
        def __contains__(self, key):
            s.yp()
            r = key in inner
            s.log(("contains", kpos.get(key, -1), bool(r)))
            return r

        def rmv(self, key):
            ki = kpos.get(key, -1)
            s.yp()
            start_write(ki, "removes")
            try:
                tid = s.me()
                if tid is not None and rmv_fail[tid]:
                    rmv_fail[tid] = False
                    st["rmv_failed"] = st.get("rmv_failed", 0) + 1
                    s.log(("crmvFail", ki))
                    s.yp()
                    raise RmvError(13, "Permission denied", "%s.gz" % key)
                present = key in inner
                inner.rmv(key)
                if present:
                    removed[ki] = removed.get(ki, 0) + 1
                    last_value.pop(ki, None)
                s.log(("crmv", ki, bool(present)))
                s.yp()
            finally:
                end_write(ki)

        def get_set(self, key, getter):
            ki = kpos.get(key, -1)
            s.yp()
            if key in inner:
                start_read(ki, "reads")
                try:
                    with inner.get_set(key, getter) as val:
                        pass
                    s.log(("cget", ki, token(ki, val)))
                    s.yp()
                except BaseException:
                    end_read(ki)
                    raise
                return nullcontext(val)
            start_write(ki, "populates")
            try:
                s.log(("ccreate", ki))            # a DiskCacher creates the (incomplete) file here; the entry is complete only at cpop
                if disk_dir is None:
                    s.yp()                        # (with the real DiskCacher the next yield is inside the getter, when the file exists)
                try:
                    with inner.get_set(key, getter) as val:
                        pass
                except (GetterError, BaseErr):
                    s.log(("cpopFail", ki))
                    raise
                tok = token(ki, val)
                last_value[ki] = tok
                s.log(("cpop", ki, tok))
            finally:
                end_write(ki)
            reading.setdefault(ki, []).append(s.me())
            return nullcontext(val)

    def make_getter(ki, ins):
        v = ins[2]
        fail_at = ins[3] if len(ins) > 3 else (0 if v is None else None)
        base = len(ins) > 4 and ins[4] == "base"

        def getter():
            tid = s.me()
            getter_runs[ki] = getter_runs.get(ki, 0) + 1
            if v is None and fail_at == "call":
                s.yp()
                raise GetterError("getter raises when called")
            if keys[ki] in inner:
                viol.append(("single-flight", "getter for key %r called by thread %d although the entry is cached" % (keys[ki], tid)))
            if getting.get(ki):
                viol.append(("single-flight-concurrent", "getter for key %r called by thread %d while thread %s is running it" % (keys[ki], tid, getting[ki])))
            getting.setdefault(ki, []).append(tid)

            def gen():
                try:
                    for j in range(parts + 1):
                        s.yp()
                        if v is None and j == min(int(fail_at), parts):
                            if base:
                                st["base_raised"] = True
                                raise BaseErr("getter")
                            raise GetterError("getter")
                        if j < parts:
                            yield [ki, v, j]
                    getter_ok[ki] = getter_ok.get(ki, 0) + 1
                finally:
                    if tid in getting.get(ki, []):
                        getting[ki].remove(tid)
            return gen()
        return getter

    lock = SLock(s, arr, keyinfo)
    cc = M.ConcurrentCacher(MonCacher(), arr, lock)

    def run_block(tid, seg, pos, dep):
        while pos < len(seg):
            ins = seg[pos]
            op = ins[0]
            if op == "gs":
                ki = ins[1]
                s.yp()
                s.log(("begin",))
                cur[tid] = ki
                try:
                    cm = cc.get_set(keys[ki], make_getter(ki, ins))
                except CobaException:
                    end_read(ki)
                    if repaired and stacks[tid] and s.relabel_last_spin(("refuse", ki)):
                        outcomes[tid].append("nested-write-refused:CobaException")
                    raise
                except BaseException:
                    end_read(ki)
                    raise
                with cm as val:
                    try:
                        s.yp()
                        tok = token(ki, val)
                        s.log(("enter", ki, tok))
                        received[tid].append([ki, tok])
                        if tok == -1:
                            viol.append(("partial-value", "thread %d received %r for key %r: not a complete getter value" % (tid, val, keys[ki])))
                        elif last_value.get(ki) != tok:
                            viol.append(("wrong-value", "thread %d received value %r for key %r but the cached entry is %r" % (tid, tok, keys[ki], last_value.get(ki))))
                        stacks[tid].append(ki)
                        pos = run_block(tid, seg, pos + 1, dep + 1)
                    finally:
                        if stacks[tid] and stacks[tid][-1] == ki:
                            stacks[tid].pop()
                        end_read(ki)
                        cur[tid] = ki
            elif op == "exit":
                s.yp()
                if dep == 0:
                    s.log(("skip",))
                    pos += 1
                    continue
                s.log(("begin",))
                return pos + 1
            elif op == "raise":
                s.yp()
                s.log(("raiseBody",))
                if len(ins) > 1 and ins[1] == "base":
                    raise BodyBaseErr("body")
                if len(ins) > 1 and ins[1] in ("KeyboardInterrupt", "SystemExit", "GeneratorExit"):
                    raise {"KeyboardInterrupt": KeyboardInterrupt, "SystemExit": SystemExit, "GeneratorExit": GeneratorExit}[ins[1]]("body")
                raise BodyError("body")
            elif op == "rmv":
                ki = ins[1]
                s.yp()
                s.log(("begin",))
                cur[tid] = ki
                rmv_fail[tid] = len(ins) > 2 and ins[2] == "fail"
                try:
                    cc.rmv(keys[ki])
                except CobaException:
                    if ki in stacks[tid]:
                        outcomes[tid].append("rmv-while-reading:CobaException")
                    elif repaired and stacks[tid] and s.relabel_last_spin(("refuse", ki)):
                        outcomes[tid].append("nested-write-refused:CobaException")
                    raise
                finally:
                    rmv_fail[tid] = False
                pos += 1
            else:
                raise RuntimeError("bad instr %r" % (ins,))
        if dep > 0:
            s.yp()
            s.log(("begin",))
        return pos

    def body(tid):
        for seg in progs[tid]:
            s.yp()
            s.log(("nextSeg",))
            n_out = len(outcomes[tid])
            try:
                run_block(tid, seg, 0, 0)
                outcomes[tid].append("ok")
            except GetterError:
                outcomes[tid].append("GetterError")
            except BodyError:
                outcomes[tid].append("BodyError")
            except RmvError:
                outcomes[tid].append("RmvError")
            except BodyBaseErr:
                outcomes[tid].append("BodyBaseErr")
            except (KeyboardInterrupt, SystemExit, GeneratorExit) as e:
                outcomes[tid].append("BodyBaseErr:" + type(e).__name__)
            except BaseErr:
                outcomes[tid].append("BaseErr")
            except CobaException as e:
                if len(outcomes[tid]) == n_out:
                    outcomes[tid].append("unexpected:CobaException")
                    viol.append(("unexpected-exception:CobaException", "thread %d got CobaException(%s) outside the documented rmv-while-reading case" % (tid, e)))
            except Kill:
                raise
            except Exception as e:
                outcomes[tid].append("unexpected:" + type(e).__name__)
                viol.append(("unexpected-exception:" + type(e).__name__, "thread %d got %s: %s" % (tid, type(e).__name__, str(e)[:120])))
            del stacks[tid][:]

    snap = {}

    def on_stop(sch):
        snap["depth_live"] = [len(stacks[i]) for i in sch.live_at_end]
        # wait-for edges of the live (spinning) threads, from the real array and _locks
        held = {}
        for (ident, key), val in list(getattr(cc, "_locks", {}).items()):
            t = sch.ids.get(ident)
            if t is not None and key in kpos and val != 0:
                held.setdefault(t, []).append((idxs[kpos[key]], val))
        edges = []
        for i in sch.live_at_end:
            if cur[i] is None:
                continue
            slot = idxs[cur[i]]
            a = list.__getitem__(arr, slot)
            for j, hs in held.items():
                for (sl, val) in hs:
                    if sl == slot and ((a == -1 and val == -1) or (a > 0 and val > 0)):
                        edges.append([i, j])
        snap["wait_edges"] = sorted([list(e) for e in set(map(tuple, edges))])
    s.on_stop = on_stop
    undo = patch_time(M, FakeTime(s, realtime))
    try:
        status = s.run([body] * n)
    except BaseException:
        if disk_dir:
            shutil.rmtree(disk_dir, ignore_errors=True)
        raise
    finally:
        for name, val in undo:
            setattr(M, name, val)
        if disk_dir is not None and real_gzip is not None:
            M.gzip = real_gzip

    locks = {}
    for (ident, key), val in list(getattr(cc, "_locks", {}).items()):
        tid = s.ids.get(ident)
        locks[(tid, kpos.get(key, -1))] = locks.get((tid, kpos.get(key, -1)), 0) + val
    nonzero = [[i, list.__getitem__(arr, i)] for i in range(len(arr)) if list.__getitem__(arr, i) != 0]
    cache = []
    for ki, k in enumerate(keys):
        if k in inner:
            with inner.get_set(k, None) as val:
                cache.append(token(ki, val))
        else:
            cache.append(None)
    if disk_dir:
        shutil.rmtree(disk_dir, ignore_errors=True)
    return {
        "status": status, "events": [[t, list(e)] for t, e in s.events], "steps": s.steps,
        "live": list(getattr(s, "live_at_end", [])), "depth_live": snap.get("depth_live", []), "wait_edges": snap.get("wait_edges", []), "repaired": repaired,
        "arr_keys": [list.__getitem__(arr, i) for i in idxs], "arr_nonzero": nonzero,
        "locks": sorted([[t, k, v] for (t, k), v in locks.items()], key=str),
        "cache": cache, "outcomes": outcomes, "received": received, "viol": viol,
        "base_raised": st["base_raised"], "rmv_failed": st.get("rmv_failed", 0), "spins": st["spins"], "unlocked_writes": arr.unlocked_writes,
        "getter_ok": getter_ok, "removed": removed, "idx": idxs, "file_events": fevs,
        "errors": [None if e is None else type(e).__name__ for e in s.errors],
    }


# ------------------------------------------------------------------ DiskCacher

def run_disk(case):
    """DiskCacher with the write cut by a raising getter / by truncating the file / a zero-length file"""
    from coba.context.cachers import DiskCacher, ConcurrentCacher
    d = tempfile.mkdtemp(prefix="c19disk")
    L1, L2 = list(case["lines"]), list(case["lines2"])
    cut = case["cut"]
    key = "entry"
    out = {"stage1": None, "present_after_stage1": None, "size_after_stage1": None, "getter2_called": False}
    try:
        dc = DiskCacher(d)
        cc = None
        if case.get("conc"):
            cc = dc = ConcurrentCacher(DiskCacher(d))      # the way coba uses it in worker processes
        path = os.path.join(d, key + ".gz")
        if cut[0] == "getter":
            p = cut[1]
            kind = cut[2] if len(cut) > 2 else "exception"
            exc = {"exception": GetterError, "base": BaseErr, "KeyboardInterrupt": KeyboardInterrupt, "SystemExit": SystemExit,
                   "GeneratorExit": GeneratorExit}[kind]

            def g1():
                # a streaming getter: hands out its lines one by one and fails after p of them
                for j in range(len(L1) + 1):
                    if j == min(p, len(L1)):
                        raise exc("cut")
                    yield L1[j]
            try:
                with dc.get_set(key, g1) as f:
                    out["stage1"] = ["value", [ln.rstrip("\n") for ln in f]]
            except exc:
                out["stage1"] = ["raised", "getter"]
            except BaseException as e:
                out["stage1"] = ["raised", type(e).__name__]
        elif cut[0] == "getter-call":
            def g0():
                raise GetterError("call")
            try:
                with dc.get_set(key, g0) as f:
                    out["stage1"] = ["value", [ln.rstrip("\n") for ln in f]]
            except GetterError:
                out["stage1"] = ["raised", "getter"]
        elif cut[0] in ("truncate", "none"):
            with dc.get_set(key, lambda: iter(L1)) as f:
                got = [ln.rstrip("\n") for ln in f]
            out["stage1"] = ["value", got]
            out["full_size"] = os.path.getsize(path)
            if cut[0] == "truncate":
                nbytes = min(cut[1], out["full_size"])
                with open(path, "r+b") as fh:
                    fh.truncate(nbytes)
                out["cut_at"] = nbytes
        elif cut[0] == "zero":
            os.makedirs(d, exist_ok=True)
            open(path, "wb").close()
            out["stage1"] = ["zero"]
        out["present_after_stage1"] = os.path.exists(path)
        out["size_after_stage1"] = os.path.getsize(path) if os.path.exists(path) else None

        def g2():
            out["getter2_called"] = True
            return iter(L2)
        try:
            cm = dc.get_set(key, g2)
        except Exception as e:
            out["stage2_call"] = ["raised", type(e).__name__]
            out["stage2"] = ["raised", type(e).__name__]
        else:
            out["stage2_call"] = ["value"]
            try:
                with cm as f:
                    out["stage2"] = ["value", [ln.rstrip("\n") for ln in f]]
            except Exception as e:
                out["stage2"] = ["raised", type(e).__name__]
        out["present_after_stage2"] = os.path.exists(path)
        if cc is not None:
            out["array_nonzero"] = [[i, v] for i, v in enumerate(cc._array) if v != 0][:4]
            out["locks_nonzero"] = sorted(str(k[1]) for k, v in getattr(cc, "_locks", {}).items() if v != 0)
        return out
    finally:
        shutil.rmtree(d, ignore_errors=True)


# ------------------------------------------------------------------ real multiprocessing array + lock, real threads

def wired_cacher(inner):
    """the ConcurrentCacher that CobaMultiprocessor hands to its worker processes (coba/multiprocessing.py), obtained by
    letting CobaMultiprocessor.filter run with the process pool replaced by a recorder; (None, reason) if the code was reshaped"""
    try:
        import coba.multiprocessing as CM
        from coba.context import CobaContext
    except Exception as e:
        return None, "import failed: %s" % type(e).__name__
    got = {}

    class FakePool:
        def __init__(self, filt, *a, **k):
            got["filter"] = filt

        def filter(self, items):
            return iter(())

    class Ident:
        def filter(self, item):
            yield item
    if not hasattr(CM, "Multiprocessor") or not hasattr(CM, "CobaMultiprocessor"):
        return None, "names not found"
    saved_pool, saved_cacher = CM.Multiprocessor, CobaContext._cacher
    try:
        CM.Multiprocessor = FakePool
        CobaContext.cacher = inner
        list(CM.CobaMultiprocessor(Ident(), 2).filter([1]))
    except Exception as e:
        return None, "wiring run failed: %s" % type(e).__name__
    finally:
        CM.Multiprocessor = saved_pool
        CobaContext._cacher = saved_cacher
    cc = getattr(got.get("filter"), "_cacher", None)
    if cc is None or not hasattr(cc, "_array") or not hasattr(cc, "get_set"):
        return None, "no cacher captured"
    return cc, "captured"


def run_mp(case):
    """free-running real threads on ConcurrentCacher(MemoryCacher, RawArray, mp Lock); only outcomes are observed"""
    import time as realtime
    import ctypes
    import multiprocessing as mp
    import coba.context.cachers as M
    inner = M.MemoryCacher()
    cc = None
    wiring = None
    if case.get("wiring"):
        cc, wiring = wired_cacher(inner)
    if cc is None:
        ctx = mp.get_context("spawn")
        cc = M.ConcurrentCacher(inner, ctx.RawArray(ctypes.c_short, [0] * 2 ** 16), ctx.Lock())
    array = cc._array
    keys = case["keys"]
    progs = case["progs"]
    parts = int(case.get("parts", 2))
    mu = threading.Lock()
    stats = {"ok": {}, "removed_calls": {}, "bad": []}

    class Fast:
        def sleep(self, secs=0):
            realtime.sleep(0.0005)

        def __getattr__(self, name):
            return getattr(realtime, name)

    def body(tid):
        for ins in progs[tid]:
            ki = ins[1]
            try:
                if ins[0] == "rmv":
                    with mu:
                        stats["removed_calls"][ki] = stats["removed_calls"].get(ki, 0) + 1
                    cc.rmv(keys[ki])
                else:
                    v = ins[2]

                    def getter(ki=ki, v=v):
                        if v is None:
                            raise GetterError("g")
                        realtime.sleep(0.0003)
                        with mu:
                            stats["ok"][ki] = stats["ok"].get(ki, 0) + 1
                        return full_value(ki, v, parts)
                    with cc.get_set(keys[ki], getter) as val:
                        if not (isinstance(val, list) and len(val) == parts and val == full_value(ki, val[0][1], parts)):
                            with mu:
                                stats["bad"].append([tid, ki, repr(val)[:80]])
                        realtime.sleep(0.0002)
            except GetterError:
                pass
            except Exception as e:
                with mu:
                    stats["bad"].append([tid, ki, type(e).__name__])

    undo = patch_time(M, Fast())
    try:
        ths = [threading.Thread(target=body, args=(i,), daemon=True) for i in range(len(progs))]
        for t in ths:
            t.start()
        deadline = realtime.time() + 15
        for t in ths:
            t.join(timeout=max(0.01, deadline - realtime.time()))
        alive = [i for i, t in enumerate(ths) if t.is_alive()]
    finally:
        for name, val in undo:
            setattr(M, name, val)
    return {"wiring": wiring, "alive": alive, "nonzero": [[i, array[i]] for i in range(2 ** 16) if array[i] != 0] if not alive else [],
            "locks_nonzero": sorted(str(k[1]) for k, v in getattr(cc, "_locks", {}).items() if v != 0) if not alive else [],
            "getter_ok": stats["ok"], "rmv_calls": stats["removed_calls"], "bad": stats["bad"]}


# ------------------------------------------------------------------ many simultaneous read locks on one slot

class Refused(Exception):
    """a read lock that must be admitted was refused (the retry loop went to sleep)"""


def run_depth(case):
    """N simultaneous read locks on ONE slot of the lock table that coba/multiprocessing.py itself allocates
    (same construction path: CobaMultiprocessor.filter with its process pool replaced by a recorder), either by one
    caller nesting N re-entrant reads of the same key or by N real threads meeting at a barrier inside their with-blocks"""
    import time as realtime
    import ctypes
    import multiprocessing as mp
    from contextlib import ExitStack
    import coba.context.cachers as M
    n = int(case["n"])
    key = case.get("key", "openml_000150_arff")
    inner = M.MemoryCacher()
    cc, wiring = wired_cacher(inner)
    if cc is None:
        ctx = mp.get_context("spawn")
        cc = M.ConcurrentCacher(inner, ctx.RawArray(ctypes.c_short, [0] * 2 ** 16), ctx.Lock())
    try:
        index = int(cc._index(key))       # the slot the code under test uses for the key (compared with blake2b separately)
    except Exception:
        index = kidx(key)
    value = full_value(0, 1, 2)
    out = {"wiring": wiring, "n": n, "variant": case["variant"], "typecode": getattr(cc._array, "_type_", type(cc._array)).__name__,
           "admitted": 0, "deepest": None, "bad_values": 0, "refused_at": None, "still_waiting": 0, "error": None}
    sleeps = {"n": 0}

    class Probe:
        def __init__(self, single):
            self.single = single

        def sleep(self, secs=0):
            sleeps["n"] += 1
            if self.single:
                raise Refused()            # a single caller that is told to wait would wait forever
            realtime.sleep(0.001)

        def __getattr__(self, name):
            return getattr(realtime, name)

    undo = patch_time(M, Probe(case["variant"] == "nest"))
    try:
        if case["variant"] == "nest":
            try:
                with ExitStack() as stack:
                    for i in range(n):
                        try:
                            v = stack.enter_context(cc.get_set(key, lambda: list(value)))
                        except Refused:
                            out["refused_at"] = i + 1
                            break
                        out["admitted"] += 1
                        if v != value:
                            out["bad_values"] += 1
                    out["deepest"] = int(cc._array[index])
            except Exception as e:
                out["error"] = type(e).__name__
        else:
            with cc.get_set(key, lambda: list(value)):
                pass
            bar = threading.Barrier(n)
            mu = threading.Lock()

            def reader():
                try:
                    with cc.get_set(key, lambda: ["should", "not", "run"]) as v:
                        with mu:
                            out["admitted"] += 1
                            if v != value:
                                out["bad_values"] += 1
                        try:
                            if bar.wait(timeout=15) == 0:
                                out["deepest"] = int(cc._array[index])
                            bar.wait(timeout=15)          # nobody leaves before the slot has been read
                        except threading.BrokenBarrierError:
                            pass
                except Exception as e:
                    with mu:
                        out["error"] = type(e).__name__
            ths = [threading.Thread(target=reader, daemon=True) for _ in range(n)]
            for t in ths:
                t.start()
            deadline = realtime.time() + 40
            for t in ths:
                t.join(timeout=max(0.01, deadline - realtime.time()))
            out["still_waiting"] = sum(t.is_alive() for t in ths)
            if out["still_waiting"]:
                bar.abort()
    finally:
        for name, val in undo:
            setattr(M, name, val)
    out["sleeps"] = sleeps["n"]
    if not out["still_waiting"]:
        out["slot_after"] = int(cc._array[index])
        out["locks_nonzero"] = sorted(str(k[1]) for k, v in getattr(cc, "_locks", {}).items() if v != 0)
    return out


# ------------------------------------------------------------------ OpenmlSource and the shared download semaphore

class WouldWait(Exception):
    """acquire() on a semaphore without a free permit: in this single-threaded scenario the caller would wait forever"""


OPENML_ARFF = ["@relation weather", "@attribute pH real", "@attribute coli {2, 1}", "@attribute play {n, y}", "@data",
               "8.1,2,n", "8.2,2,n", "8.3,1,y"]


def openml_entries(data_id, bad=None, task_id=None):
    """the cache entries OpenmlSource needs for a tiny fake data set (what the REST API would have returned)"""
    import json
    data = {"data_set_description": {"id": str(data_id), "name": "testdata", "version": "2", "format": "ARFF", "licence": "CC0",
                                     "file_id": str(data_id), "visibility": "public",
                                     "status": "deactivated" if bad == "deactivated" else "active",
                                     "default_target_attribute": "play"}}
    feat = {"data_features": {"feature": [
        {"index": "0", "name": "pH", "data_type": "numeric", "is_ignore": "false", "is_row_identifier": "false"},
        {"index": "1", "name": "coli", "data_type": "nominal", "is_ignore": "false", "is_row_identifier": "false"},
        {"index": "2", "name": "play", "data_type": "nominal", "is_ignore": "false", "is_row_identifier": "false"}]}}
    key = "openml_%06d_" % data_id
    out = {key + "data": json.dumps(data).splitlines(),
           key + "feat": ["{not json"] if bad == "badfeat" else json.dumps(feat).splitlines(),
           key + "arff": list(OPENML_ARFF)}
    if task_id is not None:
        task = {"task": {"task_type_id": "1", "input": [{"name": "source_data", "data_set": {"data_set_id": str(data_id), "target_feature": "play"}}]}}
        out["openml_%06d_task" % task_id] = json.dumps(task).splitlines()
    return out


def openml_urls(entries):
    """url -> lines, for the fake HttpSource (the REST end points OpenmlSource asks for)"""
    urls = {}
    for k, v in entries.items():
        n = int(k.split("_")[1])
        kind = k.split("_")[2]
        url = {"data": "https://openml.org/api/v1/json/data/%d" % n, "feat": "https://openml.org/api/v1/json/data/features/%d" % n,
               "arff": "https://openml.org/data/v1/download/%d" % n, "task": "https://openml.org/api/v1/json/task/%d" % n}[kind]
        urls[url] = v
    return urls


def patch_openml_network(urls, stats, delay=0.0):
    """replace HttpSource and time in coba.environments.openml (as the unit tests do) by fakes; returns the undo function"""
    import time as realtime
    import coba.environments.openml as OM

    class FakeHttp:
        def __init__(self, url, *a, **k):
            self.url = url.split("?")[0]

        def read(self):
            stats["requests"] = stats.get("requests", 0) + 1
            if delay:
                realtime.sleep(delay)
            if self.url not in urls:
                raise RuntimeError("no fake response for " + self.url)
            return iter(list(urls[self.url]))

    class FakeTime:
        def sleep(self, secs=0):
            stats["stagger"] = stats.get("stagger", 0) + 1
            if delay:
                realtime.sleep(0.001)

        def __getattr__(self, name):
            return getattr(realtime, name)
    saved = (getattr(OM, "HttpSource", None), getattr(OM, "time", None))
    OM.HttpSource, OM.time = FakeHttp, FakeTime()

    def undo():
        OM.HttpSource, OM.time = saved
    return undo


def run_openml(case):
    """OpenmlSource.read against an instrumented `openml_semaphore` and a cacher that already holds / receives during
    acquire() / serves on demand the entries of a fake data set; no network"""
    import coba.context.cachers as M
    from coba.context import CobaContext
    from coba.environments.openml import OpenmlSource
    permits0 = int(case.get("permits", 3))
    st = {"permits": permits0, "acquires": 0, "releases": 0, "hook": None}

    class Sem:
        def acquire(self, *a, **k):
            if st["permits"] <= 0:
                raise WouldWait()
            st["permits"] -= 1
            st["acquires"] += 1
            if st["hook"]:
                h, st["hook"] = st["hook"], None
                h()
            return True

        def release(self, *a, **k):
            st["permits"] += 1
            st["releases"] += 1

        def __enter__(self):
            self.acquire()
            return self

        def __exit__(self, *a):
            self.release()

    served = {}

    class Serving(M.MemoryCacher):
        """serves the entries of sources that are 'not cached' without calling the getter (stands in for the network)"""

        def get_set(self, key, getter):
            if key in served and key not in self._cache:
                from contextlib import nullcontext
                return nullcontext(list(served[key]))
            return super().get_set(key, getter)
    inner = Serving()
    cacher = M.ConcurrentCacher(inner) if case.get("concurrent") else inner
    saved = (CobaContext._cacher, CobaContext._store, CobaContext._logger) if hasattr(CobaContext, "_store") else None
    old_cacher, old_store, old_logger = CobaContext.cacher, CobaContext.store, CobaContext.logger
    out = {"reads": [], "permits0": permits0}
    try:
        from coba.context import NullLogger
        CobaContext.logger = NullLogger()
        CobaContext.cacher = cacher
        CobaContext.store = {"openml_semaphore": Sem()} if case.get("semaphore", True) else {}
        net = {}
        undo_net = patch_openml_network(net, out.setdefault("net", {}))
        for n, rd in enumerate(case["reads"]):
            data_id = 42693 + n
            task_id = 7000 + n if rd.get("task") else None
            entries = openml_entries(data_id, rd.get("bad"), task_id)

            def fill(entries=entries):
                for k, v in entries.items():
                    with cacher.get_set(k, list(v)):
                        pass
            if rd["order"] == "before":
                fill()
            elif rd["order"] == "during" and case.get("semaphore", True):
                st["hook"] = fill
            elif rd["order"] == "network":
                net.update(openml_urls(entries))       # nothing cached: every entry goes through _http_request and is cached by get_set
            else:
                served.update(entries)
            a0, r0 = st["acquires"], st["releases"]
            res = {"order": rd["order"], "mode": rd.get("mode", "full"), "bad": rd.get("bad")}
            try:
                q0, g0 = out["net"].get("requests", 0), out["net"].get("stagger", 0)
                gen = (OpenmlSource(task_id=task_id) if task_id is not None else OpenmlSource(data_id=data_id)).read()
                if rd.get("mode") == "partial":
                    it = iter(gen)
                    first = next(it)
                    it.close()
                    res["rows"] = 1
                else:
                    res["rows"] = len(list(gen))
                res["outcome"] = "ok"
            except WouldWait:
                res["outcome"] = "would-wait"
            except Exception as e:
                res["outcome"] = "raised:" + type(e).__name__
            st["hook"] = None
            res["acquires"], res["releases"] = st["acquires"] - a0, st["releases"] - r0
            res["requests"], res["stagger"] = out["net"].get("requests", 0) - q0, out["net"].get("stagger", 0) - g0
            res["permits_after"] = st["permits"]
            if case.get("concurrent"):
                res["array_nonzero"] = [[i, v] for i, v in enumerate(cacher._array) if v != 0][:4]
                res["locks_nonzero"] = sorted(str(k[1]) for k, v in getattr(cacher, "_locks", {}).items() if v != 0)
            out["reads"].append(res)
    finally:
        try:
            undo_net()
        except NameError:
            pass
        CobaContext.cacher, CobaContext.store, CobaContext.logger = old_cacher, old_store, old_logger
    return out


def run_openml_threads(case):
    """several readers of different uncached sources really waiting on a blocking semaphore (real threads, fake network)"""
    import time as realtime
    import coba.context.cachers as M
    from coba.context import CobaContext, NullLogger
    from coba.environments.openml import OpenmlSource
    permits0 = int(case.get("permits", 3))
    n = int(case["n"])
    mu = threading.Lock()
    st = {"holders": 0, "max_holders": 0, "acquires": 0, "releases": 0, "timeouts": 0}
    real = threading.Semaphore(permits0)

    class Sem:
        def acquire(self, *a, **k):
            ok = real.acquire(timeout=20)
            with mu:
                if ok:
                    st["acquires"] += 1
                    st["holders"] += 1
                    st["max_holders"] = max(st["max_holders"], st["holders"])
                else:
                    st["timeouts"] += 1
            if not ok:
                raise WouldWait()
            return True

        def release(self, *a, **k):
            with mu:
                st["releases"] += 1
                st["holders"] -= 1
            real.release()
    cacher = M.ConcurrentCacher(M.MemoryCacher())
    urls, net = {}, {}
    for i in range(n):
        urls.update(openml_urls(openml_entries(50000 + i, None, (8000 + i) if case.get("task") else None)))
    old_cacher, old_store, old_logger = CobaContext.cacher, CobaContext.store, CobaContext.logger
    results = [None] * n
    undo_net = patch_openml_network(urls, net, delay=0.003)
    undo_time = patch_time(M, type("T", (), {"sleep": staticmethod(lambda s=0: realtime.sleep(0.001)), "__getattr__": lambda self, nm: getattr(realtime, nm)})())
    try:
        CobaContext.logger = NullLogger()
        CobaContext.cacher = cacher
        CobaContext.store = {"openml_semaphore": Sem()}

        def reader(i):
            try:
                src = OpenmlSource(task_id=8000 + i) if case.get("task") else OpenmlSource(data_id=50000 + i)
                results[i] = len(list(src.read()))
            except WouldWait:
                results[i] = "would-wait"
            except Exception as e:
                results[i] = "raised:" + type(e).__name__
        ths = [threading.Thread(target=reader, args=(i,), daemon=True) for i in range(n)]
        for t in ths:
            t.start()
        deadline = realtime.time() + 40
        for t in ths:
            t.join(timeout=max(0.01, deadline - realtime.time()))
        alive = sum(t.is_alive() for t in ths)
    finally:
        undo_net()
        for name, val in undo_time:
            setattr(M, name, val)
        CobaContext.cacher, CobaContext.store, CobaContext.logger = old_cacher, old_store, old_logger
    free = 0
    while real.acquire(blocking=False):
        free += 1
    return {"results": results, "alive": alive, "free_permits": free, "permits0": permits0, "requests": net.get("requests", 0),
            "array_nonzero": [[i, v] for i, v in enumerate(cacher._array) if v != 0][:4] if not alive else [], **st}


def run_openml_sched(case):
    """2-4 OpenmlSource readers, each a sequence of reads, on one `openml_semaphore` under the baton scheduler (fake network).
    Yield points: before every acquire attempt, before every release, every http request, every staggering sleep, every
    retry sleep of the cacher.  Events: (tid, [acquire|wait|release, free permits afterwards])."""
    import time as realtime
    import coba.context.cachers as M
    import coba.environments.openml as OM
    from coba.context import CobaContext, NullLogger
    from coba.environments.openml import OpenmlSource
    permits0 = int(case.get("permits", 3))
    progs = [[dict(rd) for rd in p] for p in case["progs"]]
    n = len(progs)
    s = Sched(n, make_chooser(case), max_steps=int(case.get("max_steps", 4000)))
    st = {"free": permits0, "holders": set(), "max_holders": 0, "downloading": set(), "max_downloads": 0, "over": 0,
          "no_permit_download": 0, "foreign_release": 0}
    curread = [None] * n
    reqs = [0] * n
    results = [[] for _ in range(n)]
    inner = M.MemoryCacher()
    cacher = M.ConcurrentCacher(inner)
    urls = {}
    kbi_urls = set()

    class Sem:
        def acquire(self, *a, **k):
            tid = s.me()
            while True:
                s.yp()
                if st["free"] > 0:
                    st["free"] -= 1
                    st["holders"].add(tid)
                    st["max_holders"] = max(st["max_holders"], len(st["holders"]))
                    reqs[tid] = 0
                    rd = curread[tid]
                    if rd is not None and rd["order"] == "during":
                        for k_, v_ in rd["entries"].items():      # a peer cached everything while this reader waited
                            inner._cache.setdefault(k_, list(v_))
                    s.log(("acquire", st["free"]))
                    return True
                s.log(("wait", st["free"]))
                s.wait_until(lambda: st["free"] > 0)

        def release(self, *a, **k):
            tid = s.me()
            s.yp()
            st["free"] += 1
            if tid in st["holders"]:
                st["holders"].discard(tid)
            else:
                st["foreign_release"] += 1
            st["downloading"].discard(tid)
            if st["free"] > permits0:
                st["over"] += 1
            s.log(("release", st["free"]))

    class FakeHttp:
        def __init__(self, url, *a, **k):
            self.url = url.split("?")[0]

        def read(self):
            tid = s.me()
            reqs[tid] += 1
            if tid in st["holders"]:
                st["downloading"].add(tid)
                st["max_downloads"] = max(st["max_downloads"], len(st["downloading"]))
            else:
                st["no_permit_download"] += 1
            s.yp()
            if self.url in kbi_urls:
                raise KeyboardInterrupt()
            if self.url not in urls:
                raise RuntimeError("no fake response for " + self.url)
            return iter(list(urls[self.url]))

    class OMTime:
        def sleep(self, secs=0):
            s.yp()

        def __getattr__(self, name):
            return getattr(realtime, name)

    for t, prog in enumerate(progs):
        for j, rd in enumerate(prog):
            rd = dict(rd)
            data_id = 60000 + 100 * t + j
            rd["data_id"] = data_id
            rd["entries"] = openml_entries(data_id, "deactivated" if rd.get("end") == "deactivated" else None)
            prog[j] = rd
            if rd["order"] == "before":
                for k_, v_ in rd["entries"].items():
                    inner._cache[k_] = list(v_)
            else:
                u = openml_urls(rd["entries"])
                urls.update(u)
                if rd.get("end") == "interrupt":
                    kbi_urls.update(x for x in u if "/download/" in x)

    def body(tid):
        for rd in progs[tid]:
            curread[tid] = rd
            s.yp()
            try:
                gen = OpenmlSource(data_id=rd["data_id"]).read()
                if rd.get("end") == "abandon":
                    it = iter(gen)
                    next(it)
                    it.close()
                    results[tid].append("abandoned")
                else:
                    results[tid].append("rows:%d" % len(list(gen)))
            except KeyboardInterrupt:
                results[tid].append("KeyboardInterrupt")
            except Kill:
                raise
            except Exception as e:
                results[tid].append("raised:" + type(e).__name__)
            curread[tid] = None

    old_cacher, old_store, old_logger = CobaContext.cacher, CobaContext.store, CobaContext.logger
    saved = (getattr(OM, "HttpSource", None), getattr(OM, "time", None))
    undo = patch_time(M, FakeTime(s, realtime))
    try:
        CobaContext.logger = NullLogger()
        CobaContext.cacher = cacher
        CobaContext.store = {"openml_semaphore": Sem()}
        OM.HttpSource, OM.time = FakeHttp, OMTime()
        status = s.run([body] * n)
    finally:
        OM.HttpSource, OM.time = saved
        for name, val in undo:
            setattr(M, name, val)
        CobaContext.cacher, CobaContext.store, CobaContext.logger = old_cacher, old_store, old_logger
    return {"status": status, "events": [[t, list(e)] for t, e in s.events], "free": st["free"], "permits0": permits0,
            "max_holders": st["max_holders"], "max_downloads": st["max_downloads"], "over": st["over"],
            "no_permit_download": st["no_permit_download"], "foreign_release": st["foreign_release"], "holders_left": sorted(st["holders"]),
            "results": results, "live": list(getattr(s, "live_at_end", [])), "steps": s.steps,
            "array_nonzero": [[i, v] for i, v in enumerate(cacher._array) if v != 0][:4],
            "errors": [None if e is None else type(e).__name__ for e in s.errors]}


# ------------------------------------------------------------------ key -> slot must not depend on the interpreter

def run_index(case):
    """the slot ConcurrentCacher maps each key to, in this interpreter and in fresh interpreters started with other
    PYTHONHASHSEEDs (spawned workers share the lock array, so they must agree on the slot of a key)"""
    import json
    import subprocess
    import sys
    import coba.context.cachers as M
    keys = case["keys"]

    def mk(k):
        return tuple(k) if isinstance(k, list) else k
    cc = M.ConcurrentCacher(M.MemoryCacher())
    here = [int(cc._index(mk(k))) for k in keys]
    repo = os.environ.get("COBA_REPO", "/repo")
    code = ("import sys, json, warnings; warnings.filterwarnings('ignore'); sys.path.insert(0, %r)\n"
            "from coba.context.cachers import ConcurrentCacher, MemoryCacher\n"
            "cc = ConcurrentCacher(MemoryCacher())\n"
            "mk = lambda k: tuple(k) if isinstance(k, list) else k\n"
            "print(json.dumps([int(cc._index(mk(k))) for k in json.loads(sys.stdin.read())]))\n" % repo)
    others = []
    for seed in case.get("hashseeds", [1, 2]):
        env = dict(os.environ, PYTHONHASHSEED=str(seed))
        p = subprocess.run([sys.executable, "-W", "ignore", "-c", code], input=json.dumps(keys), capture_output=True, text=True, timeout=50, env=env)
        others.append({"hashseed": seed, "slots": json.loads(p.stdout) if p.returncode == 0 and p.stdout.strip() else None, "err": p.stderr[-200:] if p.returncode else ""})
    return {"here": here, "others": others, "expected": [kidx(mk(k)) for k in keys]}


# ------------------------------------------------------------------ glue: what workers get as CobaContext.cacher; sources copied to workers

def capture_worker_cacher(context_cacher):
    """what CobaMultiprocessor.filter hands to its workers as cacher for the given CobaContext.cacher (process pool replaced by a recorder)"""
    import coba.multiprocessing as CM
    from coba.context import CobaContext
    got = {}

    class FakePool:
        def __init__(self, filt, *a, **k):
            got["filter"] = filt

        def filter(self, items):
            return iter(())

    class Ident:
        def filter(self, item):
            yield item
    saved_pool, saved_cacher = CM.Multiprocessor, CobaContext._cacher
    try:
        CM.Multiprocessor = FakePool
        CobaContext.cacher = context_cacher
        list(CM.CobaMultiprocessor(Ident(), 2).filter([1]))
    finally:
        CM.Multiprocessor = saved_pool
        CobaContext._cacher = saved_cacher
    return getattr(got.get("filter"), "_cacher", None)


def run_glue_wrap(case):
    """for one kind of context cacher: is what the workers see a ConcurrentCacher around it, and do two workers that miss the
    same key at the same time run the getter once, one after the other?"""
    import time as realtime
    import coba.context.cachers as M
    kind = case["cacher"]
    d = tempfile.mkdtemp(prefix="c19glue") if "Disk" in kind else None
    shared = {}

    class SharedMem(M.MemoryCacher):
        """a user subclass whose storage really is shared between the workers"""
        def __init__(self):
            self._cache = shared

    class UserDisk(M.DiskCacher):
        pass

    class UserNull(M.NullCacher):
        pass
    ctx = {"MemoryCacher": lambda: M.MemoryCacher(), "SharedMem": lambda: SharedMem(), "DiskCacher": lambda: M.DiskCacher(d),
           "UserDisk": lambda: UserDisk(d), "NullCacher": lambda: M.NullCacher(), "UserNull": lambda: UserNull()}[kind]()
    outer = bool(case.get("outer"))
    if outer:
        ctx = M.ConcurrentCacher(ctx)      # the installed cacher is already process safe (nested multiprocessor / set by the user)
    out = {"kind": kind, "caching": "Null" not in kind, "outer": outer}
    undo = patch_time(M, type("T", (), {"sleep": staticmethod(lambda s=0: realtime.sleep(0.001)),
                                        "__getattr__": lambda self, nm: getattr(realtime, nm)})())
    try:
        try:
            w = capture_worker_cacher(ctx)
        except Exception as e:
            out["capture_error"] = type(e).__name__
            return out
        out["worker_type"] = type(w).__name__
        out["wrapped"] = isinstance(w, M.ConcurrentCacher) and getattr(w, "_cache", None) is ctx
        mu = threading.Lock()
        st = {"inside": 0, "max_inside": 0, "runs": 0}
        bar = threading.Barrier(2)
        res = [None, None]

        def getter():
            with mu:
                st["inside"] += 1
                st["runs"] += 1
                st["max_inside"] = max(st["max_inside"], st["inside"])
            realtime.sleep(0.03)
            with mu:
                st["inside"] -= 1
            return ["line1", "line2"]

        started = threading.Event()
        if outer:
            out["shares_table"] = (getattr(w, "_cache", None) is ctx) or (getattr(w, "_array", 0) is ctx._array and getattr(w, "_lock", 0) is ctx._lock)
            inner_getter = getter

            def getter():                    # noqa: the first getter announces that a holder of the OUTER cacher is mid-write
                started.set()
                return inner_getter()

        def worker(i):
            try:
                if outer:
                    # thread 0 = another user of the installed cacher, mid-write; thread 1 = a worker going through what it was given
                    if i == 1:
                        started.wait(timeout=5)
                    target = ctx if i == 0 else w
                else:
                    bar.wait(timeout=5)
                    target = w
                with target.get_set("entry", getter) as v:
                    res[i] = [x.strip() for x in v]
            except Exception as e:
                res[i] = "raised:" + type(e).__name__
        ths = [threading.Thread(target=worker, args=(i,), daemon=True) for i in range(2)]
        for t in ths:
            t.start()
        for t in ths:
            t.join(timeout=15)
        out.update(st)
        out["alive"] = sum(t.is_alive() for t in ths)
        out["values"] = res
        if isinstance(w, M.ConcurrentCacher) and not out["alive"]:
            out["array_nonzero"] = [[i, v] for i, v in enumerate(w._array) if v != 0][:4]
            if outer:
                out["array_nonzero"] += [[i, v] for i, v in enumerate(ctx._array) if v != 0][:4]
    finally:
        for name, val in undo:
            setattr(M, name, val)
        if d:
            shutil.rmtree(d, ignore_errors=True)
    return out


class CountingCacher:
    """a MemoryCacher-like cacher (picklable, module level) that counts every access made through it"""

    def __init__(self, name):
        self.name = name
        self.store = {}
        self.calls = {"in": 0, "get_set": 0, "rmv": 0}

    def __contains__(self, key):
        self.calls["in"] += 1
        return key in self.store

    def rmv(self, key):
        self.calls["rmv"] += 1
        self.store.pop(key, None)

    def get_set(self, key, getter):
        self.calls["get_set"] += 1
        if key not in self.store:
            v = getter() if callable(getter) else getter
            self.store[key] = list(v)
        return nullcontext(list(self.store[key]))


def run_glue_source(case):
    """an OpenmlSource that is used in the main process, then copied to a worker (pickle / deepcopy) where CobaContext.cacher is a
    different object (the ConcurrentCacher ProcessFilter installs): every cache access of the copy must go through the worker's cacher"""
    import copy
    import pickle
    import coba.context.cachers as M
    from coba.context import CobaContext, NullLogger
    from coba.environments.openml import OpenmlSource
    data_id = 42693
    main = CountingCacher("main")
    old_cacher, old_store, old_logger = CobaContext.cacher, CobaContext.store, CobaContext.logger
    out = {"copy": case["copy"], "first_read": bool(case.get("first_read", True)), "bad": case.get("bad")}
    try:
        CobaContext.logger = NullLogger()
        CobaContext.store = {}
        CobaContext.cacher = main
        for k, v in openml_entries(data_id).items():
            main.store[k] = list(v)
        src = OpenmlSource(data_id=data_id)
        if case.get("first_read", True):
            out["rows_main"] = len(list(src.read()))
        blob = pickle.dumps(src) if case["copy"] == "pickle" else None
        # ---- in the worker: ProcessFilter.filter sets CobaContext.cacher to the shared ConcurrentCacher
        winner = CountingCacher("worker")
        for k, v in openml_entries(data_id, case.get("bad")).items():
            winner.store[k] = list(v)
        worker = M.ConcurrentCacher(winner)
        CobaContext.cacher = worker
        cp = pickle.loads(blob) if blob is not None else copy.deepcopy(src)
        main_before = dict(main.calls)
        try:
            out["rows_worker"] = len(list(cp.read()))
            out["outcome"] = "ok"
        except Exception as e:
            out["outcome"] = "raised:" + type(e).__name__
        out["worker_calls"] = dict(winner.calls)
        out["main_calls_during_worker_read"] = {k: main.calls[k] - main_before[k] for k in main.calls}
        out["worker_keys_after"] = sorted(winner.store)
        out["array_nonzero"] = [[i, v] for i, v in enumerate(worker._array) if v != 0][:4]
        out["locks_nonzero"] = sorted(str(k[1]) for k, v in getattr(worker, "_locks", {}).items() if v != 0)
    finally:
        CobaContext.cacher, CobaContext.store, CobaContext.logger = old_cacher, old_store, old_logger
    return out


# ---------------------------------------------------------------------------------------------- phase 6: typed keys
def dec_key(j):
    """typed key of a `keyeq` case -> the Python object handed to the cacher"""
    t = j[0]
    if t == "int":
        return int(str(j[1]))             # a fresh object for big ints: equal keys of two callers are not the same object
    if t == "float":
        return float(repr(float(j[1])))
    if t == "bool":
        return bool(j[1])
    if t == "str":
        return (str(j[1]) + " ")[:-1]     # fresh str object (equal, not identical)
    if t == "none":
        return None
    if t == "tuple":
        return tuple(dec_key(x) for x in j[1])
    raise ValueError("bad typed key %r" % (j,))


def run_keyeq(case):
    """history on a real ConcurrentCacher(MemoryCacher()) with two keys k1, k2 of any hashable type:
    T0 get_set(k1) [getter 1 runs and is held] ; T1 get_set(k2) [getter 2] while T0 is inside its getter (blocked or not) ; T0 finishes ;
    T1 finishes ; rmv(k2) ; get_set(k1) [getter 3].  Deterministic (events, no sleeps decide anything)."""
    import time as realtime
    import coba.context.cachers as M
    k1, k2 = dec_key(case["k1"]), dec_key(case["k2"])
    cc = M.ConcurrentCacher(M.MemoryCacher())
    lk = threading.Lock()
    in_getter, release, t1_blocked, t1_done = threading.Event(), threading.Event(), threading.Event(), threading.Event()
    st = {"inside": 0, "max": 0}
    log, errs = [], []
    vals = {"t0": None, "t1": None, "again": None}
    t1_ident = [None]

    class Fake:
        @staticmethod
        def sleep(_s):
            if threading.current_thread().ident == t1_ident[0]:
                t1_blocked.set()
            realtime.sleep(0.002)

    def getter(v, hold):
        def g():
            with lk:
                st["inside"] += 1
                st["max"] = max(st["max"], st["inside"])
                log.append(["getter-start", v])
            if hold:
                in_getter.set()
                release.wait(40)
            with lk:
                st["inside"] -= 1
                log.append(["getter-end", v])
            return [v, "complete"]
        return g

    def t0():
        try:
            with cc.get_set(k1, getter(1, True)) as x:
                vals["t0"] = x
        except BaseException as e:  # noqa
            errs.append(["t0", type(e).__name__, str(e)[:80]])
        finally:
            in_getter.set()

    def t1():
        t1_ident[0] = threading.current_thread().ident
        try:
            with cc.get_set(k2, getter(2, False)) as x:
                vals["t1"] = x
        except BaseException as e:  # noqa
            errs.append(["t1", type(e).__name__, str(e)[:80]])
        finally:
            t1_done.set()

    undo = patch_time(M, Fake)
    hung = False
    try:
        a = threading.Thread(target=t0, daemon=True)
        b = threading.Thread(target=t1, daemon=True)
        a.start()
        in_getter.wait(25)
        b.start()
        end = realtime.time() + 25
        while not (t1_blocked.is_set() or t1_done.is_set()) and realtime.time() < end:
            realtime.sleep(0.001)
        blocked = t1_blocked.is_set() and not t1_done.is_set()
        t1_early = t1_done.is_set()
        release.set()
        a.join(20)
        b.join(20)
        hung = a.is_alive() or b.is_alive()
        if not hung:
            try:
                cc.rmv(k2)
                log.append(["rmv"])
                with cc.get_set(k1, getter(3, False)) as x:
                    vals["again"] = x
            except BaseException as e:  # noqa
                errs.append(["main", type(e).__name__, str(e)[:80]])
    finally:
        release.set()
        for name, val in undo:
            setattr(M, name, val)
    slots = [int(cc._index(k1)), int(cc._index(k2))]
    return {"blocked": blocked, "t1_finished_inside": t1_early, "max_inside": st["max"], "log": log, "vals": vals, "errs": errs, "hung": hung,
            "slots": slots, "arr_nonzero": [[i, int(v)] for i, v in enumerate(cc._array) if v != 0],
            "locks_nonzero": sorted([repr(k), int(v)] for k, v in cc._locks.items() if v != 0),
            "same_entry": k2 in {k1: 0}, "same_text": str(k1) == str(k2), "expected_slots": [kidx(k1), kidx(k2)]}
