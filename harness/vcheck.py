#!/venv/bin/python
"""CLI: vcheck.py Cxx [--tier quick|thorough] [--replay FILE]   (exit 0 held / 1 violation / 2 infrastructure)"""
import argparse
import importlib
import os
import sys
import warnings

HERE = os.path.dirname(os.path.abspath(__file__))
REPO = os.environ.get("COBA_REPO", "/repo")
sys.path.insert(0, HERE)
sys.path.insert(0, REPO)
os.environ["PYTHONPATH"] = REPO + os.pathsep + HERE + os.pathsep + os.environ.get("PYTHONPATH", "")
warnings.filterwarnings("ignore")
os.environ.setdefault("PYTHONWARNINGS", "ignore")


def main():
    ap = argparse.ArgumentParser()
    ap.add_argument("prop")
    ap.add_argument("--tier", default=os.environ.get("VERIF_TIER", "quick"), choices=["quick", "thorough"])
    ap.add_argument("--replay")
    ap.add_argument("--n", type=int)
    a = ap.parse_args()
    seed = int(os.environ.get("VERIF_SEED", "0") or 0)
    import coba
    where = os.path.realpath(os.path.dirname(coba.__file__))
    if not where.startswith(os.path.realpath(REPO)):
        print("INFRA: coba imported from %s, not from %s" % (where, REPO))
        return 2
    from core import engine
    modname = "props." + a.prop.lower()
    mod = importlib.import_module(modname)
    prop = mod.PROPERTY
    if a.n:
        prop.quick_n = prop.thorough_n = a.n
    os.chdir(os.path.dirname(HERE))
    if a.replay:
        return engine.replay(prop, modname, a.replay)
    return engine.Engine(prop, modname, a.tier, seed).main()


if __name__ == "__main__":
    try:
        rc = main()
    except SystemExit:
        raise
    except BaseException:
        # a crash of the harness itself is an infrastructure failure (exit 2), never a verdict about the property
        import traceback
        traceback.print_exc()
        print("INFRA: the harness crashed (see traceback above)")
        rc = 2
    sys.exit(rc)
