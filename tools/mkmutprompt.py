#!/usr/bin/env python3
import json, sys, subprocess, os
pid = sys.argv[1]; k = sys.argv[2] if len(sys.argv) > 2 else "3"; tag = sys.argv[3] if len(sys.argv) > 3 else "a"
props = {json.loads(l)['id']: json.loads(l) for l in open('/verif/properties.jsonl')}
p = props[pid]
wt = "/tmp/mut/%s%s/wt" % (pid.lower(), tag); out = "/tmp/mut/%s%s/out" % (pid.lower(), tag)
os.makedirs(out, exist_ok=True)
if not os.path.exists(wt):
    subprocess.run(["git", "-C", "/repo", "worktree", "add", "-q", "--detach", wt, "HEAD"], check=True)
t = open('/verif/tools/mutation_prompt_i.txt' if tag>='i' else '/verif/tools/mutation_prompt_h.txt' if tag>='h' else '/verif/tools/mutation_prompt_g.txt' if tag>='g' else '/verif/tools/mutation_prompt_e.txt' if (tag>='e' and pid!='C17') or tag>='f' else '/verif/tools/mutation_prompt_d.txt' if tag>='d' else '/verif/tools/mutation_prompt.txt').read()
t = (t.replace('{WT}', wt).replace('{OUT}', out).replace('{ID}', pid).replace('{TITLE}', p['title']).replace('{STATEMENT}', p['statement'])
     .replace('{QUANT}', p['quantifier']['text']).replace('{FILES}', ', '.join(p['anchors']['files'])).replace('{K}', k))
open("/tmp/mut/%s%s/prompt.txt" % (pid.lower(), tag), 'w').write(t)
print("/tmp/mut/%s%s/prompt.txt" % (pid.lower(), tag))
