#!/usr/bin/env python3
"""refregress.py [-j N]: re-run every kept behaviour-preserving rewrite (seeded/harmless/<id>/patch.diff) against the CURRENT checks;
expected: every check exits 0 (quiet). Writes seeded/harmless/regress.json."""
import json, os, subprocess, sys, glob, threading, collections
from concurrent.futures import ThreadPoolExecutor
J = int(sys.argv[sys.argv.index('-j') + 1]) if '-j' in sys.argv else 4
LOCKS = collections.defaultdict(threading.Lock)
ids = sorted(os.path.basename(d) for d in glob.glob('/verif/seeded/harmless/C*'))
by = collections.defaultdict(list)
for i in ids: by[i[:3]].append(i)
ids = [g[k] for k in range(max(map(len, by.values()))) for g in by.values() if k < len(g)]
def run(rid):
    d = '/verif/seeded/harmless/' + rid
    p = json.load(open(d + '/meta.json')).get('property') or rid[:3]
    with LOCKS[p]:
        r = subprocess.run(['python3', '/verif/tools/reftest.py', d, p], stdout=subprocess.PIPE, stderr=subprocess.STDOUT, text=True)
    try:
        j = json.loads(r.stdout[r.stdout.index('{'):])
    except Exception:
        j = {"error": r.stdout[-300:]}
    v = "no-apply" if j.get("apply_rc") else ("quiet" if j.get("check_rc") == 0 else "TRIPPED")
    print(rid, v, j.get("check_rc"), flush=True)
    return {"id": rid, "verdict": v, "check_rc": j.get("check_rc"), "lines": j.get("check_lines")}
with ThreadPoolExecutor(J) as ex:
    res = list(ex.map(run, ids))
json.dump(sorted(res, key=lambda r: r["id"]), open('/verif/seeded/harmless/regress.json', 'w'), indent=1)
print(collections.Counter(r["verdict"] for r in res)); print("TRIPPED:", [r["id"] for r in res if r["verdict"] == "TRIPPED"])
