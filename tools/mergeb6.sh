#!/bin/sh
# mergeb4.sh cxx [ids...] — bring a phase-6 builder's files from /var/tmp/b6/cxx/verif into /verif, rebuild, run the quick tier
# (seeds 0 and 1) for the listed property ids (default: the upper-cased name) and print one line each. No commit.
k=$1; shift; ids=${*:-$(echo $k | tr a-z A-Z)}
wt=/var/tmp/b6/$k/verif
cd $wt || exit 2
git add -A >/dev/null 2>&1
git diff --cached --name-status HEAD -- . ':!evidence' ':!replays' ':!lean/.lake' > /var/tmp/b6/$k/merge.list
cd /verif || exit 2
# builders own their files exclusively: copy them over (D = deleted there)
while read st f; do
  case "$st" in D) rm -f "/verif/$f";; *) mkdir -p "/verif/$(dirname "$f")"; cp -p "$wt/$f" "/verif/$f";; esac
done < /var/tmp/b6/$k/merge.list
wc -l < /var/tmp/b6/$k/merge.list
for id in $ids; do
  lc=$(echo $id | tr A-Z a-z)
  (cd lean && lake build CobaVerif.Props.$id drv_$lc 2>&1 | tail -2)
  for s in 0 1; do
    out=$(VERIF_SEED=$s /venv/bin/python harness/vcheck.py $id --tier quick 2>&1); rc=$?
    echo "$out" | grep -E "^(VIOLATION|INFRA)" | cut -c1-300
    echo "$out" | tail -1 | cut -c1-170 | sed "s/^/[rc=$rc] /"
  done
done
