#!/bin/sh
# run every claimed check (quick by default) and print one summary line each
T=${1:-quick}
cd "$(dirname "$0")/.."
for id in $(python3 -c "import json; print(' '.join(c['property_id'] for c in json.load(open('MANIFEST.json'))['checks']))"); do
  out=$(/venv/bin/python harness/vcheck.py $id --tier $T 2>&1); rc=$?
  echo "$out" | grep -E "^(VIOLATION|INFRA)" | cut -c1-200
  echo "$out" | tail -1 | cut -c1-200 | sed "s/^/[rc=$rc] /"
done
