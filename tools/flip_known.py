#!/usr/bin/env python3
"""flip_known.py Cxx <finding-id> <commit>  — move a finding from 'findings' to 'fixed' in known/Cxx.json"""
import json, sys
pid, fid, commit = sys.argv[1:4]
p = '/verif/known/%s.json' % pid
k = json.load(open(p))
keep = []
for f in k.get('findings', []):
    if f['id'] == fid:
        k.setdefault('fixed', []).append("fixed: property=%s %s %s" % (pid, commit, f['what_fails']))
        k.setdefault('fixed_cases', []).append({"id": fid, "commit": commit, "sig": f.get('sig'), "case": f.get('case'), "snippet": f.get('snippet')})
    else:
        keep.append(f)
k['findings'] = keep
json.dump(k, open(p, 'w'), indent=1)
print(pid, fid, "->fixed; open left:", [f['id'] for f in keep])
