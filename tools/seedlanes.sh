#!/bin/sh
# seedlanes.sh tag N — test every /tmp/mut/<cxx><tag>/out/m* against the committed checks, N lanes, each lane in its own copy of /verif
T=$1; N=${2:-4}
mkdir -p /var/tmp/lanes; : > /var/tmp/lanes/results.$T
ls -d /tmp/mut/c[0-9][0-9]$T/out/m[0-9] | sort > /var/tmp/lanes/all.$T
i=0
while [ $i -lt $N ]; do
  d=/var/tmp/lanes/L$i; [ -d $d/verif ] || { mkdir -p $d; git -C /verif worktree add -q --detach $d/verif HEAD; cp -a /verif/lean/.lake $d/verif/lean/.lake; }
  ( awk "NR % $N == $i" /var/tmp/lanes/all.$T | while read m; do
      P=$(echo $m | sed 's#/tmp/mut/c\([0-9][0-9]\).*#C\1#'); k=$(basename $m)
      VERIF_DIR=$d/verif python3 /verif/tools/seedtest.py $m $P --keep $P-$T$k | python3 -c "
import json,sys; r=json.load(sys.stdin); print('$P', '$k', 'apply', r.get('apply_rc'), 'demo', r.get('demo_clean_rc'), r.get('demo_mutated_rc'), 'check', r.get('check_rc'), '|', str(r.get('replay_failure'))[:200].replace('\n',' '))" >> /var/tmp/lanes/results.$T
    done ) &
  i=$((i+1))
done
wait
sort /var/tmp/lanes/results.$T
