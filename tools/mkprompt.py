#!/usr/bin/env python3
import json, sys
pid = sys.argv[1]; advice = open(sys.argv[2]).read() if len(sys.argv) > 2 else sys.stdin.read()
props = {json.loads(l)['id']: json.loads(l) for l in open('/verif/properties.jsonl')}
t = open('/verif/tools/agent_prompt.txt').read()
print(t.replace('{ID}', pid).replace('{id}', pid.lower()).replace('{TITLE}', props[pid]['title']).replace('{ADVICE}', advice))
