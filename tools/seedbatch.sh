#!/bin/sh
# seedbatch.sh Cxx tag  — run every mutation under /tmp/mut/<cxx><tag>/out/m* against the check, keep in seeded/
P=$1; T=${2:-a}; lc=$(echo $P | tr 'A-Z' 'a-z')
for d in /tmp/mut/$lc$T/out/m[0-9]; do
  [ -f $d/patch.diff ] || continue
  i=$(basename $d)
  python3 /verif/tools/seedtest.py $d $P --keep $P-$T$i | python3 -c "
import json,sys; r=json.load(sys.stdin); print('$P', '$i', 'apply', r.get('apply_rc'), 'demo', r.get('demo_clean_rc'), r.get('demo_mutated_rc'), 'check', r.get('check_rc'), '|', str(r.get('replay_failure'))[:150].replace('\n',' '))"
done
