#!/usr/bin/env python3
"""Regenerate MANIFEST.json from tools/manifest_src.json (claimed properties) + properties.jsonl."""
import json, os, sys
sys.path.insert(0, os.path.join(os.path.dirname(os.path.dirname(os.path.abspath(__file__))), 'harness'))
from core import lean as _lean
here = os.path.dirname(os.path.dirname(os.path.abspath(__file__)))
src = json.load(open(os.path.join(here, 'tools', 'manifest_src.json')))
props = [json.loads(l) for l in open(os.path.join(here, 'properties.jsonl'))]
checks, na = [], []
for p in props:
    pid = p['id']
    c = src['claimed'].get(pid)
    if c:
        checks.append({
            "property_id": pid,
            "quick_cmd": "/venv/bin/python harness/vcheck.py %s --tier quick" % pid,
            "thorough_cmd": "/venv/bin/python harness/vcheck.py %s --tier thorough" % pid,
            "evidence_file": "evidence/%s.json" % pid,
            "replay_cmd_template": "/venv/bin/python harness/vcheck.py %s --replay {path}" % pid,
            "engine": "lean4+correspondence",
            "level_claimed": {"category": "proof", "text": c['text'] + " [%d property theorems in lean/CobaVerif/Props/%s.lean at the time of writing, indexed in DESIGN §19; later extensions in notes/%s.md]" % (len(_lean.theorems_in('CobaVerif.Props.' + pid)), pid, pid), "design_ref": "§" + pid},
            "level_note": c['note'],
            "technique": c.get('technique', "Lean 4 theorems about a hand-written executable model + differential correspondence check of the model against /repo + direct property monitor"),
        })
    else:
        na.append({"property_id": pid, "reason": src['unclaimed'].get(pid, "check not built yet in this session; planned in DESIGN.md §" + pid)})
m = {
    "version": 1,
    "setup_cmd": "sh tools/setup.sh " + " ".join(sorted(src["claimed"])),
    "hooks": {"guard": "COBA_VERIF", "enable": "no hooks are needed: checks import coba from /repo's working tree and substitute module-level names from outside",
              "baseline_off_cmd": "cd /repo && /venv/bin/python -m pytest -ra -q -p no:cacheprovider --timeout=900 --continue-on-collection-errors",
              "source_commits": [], "add_only": True},
    "engines": [{"name": "lean4+correspondence", "path": "harness/vcheck.py", "serves_properties": sorted(src['claimed']),
                 "kind_free_text": "Lean 4 model+spec+theorems (lean/), line-protocol driver (lean/Driver/Main.lean), Python correspondence harness (harness/)"}],
    "checks": checks,
    "notes": src.get('notes', ''),
    "not_applicable": na,
}
json.dump(m, open(os.path.join(here, 'MANIFEST.json'), 'w'), indent=1)
print("claimed", len(checks), "unclaimed", len(na))
