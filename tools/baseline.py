#!/usr/bin/env python3
"""Run the pinned suite on /repo (guard off) and compare with /root/.vp/BASELINE.json stable_pass."""
import json, os, subprocess, sys, tempfile, xml.etree.ElementTree as ET
base = json.load(open('/root/.vp/BASELINE.json'))
out = tempfile.mktemp(suffix='.xml', dir='/var/tmp')
env = dict(os.environ); env.pop('COBA_VERIF', None)
cmd = "cd /repo && /venv/bin/python -m pytest -ra -q -p no:cacheprovider --timeout=900 --continue-on-collection-errors --junitxml=%s" % out
p = subprocess.run(cmd, shell=True, env=env, stdout=subprocess.PIPE, stderr=subprocess.STDOUT, text=True)
passed = set()
for tc in ET.parse(out).getroot().iter('testcase'):
    if not any(c.tag in ('failure', 'error', 'skipped') for c in tc):
        passed.add(tc.get('classname') + '::' + tc.get('name'))
os.remove(out)
want = set(base['stable_pass'])
missing = sorted(want - passed)
# retry the missing ones individually (timing-based tests are flaky when the machine is loaded)
still = []
for m in missing:
    cls, name = m.split('::')
    mod, klass = cls.rsplit('.', 1)
    r = subprocess.run("cd /repo && /venv/bin/python -m pytest -q -p no:cacheprovider '%s.py::%s::%s'" % (mod.replace('.', '/'), klass, name), shell=True, env=env, stdout=subprocess.PIPE, stderr=subprocess.STDOUT, text=True)
    if r.returncode != 0:
        still.append(m)
    else:
        print("  (passed on individual retry: %s)" % m)
missing = still
print(p.stdout[-600:])
print("stable_pass %d, passed now %d, missing %d" % (len(want), len(passed), len(missing)))
for m in missing[:30]: print("  MISSING", m)
sys.exit(1 if missing else 0)
