#!/bin/sh
# mkb6.sh cxx ID MIN — private worktree of /verif for a phase-6 builder (with the coordinator's build output) + its prompt
k=$1; ID=$2; MIN=${3:-55}
d=/var/tmp/b6/$k; mkdir -p $d
[ -d $d/verif ] || git -C /verif worktree add -q --detach $d/verif HEAD
[ -d $d/verif/lean/.lake ] || cp -a /verif/lean/.lake $d/verif/lean/.lake
python3 - "$k" "$ID" "$MIN" <<'PY'
import json,sys,os
k,ID,MIN=sys.argv[1:4]
props={json.loads(l)['id']:json.loads(l) for l in open('/verif/properties.jsonl')}
t=open('/verif/tools/phase6_prompt.txt').read()
extra=''
p='/verif/tools/phase6_goals/%s.txt'%ID
if os.path.exists(p): extra=' 3. Coordinator\'s remarks for this property:\n'+open(p).read()
t=(t.replace('{WT}','/var/tmp/b6/%s/verif'%k).replace('{ID}',ID).replace('{id}',ID.lower()).replace('{TITLE}',props[ID]['title'])
   .replace('{MIN}',MIN).replace('{EXTRA}',extra))
open('/var/tmp/b6/%s/prompt.txt'%k,'w').write(t)
print('/var/tmp/b6/%s/prompt.txt'%k)
PY
