#!/bin/sh
# which round-h mutation directories are complete (patch.diff + demo.py + meta.json)
for d in /tmp/mut/c*h; do n=0; for m in $d/out/m[0-9]; do [ -f $m/patch.diff ] && [ -f $m/demo.py ] && [ -f $m/meta.json ] && n=$((n+1)); done; printf "%s:%d " $(basename $d) $n; done; echo
