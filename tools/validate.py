#!/usr/bin/env python3
"""Validate MANIFEST.json and evidence/*.json against the schemas (run with python3-vt)."""
import json, glob, sys, jsonschema
ok = True
ms = json.load(open('/root/.vp/MANIFEST.schema.json')); es = json.load(open('/root/.vp/EVIDENCE.schema.json'))
try:
    jsonschema.validate(json.load(open('/verif/MANIFEST.json')), ms); print("MANIFEST ok")
except Exception as e:
    ok = False; print("MANIFEST INVALID", str(e)[:300])
for f in sorted(glob.glob('/verif/evidence/*.json')):
    try:
        ev = json.load(open(f)); jsonschema.validate(ev, es)
        c = ev['coverage']; print(f.split('/')[-1], "ok", ev['tier'], "obl", c.get('obligations'), "dis", c.get('discharged'), "eval", c.get('evaluations'), "nt", c.get('distinct_nontrivial'))
        if c.get('obligations') != c.get('discharged'): print("   WARNING discharged != obligations")
    except Exception as e:
        ok = False; print(f, "INVALID", str(e)[:300])
sys.exit(0 if ok else 1)
