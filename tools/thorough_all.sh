#!/bin/sh
# thorough_all.sh [lanes] — run every property's thorough tier on the unchanged /repo, `lanes` at a time; one line per property in thorough.summary
L=${1:-3}
[ -d lean/.lake ] || cp -a /verif/lean/.lake lean/.lake 2>/dev/null
mkdir -p tlogs
run1() { id=$1; s=$(date +%s); /venv/bin/python harness/vcheck.py $id --tier thorough > tlogs/$id.log 2>&1; rc=$?; e=$(date +%s)
  echo "$id rc=$rc secs=$((e-s)) $(grep -E '^(VIOLATION|INFRA|KNOWN)' tlogs/$id.log | cut -c1-200 | tr '\n' '|')" >> thorough.summary; }
i=0
for id in ${IDS:-C17 C05 C09 C12 C02 C07 C13 C10 C11 C20 C18 C15 C16 C06 C14 C04 C19 C08 C01 C03}; do
  run1 $id &
  i=$((i+1)); [ $((i % L)) -eq 0 ] && wait
done
wait
cat thorough.summary
