#!/usr/bin/env python3
"""seedregress.py [-j N] [ids...] : re-run every kept seeded change (seeded/<id>/patch.diff) against the CURRENT checks.

For each seeded/<id> the check of its own property is run on a scratch worktree carrying the patch; when the meta's
follow-up text says the change belongs to a sibling property ("caught by the Cxx check") those checks are run too.
Nothing in seeded/<id>/meta.json is overwritten; the outcome goes to seeded/regress.json and a summary is printed:
  caught      some check exits 1
  MISSED      every check exits 0 although the demo still fails with the patch
  neutral     the demo no longer fails with the patch on the current tree (the defect was repaired upstream)
  no-apply    the patch no longer applies to the current /repo
"""
import json, os, re, subprocess, sys, glob
from concurrent.futures import ThreadPoolExecutor
import threading, collections
LOCKS = collections.defaultdict(threading.Lock)   # one check of a property at a time (Generated/*.lean and the lake build are shared)
args = sys.argv[1:]
J = 4
if '-j' in args:
    J = int(args[args.index('-j') + 1]); del args[args.index('-j'):args.index('-j') + 2]
ids = args or sorted(os.path.basename(d) for d in glob.glob('/verif/seeded/C*'))
if True:
    by = collections.defaultdict(list)
    for i in ids: by[i[:3]].append(i)
    ids = [g[k] for k in range(max(map(len, by.values()))) for g in by.values() if k < len(g)]

def run(sid):
    d = '/verif/seeded/' + sid
    meta = json.load(open(d + '/meta.json'))
    own = meta.get('property') or sid[:3]
    props = [own] + [p for p in re.findall(r'C\d\d', meta.get('followup') or '') if p != own]
    out = {"id": sid, "props": {}}
    for p in dict.fromkeys(props):
        with LOCKS[p]:
            r = subprocess.run(['python3', '/verif/tools/seedtest.py', d, p], stdout=subprocess.PIPE, stderr=subprocess.STDOUT, text=True)
        try:
            j = json.loads(r.stdout[r.stdout.index('{'):])
        except Exception:
            out["props"][p] = {"error": r.stdout[-300:]}
            continue
        out["apply_rc"] = j.get("apply_rc"); out["demo_mutated_rc"] = j.get("demo_mutated_rc"); out["demo_clean_rc"] = j.get("demo_clean_rc")
        out["props"][p] = {"check_rc": j.get("check_rc"), "why": str(j.get("replay_failure"))[:200]}
        if j.get("apply_rc") or j.get("check_rc") == 1:
            break
    if out.get("apply_rc"):
        out["verdict"] = "no-apply"
    elif any(v.get("check_rc") == 1 for v in out["props"].values()):
        out["verdict"] = "caught"
    elif out.get("demo_mutated_rc") == 0:
        out["verdict"] = "neutral"
    else:
        out["verdict"] = "MISSED"
    print(sid, out["verdict"], {p: v.get("check_rc") for p, v in out["props"].items()}, flush=True)
    return out

with ThreadPoolExecutor(J) as ex:
    res = list(ex.map(run, ids))
prev = {}
if os.path.exists('/verif/seeded/regress.json') and args:
    prev = {r["id"]: r for r in json.load(open('/verif/seeded/regress.json'))}
for r in res:
    prev[r["id"]] = r
json.dump(sorted(prev.values(), key=lambda r: r["id"]), open('/verif/seeded/regress.json', 'w'), indent=1)
from collections import Counter
print(Counter(r["verdict"] for r in res))
print("MISSED:", [r["id"] for r in res if r["verdict"] == "MISSED"])
