#!/usr/bin/env python3
import json, sys, subprocess, os
pid = sys.argv[1]; k = sys.argv[2] if len(sys.argv) > 2 else "4"
props = {json.loads(l)['id']: json.loads(l) for l in open('/verif/properties.jsonl')}
p = props[pid]
base = "/tmp/ref/%s" % pid.lower(); wt = base + "/wt"; out = base + "/out"
os.makedirs(out, exist_ok=True)
if not os.path.exists(wt):
    subprocess.run(["git", "-C", "/repo", "worktree", "add", "-q", "--detach", wt, "HEAD"], check=True)
t = open('/verif/tools/refactor_prompt.txt').read()
t = (t.replace('{WT}', wt).replace('{OUT}', out).replace('{ID}', pid).replace('{TITLE}', p['title']).replace('{STATEMENT}', p['statement'])
     .replace('{QUANT}', p['quantifier']['text']).replace('{FILES}', ', '.join(p['anchors']['files'])).replace('{K}', k))
open(base + "/prompt.txt", 'w').write(t)
print(base + "/prompt.txt")
