#!/usr/bin/env python3
"""reseed.py <seeded id> <prop> <followup text> — re-run a kept seeded change against the CURRENT check of <prop>
and record the outcome (+ the follow-up note) in seeded/<id>/meta.json. Prints one line."""
import json, subprocess, sys
sid, prop, follow = sys.argv[1], sys.argv[2], sys.argv[3]
d = '/verif/seeded/' + sid
r = subprocess.run(['python3', '/verif/tools/seedtest.py', d, prop], stdout=subprocess.PIPE, stderr=subprocess.STDOUT, text=True)
res = json.loads(r.stdout[r.stdout.index('{'):])
meta = json.load(open(d + '/meta.json'))
own = meta.get('property') or sid[:3]
if res.get('check_rc') == 1:
    meta['check'] = {"cmd": "COBA_REPO=<worktree with patch> /venv/bin/python harness/vcheck.py %s --tier quick" % prop, "exit": 1,
                     "lines": res.get("check_lines"), "replay_failure": res.get("replay_failure")}
    meta['followup'] = follow
print(sid, prop, 'check', res.get('check_rc'), '|', str(res.get('replay_failure'))[:140].replace('\n', ' '))
json.dump(meta, open(d + '/meta.json', 'w'), indent=1)
