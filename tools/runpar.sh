#!/bin/sh
# runpar.sh LANES SEED ids... — quick tier of the listed checks on /repo, LANES at a time; one line each in /var/tmp/runpar.out
L=$1; S=$2; shift 2
cd "$(dirname "$0")/.."; : > /var/tmp/runpar.out
i=0
for id in "$@"; do
  ( s=$(date +%s); out=$(VERIF_SEED=$S /venv/bin/python harness/vcheck.py $id --tier quick 2>&1); rc=$?; e=$(date +%s)
    { echo "$out" | grep -E "^(VIOLATION|INFRA)" | cut -c1-300; echo "$out" | tail -1 | cut -c1-200 | sed "s/^/[rc=$rc $((e-s))s] /"; } >> /var/tmp/runpar.out ) &
  i=$((i+1)); [ $((i % L)) -eq 0 ] && wait
done
wait; sort /var/tmp/runpar.out
