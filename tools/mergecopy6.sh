#!/bin/sh
# mergecopy6.sh cxx... — copy each phase-6 builder's changed files (vs its worktree HEAD) into /verif; no build, no run
for k in "$@"; do
  wt=/var/tmp/b6/$k/verif
  (cd $wt && git add -A >/dev/null 2>&1 && git diff --cached --name-status HEAD -- . ':!evidence' ':!replays' ':!lean/.lake' > /var/tmp/b6/$k/merge.list)
  while read st f; do
    case "$st" in D) rm -f "/verif/$f";; *) mkdir -p "/verif/$(dirname "$f")"; cp -p "$wt/$f" "/verif/$f";; esac
  done < /var/tmp/b6/$k/merge.list
  echo "$k: $(wc -l < /var/tmp/b6/$k/merge.list) files"
done
