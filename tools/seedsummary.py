#!/usr/bin/env python3
"""Regenerate the 'seeded changes' table in DESIGN.md (between the markers) from seeded/*/meta.json."""
import json, os, glob, re
rows = []
for d in sorted(glob.glob('/verif/seeded/*')):
    mp = os.path.join(d, 'meta.json')
    if not os.path.exists(mp): continue
    m = json.load(open(mp))
    chk = m.get('check', {})
    rc = chk.get('exit')
    lines = ' '.join(chk.get('lines') or [])
    if rc == 1 and 'no-failing-input-found' in lines: how = 'caught: (A)/proof only, no-failing-input-found'
    elif rc == 1: how = 'caught: (B) replay — ' + str(chk.get('replay_failure') or '')[:110].replace('|', '/').replace('\n', ' ')
    elif rc == 0: how = '**missed**' + (' — ' + m['followup'] if m.get('followup') else '')
    else: how = 'exit %s' % rc
    if m.get('followup') and rc == 1: how += ' (' + m['followup'] + ')'
    rows.append("| %s | %s | %s | %s | %s |" % (os.path.basename(d), m.get('property'), (m.get('summary') or '')[:160].replace('|', '/').replace('\n', ' '),
                                          (m.get('needs') or '')[:140].replace('|', '/').replace('\n', ' '), how))
table = "| id | property | change | needs | result of the check |\n|---|---|---|---|---|\n" + "\n".join(rows) + "\n"
p = '/verif/DESIGN.md'
s = open(p).read()
a, b = '<!-- SEEDED-TABLE-BEGIN -->', '<!-- SEEDED-TABLE-END -->'
if a in s:
    s = s[:s.index(a) + len(a)] + "\n" + table + s[s.index(b):]
    open(p, 'w').write(s)
# behaviour-preserving rewrites
hrows = []
for d in sorted(glob.glob('/verif/seeded/harmless/*')):
    mp = os.path.join(d, 'meta.json')
    if not os.path.exists(mp): continue
    m = json.load(open(mp)); chk = m.get('check', {})
    res = 'quiet (exit 0)' if chk.get('exit') == 0 else ('tripped: ' + ' '.join(chk.get('lines') or [])[:120].replace('|', '/'))
    hrows.append("| %s | %s | %s | %s |" % (os.path.basename(d), m.get('property'), (m.get('summary') or '')[:200].replace('|', '/').replace('\n', ' '), res))
htable = "| id | property | rewrite | result of the check |\n|---|---|---|---|\n" + "\n".join(hrows) + "\n"
s = open(p).read()
a2, b2 = '<!-- HARMLESS-TABLE-BEGIN -->', '<!-- HARMLESS-TABLE-END -->'
if a2 in s:
    s = s[:s.index(a2) + len(a2)] + "\n" + htable + s[s.index(b2):]
    open(p, 'w').write(s)
print(len(rows), "rows;", len(hrows), "harmless")
