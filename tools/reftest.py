#!/usr/bin/env python3
"""reftest.py <rewrite dir with patch.diff> <prop> [--keep ID]: apply a behaviour-preserving rewrite in a scratch worktree and
run the check; expected exit 0 (a trip of (A) alone is a by-design 'no-failing-input-found', anything with a (B) replay is a false alarm)."""
import json, os, shutil, subprocess, sys, tempfile
mdir, prop = sys.argv[1], sys.argv[2]
keep = sys.argv[sys.argv.index('--keep') + 1] if '--keep' in sys.argv else None
wt = tempfile.mkdtemp(prefix='refwt_', dir='/var/tmp'); os.rmdir(wt)
def sh(cmd, **kw): return subprocess.run(cmd, shell=True, stdout=subprocess.PIPE, stderr=subprocess.STDOUT, text=True, **kw)
res = {"rewrite": mdir, "property": prop}
try:
    sh("git -C /repo worktree add -q --detach %s HEAD" % wt)
    pf = os.path.join(os.path.abspath(mdir), 'patch.diff')
    a = sh("git -C %s apply %s || git -C %s apply -3 %s" % (wt, pf, wt, pf)); res["apply_rc"] = a.returncode
    c = sh("cd /verif && /venv/bin/python harness/vcheck.py %s --tier quick" % prop, env=dict(os.environ, COBA_REPO=wt), timeout=3000)
    res["check_rc"] = c.returncode
    res["check_lines"] = [l[:300] for l in c.stdout.splitlines() if l.startswith(('VIOLATION', prop, '  '))][:6]
finally:
    sh("git -C /repo worktree remove --force %s" % wt); shutil.rmtree(wt, ignore_errors=True)
    sh("cd /verif && git checkout -- lean/CobaVerif/Generated 2>/dev/null")
print(json.dumps(res, indent=1))
if keep:
    d = os.path.join('/verif/seeded/harmless', keep); os.makedirs(d, exist_ok=True)
    shutil.copy(os.path.join(mdir, 'patch.diff'), d)
    meta = json.load(open(os.path.join(mdir, 'meta.json'))) if os.path.exists(os.path.join(mdir, 'meta.json')) else {}
    meta.update({"property": prop, "kind": "behaviour-preserving rewrite (expected: check stays at exit 0)", "check": {"exit": res.get("check_rc"), "lines": res.get("check_lines")}})
    json.dump(meta, open(os.path.join(d, 'meta.json'), 'w'), indent=1)
