#!/usr/bin/env python3
"""seedtest.py <mutation dir with patch.diff/demo.py> <prop> [--keep ID]
Apply the patch in a scratch worktree of /repo, confirm the demo (passes without / fails with), run the
relevant check against the worktree (COBA_REPO) and report; optionally copy into /verif/seeded/<ID>/."""
import json, os, shutil, subprocess, sys, tempfile
mdir, prop = sys.argv[1], sys.argv[2]
keep = sys.argv[sys.argv.index('--keep') + 1] if '--keep' in sys.argv else None
tier = sys.argv[sys.argv.index('--tier') + 1] if '--tier' in sys.argv else 'quick'
VD = os.environ.get('VERIF_DIR', '/verif')
wt = tempfile.mkdtemp(prefix='seedwt_', dir='/var/tmp')
os.rmdir(wt)
def sh(cmd, **kw):
    return subprocess.run(cmd, shell=True, stdout=subprocess.PIPE, stderr=subprocess.STDOUT, text=True, **kw)
res = {"mutation": mdir, "property": prop}
try:
    sh("git -C /repo worktree add -q --detach %s HEAD" % wt)
    env = dict(os.environ, PYTHONPATH=wt, PYTHONWARNINGS="ignore")
    demo = os.path.join(mdir, 'demo.py')
    r0 = sh("/venv/bin/python %s" % demo, env=env, timeout=600)
    res["demo_clean_rc"] = r0.returncode
    pf = os.path.join(os.path.abspath(mdir), 'patch.diff')
    a = sh("git -C %s apply %s || git -C %s apply -3 %s" % (wt, pf, wt, pf))
    res["apply_rc"] = a.returncode
    if a.returncode: res["apply_out"] = a.stdout[-300:]
    r1 = sh("/venv/bin/python %s" % demo, env=env, timeout=600)
    res["demo_mutated_rc"] = r1.returncode
    res["demo_mutated_tail"] = r1.stdout[-300:]
    env2 = dict(os.environ, COBA_REPO=wt)
    c = sh("cd %s && /venv/bin/python harness/vcheck.py %s --tier %s" % (VD, prop, tier), env=env2, timeout=3000)
    res["check_rc"] = c.returncode
    res["check_lines"] = [l for l in c.stdout.splitlines() if l.startswith(('VIOLATION', 'KNOWN', prop, '  '))][:8]
    for l in c.stdout.splitlines():
        if l.startswith('VIOLATION'):
            rp = l.split('replay=')[1].split()[0]
            try:
                rj = json.load(open(os.path.join(VD, rp)))
                res["replay_failure"] = (rj.get('failure') or {}).get('what', rj.get('no_longer_checks'))
            except Exception as e:
                res["replay_failure"] = str(e)
            break
finally:
    sh("git -C /repo worktree remove --force %s" % wt)
    shutil.rmtree(wt, ignore_errors=True)
    # restore generated files that depend on the repo under test
    sh("cd %s && git checkout -- lean/CobaVerif/Generated 2>/dev/null" % VD)
print(json.dumps(res, indent=1))
if keep:
    d = os.path.join('/verif/seeded', keep)
    os.makedirs(d, exist_ok=True)
    for f in ('patch.diff', 'demo.py'):
        shutil.copy(os.path.join(mdir, f), d)
    meta = json.load(open(os.path.join(mdir, 'meta.json'))) if os.path.exists(os.path.join(mdir, 'meta.json')) else {}
    meta.update({"property": prop, "confirmed": {"demo_passes_on_clean": res.get("demo_clean_rc") == 0, "demo_fails_with_patch": res.get("demo_mutated_rc") != 0},
                 "check": {"cmd": "COBA_REPO=<worktree with patch> /venv/bin/python harness/vcheck.py %s --tier %s" % (prop, tier), "exit": res.get("check_rc"), "lines": res.get("check_lines"), "replay_failure": res.get("replay_failure")}})
    json.dump(meta, open(os.path.join(d, 'meta.json'), 'w'), indent=1)
