#!/bin/sh
# Build the Lean side for every claimed property (offline; Lean + Mathlib are pre-installed).
# Each property's targets are built independently so that one broken proof does not hide the others;
# every check rebuilds its own targets again before it runs.
cd "$(dirname "$0")/../lean" || exit 2
fail=0
for id in "$@"; do
  lc=$(echo "$id" | tr 'A-Z' 'a-z')
  lake build "CobaVerif.Props.$id" "drv_$lc" || fail=1
done
exit $fail
