/-
Helper lemmas for C15 (SafeLearner prediction formats).  Property statements live in `Props/C15.lean`.
-/
import CobaVerif.Model.C15
import CobaVerif.Lemmas.C05
import Mathlib.Tactic.NormNum

namespace Coba.C15
open PyVal

/-! ### identity -/

theorem pyIs_refl (a : PyVal) : pyIs a a = true := by cases a <;> simp [pyIs]

theorem any_pyIs_action (as : List PyVal) (k : Nat) (h : k < as.length) :
    as.any (fun x => pyIs (as.getD k .none) x) = true := by
  rw [List.any_eq_true]
  refine ⟨as.getD k .none, ?_, pyIs_refl _⟩
  simp [List.getD_eq_getElem?_getD, List.getElem?_eq_getElem h]

/-- a top-level object built by a learner -/
def isLrn : PyVal → Bool
  | .flt (.lrn _) _ | .str (.lrn _) _ | .tuple (.lrn _) _ | .list (.lrn _) _ | .dict (.lrn _) _ _ => true
  | _ => false

theorem pyIs_lrn_seq (t : Bool) (xs : List PyVal) (a : PyVal) (h : isLrn a = false) : pyIs (mkSeq t xs) a = false := by
  cases t <;> cases a <;> simp_all [mkSeq, pyIs]
  all_goals (rename_i r _; cases r <;> simp_all [isLrn])

theorem any_pyIs_lrn_seq (t : Bool) (xs : List PyVal) (as : List PyVal) (h : ∀ a ∈ as, isLrn a = false) :
    as.any (fun a => pyIs (mkSeq t xs) a) = false := by
  rw [List.any_eq_false]; intro a ha; simp [pyIs_lrn_seq t xs a (h a ha)]

/-! ### sequences built by the learner -/

@[simp] theorem getIdx_mkSeq_zero (t : Bool) (x : PyVal) (xs : List PyVal) : getIdx (mkSeq t (x :: xs)) 0 = .ok x := by
  cases t <;> simp [mkSeq, getIdx]

@[simp] theorem getLast_mkSeq (t : Bool) (xs : List PyVal) (x : PyVal) : getLast (mkSeq t (xs ++ [x])) = .ok x := by
  cases t <;> simp [mkSeq, getLast]

@[simp] theorem len_mkSeq (t : Bool) (xs : List PyVal) : (mkSeq t xs).len = xs.length := by
  cases t <;> simp [mkSeq, PyVal.len]
@[simp] theorem hasLen_mkSeq (t : Bool) (xs : List PyVal) : (mkSeq t xs).hasLen = true := by
  cases t <;> simp [mkSeq, PyVal.hasLen]
@[simp] theorem isDict_mkSeq (t : Bool) (xs : List PyVal) : (mkSeq t xs).isDict = false := by
  cases t <;> simp [mkSeq, PyVal.isDict]
@[simp] theorem isStr_mkSeq (t : Bool) (xs : List PyVal) : (mkSeq t xs).isStr = false := by
  cases t <;> simp [mkSeq, PyVal.isStr]
@[simp] theorem items_mkSeq (t : Bool) (xs : List PyVal) : (mkSeq t xs).items = some xs := by
  cases t <;> simp [mkSeq, PyVal.items]
@[simp] theorem iter_mkSeq (t : Bool) (xs : List PyVal) : iter (mkSeq t xs) = .ok xs := by
  cases t <;> simp [mkSeq, iter]
@[simp] theorem lenE_mkSeq (t : Bool) (xs : List PyVal) : lenE (mkSeq t xs) = .ok xs.length := by
  simp [lenE]

/-- the slice `v[:-1]` of a learner-built sequence (a new object) -/
def seqTmp (t : Bool) (xs : List PyVal) : PyVal := if t then .tuple .tmp xs else .list .tmp xs

@[simp] theorem dropLast_mkSeq (t : Bool) (xs : List PyVal) (x : PyVal) :
    dropLast (mkSeq t (xs ++ [x])) = .ok (seqTmp t xs) := by
  cases t <;> simp [mkSeq, dropLast, seqTmp]

@[simp] theorem items_seqTmp (t : Bool) (xs : List PyVal) : (seqTmp t xs).items = some xs := by
  cases t <;> simp [seqTmp, PyVal.items]

/-! ### `pred_format` recognises each documented format -/

theorem predFormat_dA (fx : Fixes) (a : PyVal) (as : List PyVal) :
    predFormat fx (.dict (.lrn 0) ["action"] [a]) (some as) = .ok ⟨.AX, true⟩ := by
  simp [predFormat, PyVal.isDict, hasKey, pure, Except.pure]

theorem predFormat_dAP (fx : Fixes) (t : Bool) (a p : PyVal) (as : List PyVal) :
    predFormat fx (.dict (.lrn 0) ["action_prob"] [mkSeq t [a, p]]) (some as) = .ok ⟨.AP, true⟩ := by
  cases t <;> simp [predFormat, PyVal.isDict, hasKey, getKey, lookupKey, mkSeq, PyVal.hasLen, PyVal.len, bind, Except.bind, pure, Except.pure]

theorem predFormat_dPM (fx : Fixes) (t : Bool) (pmf : List PyVal) (as : List PyVal) (hK : as ≠ [])
    (hl : pmf.length = as.length) :
    predFormat fx (.dict (.lrn 0) ["pmf"] [mkSeq t pmf]) (some as) = .ok ⟨.PM, true⟩ := by
  cases t <;> cases as <;> simp_all [predFormat, PyVal.isDict, hasKey, getKey, lookupKey, mkSeq, PyVal.hasLen, PyVal.len, bind, Except.bind, pure, Except.pure]

/-- un-hinted (action, prob): a two-item sequence (built by the learner, or a slice of its answer) whose first item
is one of the offered objects -/
theorem predFormat_AP (fx : Fixes) (v : PyVal) (a p : PyVal) (as : List PyVal)
    (hv : v.items = some [a, p]) (ha : as.any (fun x => pyIs a x) = true) :
    predFormat fx v (some as) = .ok ⟨.AP, false⟩ := by
  have hne : as ≠ [] := by intro h; simp [h] at ha
  cases v <;> simp [PyVal.items] at hv
  all_goals subst hv
  all_goals cases as <;> simp_all [predFormat, PyVal.isDict, PyVal.hasLen, PyVal.isStr, PyVal.len, getIdx, bind, Except.bind, pure, Except.pure]

/-- a PMF over the actions: numeric, non-negative, summing to one -/
def validPmf (pmf : List PyVal) (as : List PyVal) : Bool :=
  pmf.length == as.length &&
  (match sumNums pmf with | some s => s == 1 | Option.none => false) &&
  pmf.all (fun x => match x.num with | some q => decide (0 ≤ q) | Option.none => false)

theorem validPmf_length {pmf as : List PyVal} (h : validPmf pmf as = true) : pmf.length = as.length := by
  simp only [validPmf, Bool.and_eq_true, beq_iff_eq] at h; exact h.1.1

theorem possiblePmf_valid (t : Bool) (pmf as : List PyVal) (h : validPmf pmf as = true) :
    possiblePmf (mkSeq t pmf) as = true := by
  simp only [validPmf, Bool.and_eq_true, beq_iff_eq] at h
  obtain ⟨⟨h1, h2⟩, h3⟩ := h
  cases hs : sumNums pmf with
  | none => simp [hs] at h2
  | some s =>
    simp [hs] at h2
    subst h2
    have h0 : ((1 : Rat) - 1 ≤ 1 / 1000) := by norm_num
    simp only [possiblePmf, items_mkSeq, h1, hs, h0, beq_self_eq_true, Bool.true_and, and_self, decide_true]
    exact h3

end Coba.C15
