/-
Helper lemmas for C15 (SafeLearner prediction formats).  Property statements live in `Props/C15.lean`.
-/
import CobaVerif.Model.C15
import CobaVerif.Lemmas.C05
import Mathlib.Tactic.NormNum
import Mathlib.Tactic.Linarith

namespace Coba.C15
open PyVal

/-! ### identity -/

theorem pyIs_refl (a : PyVal) : pyIs a a = true := by cases a <;> simp [pyIs]

theorem any_pyIs_action (as : List PyVal) (k : Nat) (h : k < as.length) :
    as.any (fun x => pyIs (as.getD k .none) x) = true := by
  rw [List.any_eq_true]
  refine ⟨as.getD k .none, ?_, pyIs_refl _⟩
  simp [List.getD_eq_getElem?_getD, List.getElem?_eq_getElem h]

/-- an object made while answering / parsing (tuple or list) is none of the offered objects -/
def freshSeq : PyVal → Bool
  | .tuple (.lrn _) _ | .list (.lrn _) _ | .tuple .tmp _ | .list .tmp _ => true
  | _ => false

theorem pyIs_freshSeq (v a : PyVal) (hv : freshSeq v = true) (h : isLrn a = false) : pyIs v a = false := by
  cases v <;> simp [freshSeq] at hv
  all_goals cases a <;> simp [pyIs]
  all_goals (rename_i r _ r' _; cases r <;> cases r' <;> simp_all [isLrn, freshSeq])

theorem any_pyIs_freshSeq (v : PyVal) (as : List PyVal) (hv : freshSeq v = true) (h : ∀ a ∈ as, isLrn a = false) :
    as.any (fun a => pyIs v a) = false := by
  rw [List.any_eq_false]; intro a ha; simp [pyIs_freshSeq v a hv (h a ha)]

@[simp] theorem freshSeq_mkSeq (t : Bool) (xs : List PyVal) : freshSeq (mkSeq t xs) = true := by
  cases t <;> simp [mkSeq, freshSeq]

theorem any_pyIs_lrn_seq (t : Bool) (xs : List PyVal) (as : List PyVal) (h : ∀ a ∈ as, isLrn a = false) :
    as.any (fun a => pyIs (mkSeq t xs) a) = false := any_pyIs_freshSeq _ as (by simp) h

/-! ### sequences built by the learner -/

@[simp] theorem getIdx_mkSeq_zero (t : Bool) (x : PyVal) (xs : List PyVal) : getIdx (mkSeq t (x :: xs)) 0 = .ok x := by
  cases t <;> simp [mkSeq, getIdx]

@[simp] theorem getLast_mkSeq (t : Bool) (xs : List PyVal) (x : PyVal) : getLast (mkSeq t (xs ++ [x])) = .ok x := by
  cases t <;> simp [mkSeq, getLast]

@[simp] theorem len_mkSeq (t : Bool) (xs : List PyVal) : (mkSeq t xs).len = xs.length := by
  cases t <;> simp [mkSeq, PyVal.len]
@[simp] theorem hasLen_mkSeq (t : Bool) (xs : List PyVal) : (mkSeq t xs).hasLen = true := by
  cases t <;> simp [mkSeq, PyVal.hasLen]
@[simp] theorem isDict_mkSeq (t : Bool) (xs : List PyVal) : (mkSeq t xs).isDict = false := by
  cases t <;> simp [mkSeq, PyVal.isDict]
@[simp] theorem isStr_mkSeq (t : Bool) (xs : List PyVal) : (mkSeq t xs).isStr = false := by
  cases t <;> simp [mkSeq, PyVal.isStr]
@[simp] theorem items_mkSeq (t : Bool) (xs : List PyVal) : (mkSeq t xs).items = some xs := by
  cases t <;> simp [mkSeq, PyVal.items]
@[simp] theorem iter_mkSeq (t : Bool) (xs : List PyVal) : iter (mkSeq t xs) = .ok xs := by
  cases t <;> simp [mkSeq, iter]
@[simp] theorem lenE_mkSeq (t : Bool) (xs : List PyVal) : lenE (mkSeq t xs) = .ok xs.length := by
  simp [lenE]

/-- the slice `v[:-1]` of a learner-built sequence (a new object) -/
def seqTmp (t : Bool) (xs : List PyVal) : PyVal := if t then .tuple .tmp xs else .list .tmp xs

@[simp] theorem dropLast_mkSeq (t : Bool) (xs : List PyVal) (x : PyVal) :
    dropLast (mkSeq t (xs ++ [x])) = .ok (seqTmp t xs) := by
  cases t <;> simp [mkSeq, dropLast, seqTmp]

@[simp] theorem items_seqTmp (t : Bool) (xs : List PyVal) : (seqTmp t xs).items = some xs := by
  cases t <;> simp [seqTmp, PyVal.items]

/-! ### `pred_format` recognises each documented format -/

theorem predFormat_dA (fx : Fixes) (a : PyVal) (as : List PyVal) :
    predFormat fx (.dict (.lrn 0) ["action"] [a]) (some as) = .ok ⟨.AX, true⟩ := by
  simp [predFormat, PyVal.isDict, hasKey, pure, Except.pure]

theorem predFormat_dAP (fx : Fixes) (t : Bool) (a p : PyVal) (as : List PyVal) :
    predFormat fx (.dict (.lrn 0) ["action_prob"] [mkSeq t [a, p]]) (some as) = .ok ⟨.AP, true⟩ := by
  cases t <;> simp [predFormat, PyVal.isDict, hasKey, getKey, lookupKey, mkSeq, PyVal.hasLen, PyVal.len, bind, Except.bind, pure, Except.pure]

theorem predFormat_dPM (fx : Fixes) (t : Bool) (pmf : List PyVal) (as : List PyVal) (hK : as ≠ [])
    (hl : pmf.length = as.length) :
    predFormat fx (.dict (.lrn 0) ["pmf"] [mkSeq t pmf]) (some as) = .ok ⟨.PM, true⟩ := by
  cases t <;> cases as <;> simp_all [predFormat, PyVal.isDict, hasKey, getKey, lookupKey, mkSeq, PyVal.hasLen, PyVal.len, bind, Except.bind, pure, Except.pure]

/-- un-hinted (action, prob): a two-item sequence (built by the learner, or a slice of its answer) whose first item
is one of the offered objects -/
theorem predFormat_AP (fx : Fixes) (v : PyVal) (a p : PyVal) (as : List PyVal)
    (hv : v.items = some [a, p]) (ha : as.any (fun x => pyIs a x) = true) :
    predFormat fx v (some as) = .ok ⟨.AP, false⟩ := by
  have hne : as ≠ [] := by intro h; simp [h] at ha
  cases v <;> simp [PyVal.items] at hv
  all_goals subst hv
  all_goals cases as <;> simp_all [predFormat, PyVal.isDict, PyVal.hasLen, PyVal.isStr, PyVal.len, getIdx, bind, Except.bind, pure, Except.pure]

theorem validPmf_length {pmf as : List PyVal} (h : validPmf pmf as = true) : pmf.length = as.length := by
  simp only [validPmf, Bool.and_eq_true, beq_iff_eq] at h; exact h.1.1

theorem possiblePmf_valid (t : Bool) (pmf as : List PyVal) (h : validPmf pmf as = true) :
    possiblePmf (mkSeq t pmf) as = true := by
  simp only [validPmf, Bool.and_eq_true, beq_iff_eq] at h
  obtain ⟨⟨h1, h2⟩, h3⟩ := h
  cases hs : sumNums pmf with
  | none => simp [hs] at h2
  | some s =>
    simp only [hs] at h2
    simp only [possiblePmf, items_mkSeq, h1, hs, h2, beq_self_eq_true, Bool.true_and]
    exact h3

/-- the sum of a valid PMF is positive -/
theorem validPmf_sum_pos {pmf as : List PyVal} {s : Rat} (h : validPmf pmf as = true) (hs : sumNums pmf = some s) : 0 < s := by
  simp only [validPmf, Bool.and_eq_true, hs, decide_eq_true_eq] at h
  have := h.1.2.2
  linarith

theorem predFormat_PM (fx : Fixes) (t : Bool) (pmf as : List PyVal)
    (hne : as ≠ []) (hlrn : ∀ a ∈ as, isLrn a = false) (hv : validPmf pmf as = true)
    (hfresh : ∀ x y, pmf = [x, y] → as.any (fun a => pyIs x a) = false)
    (hshort : fx.short = true ∨ 2 ≤ pmf.length) :
    predFormat fx (mkSeq t pmf) (some as) = .ok ⟨.PM, false⟩ := by
  have hp := possiblePmf_valid t pmf as hv
  have hid := any_pyIs_lrn_seq t pmf as hlrn
  have hlen : pmf.length = as.length := validPmf_length hv
  have hemp : as.isEmpty = false := by cases as <;> simp_all
  unfold predFormat
  simp only [isDict_mkSeq, hasLen_mkSeq, isStr_mkSeq, len_mkSeq, Option.getD_some, hemp]
  rcases pmf with _ | ⟨x, _ | ⟨y, _ | ⟨z, r⟩⟩⟩
  · cases as <;> simp_all
  · rcases hshort with hs | hs
    · simp [hs, hp, hid, bind, Except.bind, pure, Except.pure]
    · simp at hs
  · have := hfresh x y rfl
    cases fx.short <;> simp [this, hp, hid, bind, Except.bind, pure, Except.pure]
  · have h3 : ¬ (r.length + 1 + 1 + 1 < 2) := by omega
    have hid' : ¬ ∃ a ∈ as, pyIs (mkSeq t (x :: y :: z :: r)) a = true := by simpa using hid
    cases fx.short <;> simp [hp, hid', h3, bind, Except.bind, pure, Except.pure]



theorem predFormat_A (fx : Fixes) (a : PyVal) (as : List PyVal)
    (ha : as.any (fun x => pyIs a x) = true)
    (hhint : isHint a = false)
    (htwo : ∀ x y, a.items = some [x, y] → as.any (fun b => pyIs x b) = false)
    (hshort : fx.short = true ∨ longEnough a = true) :
    predFormat fx a (some as) = .ok ⟨.AX, false⟩ := by
  have hemp : as.isEmpty = false := by cases as <;> simp_all
  have ha' : ∃ x ∈ as, pyIs a x = true := by simpa using ha
  unfold predFormat
  cases a with
  | none | bool | int | flt =>
    simp [PyVal.isDict, PyVal.hasLen, hemp, ha', bind, Except.bind, pure, Except.pure]
  | str r s => simp [PyVal.isDict, PyVal.hasLen, PyVal.isStr, hemp, ha', bind, Except.bind, pure, Except.pure]
  | tuple r xs =>
    rcases xs with _ | ⟨x, _ | ⟨y, _ | ⟨z, r⟩⟩⟩
    · rcases hshort with hs | hs
      · simp [PyVal.isDict, PyVal.hasLen, PyVal.isStr, PyVal.len, hemp, ha', hs, bind, Except.bind, pure, Except.pure]
      · simp [longEnough] at hs
    · rcases hshort with hs | hs
      · simp [PyVal.isDict, PyVal.hasLen, PyVal.isStr, PyVal.len, hemp, ha', hs, bind, Except.bind, pure, Except.pure]
      · simp [longEnough] at hs
    · have h2 := htwo x y (by simp [PyVal.items])
      have h2' : ¬ ∃ b ∈ as, pyIs x b = true := by simpa using h2
      cases fx.short <;> simp [PyVal.isDict, PyVal.hasLen, PyVal.isStr, PyVal.len, getIdx, hemp, ha', h2, bind, Except.bind, pure, Except.pure]
    · have h3 : ¬ (r.length + 1 + 1 + 1 < 2) := by omega
      cases fx.short <;> simp [PyVal.isDict, PyVal.hasLen, PyVal.isStr, PyVal.len, hemp, ha', h3, bind, Except.bind, pure, Except.pure]
  | list r xs =>
    rcases xs with _ | ⟨x, _ | ⟨y, _ | ⟨z, r⟩⟩⟩
    · rcases hshort with hs | hs
      · simp [PyVal.isDict, PyVal.hasLen, PyVal.isStr, PyVal.len, hemp, ha', hs, bind, Except.bind, pure, Except.pure]
      · simp [longEnough] at hs
    · rcases hshort with hs | hs
      · simp [PyVal.isDict, PyVal.hasLen, PyVal.isStr, PyVal.len, hemp, ha', hs, bind, Except.bind, pure, Except.pure]
      · simp [longEnough] at hs
    · have h2 := htwo x y (by simp [PyVal.items])
      have h2' : ¬ ∃ b ∈ as, pyIs x b = true := by simpa using h2
      cases fx.short <;> simp [PyVal.isDict, PyVal.hasLen, PyVal.isStr, PyVal.len, getIdx, hemp, ha', h2, bind, Except.bind, pure, Except.pure]
    · have h3 : ¬ (r.length + 1 + 1 + 1 < 2) := by omega
      cases fx.short <;> simp [PyVal.isDict, PyVal.hasLen, PyVal.isStr, PyVal.len, hemp, ha', h3, bind, Except.bind, pure, Except.pure]
  | dict r ks vs =>
    simp only [isHint, Bool.or_eq_false_iff] at hhint
    obtain ⟨⟨h1, h2⟩, h3⟩ := hhint
    have h1 : "action" ∉ ks := by simpa using h1
    have h2 : "action_prob" ∉ ks := by simpa using h2
    have h3 : "pmf" ∉ ks := by simpa using h3
    rcases hshort with hs | hs
    · simp [PyVal.isDict, PyVal.hasLen, PyVal.isStr, PyVal.len, hasKey, h1, h2, h3, hemp, ha', hs, bind, Except.bind, pure, Except.pure]
    · simp [longEnough] at hs
      have h4 : ¬ (ks.length < 2) := by omega
      have h5 : ¬ (ks.length = 2) := by omega
      cases fx.short <;> simp [PyVal.isDict, PyVal.hasLen, PyVal.isStr, PyVal.len, hasKey, h1, h2, h3, hemp, ha', hs, h4, h5, bind, Except.bind, pure, Except.pure]




theorem isDict_of_num {x : PyVal} {q : Rat} (h : x.num = some q) : x.isDict = false := by
  cases x <;> simp_all [PyVal.num, PyVal.isDict]

@[simp] theorem lastIsDict_mkSeq_snoc (t : Bool) (xs : List PyVal) (x : PyVal) :
    lastIsDict (mkSeq t (xs ++ [x])) = x.isDict := by simp [lastIsDict]

theorem lastIsDict_pmf (t : Bool) (pmf as : List PyVal) (hv : validPmf pmf as = true) :
    lastIsDict (mkSeq t pmf) = false := by
  simp only [validPmf, Bool.and_eq_true] at hv
  have h3 := hv.2
  rcases List.eq_nil_or_concat pmf with rfl | ⟨xs, x, rfl⟩
  · cases t <;> simp [lastIsDict, mkSeq, getLast]
  · have : (match x.num with | some q => decide (0 ≤ q) | Option.none => false) = true := by
      have := List.all_eq_true.mp h3 x (by simp)
      exact this
    cases hx : x.num with
    | none => simp [hx] at this
    | some q => simp [isDict_of_num hx]

/-- the first row's answer tells whether kwargs follow -/
theorem lastIsDict_renderSingle (fx : Fixes) (sp : Spec) (ans : Answer) (as : List PyVal)
    (h : firstRowOK fx sp ans as = true) : lastIsDict (renderSingle sp ans as) = sp.kw := by
  obtain ⟨fmt, kw, lay, tup, ptup⟩ := sp
  simp only [firstRowOK, Bool.and_eq_true] at h
  obtain ⟨⟨hp, hl⟩, hf⟩ := h
  cases kw
  · cases fmt
    case A =>
      simp only [Bool.and_eq_true, Bool.false_or, Bool.not_eq_true'] at hf
      simpa [renderSingle, core, Answer.action] using hf.1.1.1
    case AP =>
      have : lastIsDict (mkSeq tup ([as.getD ans.pick .none] ++ [ans.p])) = false := by
        rw [lastIsDict_mkSeq_snoc]; simpa using hf
      simpa [renderSingle, core] using this
    case PM =>
      simp only [Bool.and_eq_true] at hf
      simpa [renderSingle, core, mkPmf] using lastIsDict_pmf ptup ans.pmf as hf.1.1
    all_goals simp [renderSingle, core, lastIsDict, getLast]
  · have : ∀ c : List PyVal, lastIsDict (mkSeq tup (c ++ [kwDict ans])) = true := by
      intro c; simp [kwDict, PyVal.isDict]
    cases fmt <;> exact this _



/-- what `first_row` extracts from one row's answer: the answer without its kwargs -/
def rowStd (sp : Spec) (ans : Answer) (as : List PyVal) : PyVal :=
  match core sp ans as with
  | [x] => x
  | c => if sp.kw then seqTmp sp.tup c else mkSeq sp.tup c

theorem firstRow_not_renderSingle (sp : Spec) (ans : Answer) (as : List PyVal) :
    firstRow (renderSingle sp ans as) .not sp.kw = .ok (rowStd sp ans as) := by
  obtain ⟨fmt, kw, lay, tup, ptup⟩ := sp
  cases kw
  · cases fmt <;> simp [firstRow, renderSingle, rowStd, core, pure, Except.pure, bind, Except.bind]
  · cases fmt <;> simp [firstRow, renderSingle, rowStd, core, pure, Except.pure, bind, Except.bind]
    -- AP: three items, the slice
    have := dropLast_mkSeq tup [as.getD ans.pick .none, ans.p] (kwDict ans)
    simpa using this

theorem predFormat_rowStd (fx : Fixes) (sp : Spec) (ans : Answer) (as : List PyVal)
    (h : firstRowOK fx sp ans as = true) :
    predFormat fx (rowStd sp ans as) (some as) = .ok sp.pfmt := by
  obtain ⟨fmt, kw, lay, tup, ptup⟩ := sp
  simp only [firstRowOK, Bool.and_eq_true, decide_eq_true_eq] at h
  obtain ⟨⟨hp, hl⟩, hf⟩ := h
  have hl' : ∀ a ∈ as, isLrn a = false := by
    intro a ha; have := List.all_eq_true.mp hl a ha; simpa using this
  have hne : as ≠ [] := by intro h0; simp [h0] at hp
  have hact := any_pyIs_action as ans.pick hp
  cases fmt
  case A =>
    simp only [Bool.and_eq_true, Bool.or_eq_true, Bool.not_eq_true'] at hf
    obtain ⟨⟨⟨_, hh⟩, h2⟩, hs⟩ := hf
    have := predFormat_A fx (ans.action as) as (by simpa [Answer.action] using hact) hh
      (by
        intro x y hxy
        simp only [hxy] at h2
        simpa using h2)
      (by simpa using hs)
    simpa [rowStd, core, Spec.pfmt, Fmt.kind, Fmt.hinted, Answer.action] using this
  case AP =>
    have : (rowStd ⟨.AP, kw, lay, tup, ptup⟩ ans as).items = some [as.getD ans.pick .none, ans.p] := by
      cases kw <;> simp [rowStd, core]
    simpa [Spec.pfmt, Fmt.kind, Fmt.hinted] using predFormat_AP fx _ _ _ as this hact
  case PM =>
    simp only [Bool.and_eq_true, Bool.or_eq_true, decide_eq_true_eq] at hf
    obtain ⟨⟨hv, h2⟩, hs⟩ := hf
    have := predFormat_PM fx ptup ans.pmf as hne hl' hv
      (by intro x y hxy; simp only [hxy] at h2; simpa using h2) hs
    simpa [rowStd, core, mkPmf, Spec.pfmt, Fmt.kind, Fmt.hinted] using this
  case dA => simpa [rowStd, core, Spec.pfmt, Fmt.kind, Fmt.hinted] using predFormat_dA fx _ as
  case dAP => simpa [rowStd, core, Spec.pfmt, Fmt.kind, Fmt.hinted] using predFormat_dAP fx tup _ _ as
  case dPM =>
    have hlen : ans.pmf.length = as.length := by simpa using hf
    simpa [rowStd, core, mkPmf, Spec.pfmt, Fmt.kind, Fmt.hinted] using predFormat_dPM fx ptup _ as hne hlen



theorem parseNot_renderSingle (sp : Spec) (ans : Answer) (as : List PyVal) (st : State) (hkw : st.hasKw = sp.kw) :
    parseNot st sp.pfmt as (renderSingle sp ans as) = wantSingle sp st.rng ans as := by
  obtain ⟨fmt, kw, lay, tup, ptup⟩ := sp
  simp only at hkw
  cases kw <;> cases fmt <;> cases tup <;>
      simp [parseNot, hkw, renderSingle, core, wantSingle, Spec.pfmt, Fmt.kind, Fmt.hinted, emptyKw, Answer.action, mkSeq, firstValue,
        getLast, getIdx, lenE, PyVal.hasLen, PyVal.len, pure, Except.pure, bind, Except.bind]
  all_goals (cases choicew st.rng as (mkPmf ptup ans.pmf) <;> rfl)




theorem inv_after {sp : Spec} {b : Bool} {st : State} (h : st = stAfter sp b st st.rng) :
    st.method = some (if b && sp.layout == .single then 2 else 1) ∧
    st.layout = some (if !b then .not else if sp.layout == .col then .col else .row) ∧
    st.hasKw = sp.kw ∧ st.fmt = some sp.pfmt := by
  refine ⟨?_, ?_, ?_, ?_⟩ <;> (rw [h]; simp [stAfter])

theorem format_roundtrip_single' (fx : Fixes) (sp : Spec) (pol : Policy) (st : State) (c : PyVal) (as : List PyVal)
    (hinv : Inv sp false st)
    (hfirst : st.layout = Option.none → firstRowOK fx sp (pol c as) as = true) :
    predictCore fx (scripted sp pol) st (.single c as) =
      (wantSingle sp st.rng (pol c as) as).map (fun x => (x.1, stAfter sp false st x.2)) := by
  rcases hinv with ⟨hm, hl⟩ | hst
  · -- first call
    have h := hfirst hl
    have hkw := lastIsDict_renderSingle fx sp (pol c as) as h
    have hfr := firstRow_not_renderSingle sp (pol c as) as
    have hpf := predFormat_rowStd fx sp (pol c as) as h
    have hk : hasKwargs (renderSingle sp (pol c as) as) .not = sp.kw := by
      simpa [hasKwargs, lastIsDict] using hkw
    simp only [predictCore, safeCall, hm, scripted, bind, Except.bind, pure, Except.pure, detect, hl, batchOrder, batchOrderPre]
    simp [hk, hfr, hpf, bind, Except.bind, pure, Except.pure, parse]
    rw [parseNot_renderSingle _ _ _ _ rfl]
    cases wantSingle sp st.rng (pol c as) as <;> simp [Except.map, stAfter]
  · obtain ⟨hm, hl, hk, hf⟩ := inv_after hst
    simp at hm hl
    simp only [predictCore, safeCall, hm, scripted, bind, Except.bind, pure, Except.pure, detect, hl, parse, hf]
    rw [parseNot_renderSingle _ _ _ _ (by simpa using hk)]
    cases wantSingle sp st.rng (pol c as) as <;> simp [Except.map, stAfter, hk]




theorem mapE_map_ok {α β γ} (f : β → Except Err γ) (g : α → β) (h : α → γ) (xs : List α)
    (hx : ∀ x ∈ xs, f (g x) = .ok (h x)) : mapE f (xs.map g) = .ok (xs.map h) := by
  induction xs with
  | nil => simp [mapE, pure, Except.pure]
  | cons x xs ih =>
    have h1 := hx x (by simp)
    have h2 := ih (fun y hy => hx y (by simp [hy]))
    simp [mapE, h1, h2, bind, Except.bind, pure, Except.pure]

theorem mapE_ok {α β} (f : α → Except Err β) (h : α → β) (xs : List α)
    (hx : ∀ x ∈ xs, f x = .ok (h x)) : mapE f xs = .ok (xs.map h) := by
  have := mapE_map_ok f id h xs (by simpa using hx)
  simpa using this

/-- `zip(*rows)` of rows that are pairs -/
theorem zipStar_pairs {α} (f g : α → PyVal) (xs : List α) (hne : xs ≠ []) :
    zipStar (xs.map (fun x => [f x, g x])) = [xs.map f, xs.map g] := by
  have heads_eq : ∀ (ys : List α) (f g : α → PyVal), heads (ys.map (fun x => [f x, g x])) = some (ys.map f) := by
    intro ys f g; induction ys with
    | nil => simp [heads]
    | cons y ys ih => simp [heads, ih]
  have tails_eq : ∀ (ys : List α), tails (ys.map (fun x => [f x, g x])) = ys.map (fun x => [g x]) := by
    intro ys; induction ys with
    | nil => simp [tails]
    | cons y ys ih => simp [tails, ih]
  have heads1 : ∀ (ys : List α), heads (ys.map (fun x => [g x])) = some (ys.map g) := by
    intro ys; induction ys with
    | nil => simp [heads]
    | cons y ys ih => simp [heads, ih]
  have tails1 : ∀ (ys : List α), tails (ys.map (fun x => [g x])) = ys.map (fun _ => []) := by
    intro ys; induction ys with
    | nil => simp [tails]
    | cons y ys ih => simp [tails, ih]
  cases xs with
  | nil => exact absurd rfl hne
  | cons x xs =>
    have h1 := heads_eq (x :: xs) f g
    have h2 := tails_eq (x :: xs)
    have h3 := heads1 (x :: xs)
    have h4 := tails1 (x :: xs)
    simp only [List.map_cons] at h1 h2 h3 h4
    simp [zipStar, zipStarAux, h1, h2, h3]




theorem lookupKey_isSome (k : String) (ks : List String) (vs : List PyVal) (hl : vs.length = ks.length) (hk : k ∈ ks) :
    ∃ v, lookupKey k ks vs = some v := by
  induction ks generalizing vs with
  | nil => simp at hk
  | cons k' ks ih =>
    cases vs with
    | nil => simp at hl
    | cons v vs =>
      by_cases h : k = k'
      · exact ⟨v, by simp [lookupKey, h]⟩
      · have hk' : k ∈ ks := by simpa [h] using hk
        obtain ⟨w, hw⟩ := ih vs (by simpa using hl) hk'
        exact ⟨w, by simp [lookupKey, h, hw]⟩

theorem getKey_kwDict (k : String) (ans : Answer) (hl : ans.kwVals.length = ans.kwKeys.length) (hk : k ∈ ans.kwKeys) :
    getKey k (kwDict ans) = .ok ((lookupKey k ans.kwKeys ans.kwVals).getD .none) := by
  obtain ⟨v, hv⟩ := lookupKey_isSome k ans.kwKeys ans.kwVals hl hk
  simp [getKey, kwDict, hv]

theorem kwColumns_kwDicts (R : List (Answer × List PyVal)) (a0 : Answer) (as0 : List PyVal) (R' : List (Answer × List PyVal))
    (hR : R = (a0, as0) :: R') (hs : sameKeys R = true) :
    kwColumns (R.map (fun r => kwDict r.1)) =
      .ok (.dict .tmp a0.kwKeys (a0.kwKeys.map (fun k => PyVal.list .tmp (R.map (fun r => (lookupKey k r.1.kwKeys r.1.kwVals).getD .none))))) := by
  subst hR
  simp only [sameKeys, List.all_eq_true, Bool.and_eq_true, beq_iff_eq, List.contains_iff_mem] at hs
  simp only [kwColumns, List.map_cons, kwDict, bind, Except.bind]
  have : mapE (fun k => do
        let col ← mapE (getKey k) (PyVal.dict (.lrn 0) a0.kwKeys a0.kwVals :: R'.map (fun r => PyVal.dict (.lrn 0) r.1.kwKeys r.1.kwVals))
        pure (PyVal.list .tmp col)) a0.kwKeys
      = .ok (a0.kwKeys.map (fun k => PyVal.list .tmp (((a0, as0) :: R').map (fun r => (lookupKey k r.1.kwKeys r.1.kwVals).getD .none)))) := by
    apply mapE_ok
    intro k hk
    have hcol : mapE (getKey k) (((a0, as0) :: R').map (fun r => kwDict r.1))
        = .ok (((a0, as0) :: R').map (fun r => (lookupKey k r.1.kwKeys r.1.kwVals).getD .none)) := by
      apply mapE_map_ok
      intro r hr
      have := hs r hr
      exact getKey_kwDict k r.1 this.1.1 (this.1.2 k hk)
    simp only [List.map_cons, kwDict] at hcol
    simp [hcol, bind, Except.bind, pure, Except.pure]
  simp only [bind, Except.bind, pure, Except.pure] at this ⊢
  rw [this]
  simp




theorem getLast_renderSingle_kw (sp : Spec) (ans : Answer) (as : List PyVal) (hk : sp.kw = true) :
    getLast (renderSingle sp ans as) = .ok (kwDict ans) := by
  obtain ⟨fmt, kw, lay, tup, ptup⟩ := sp
  simp only at hk; subst hk
  cases fmt <;> exact getLast_mkSeq tup _ _

theorem rowBody_renderSingle_kw (sp : Spec) (ans : Answer) (as : List PyVal) (hk : sp.kw = true) :
    rowBody (renderSingle sp ans as) = .ok (rowStd sp ans as) := by
  have := firstRow_not_renderSingle sp ans as
  simpa [firstRow, hk, rowBody, bind, Except.bind, pure, Except.pure] using this

theorem renderSingle_nokw (sp : Spec) (ans : Answer) (as : List PyVal) (hk : sp.kw = false) :
    renderSingle sp ans as = rowStd sp ans as := by
  obtain ⟨fmt, kw, lay, tup, ptup⟩ := sp
  simp only at hk; subst hk
  cases fmt <;> simp [renderSingle, rowStd, core]

theorem kwColumns_empty {α} (R : List α) (hne : R ≠ []) :
    kwColumns (R.map (fun _ => PyVal.dict .tmp [] [])) = .ok (.dict .tmp [] []) := by
  cases R with
  | nil => exact absurd rfl hne
  | cons r R => simp [kwColumns, mapE, pure, Except.pure, bind, Except.bind]




/-- the kwargs `_parse_pred` builds for a row-major batch -/
def kwRowVal (sp : Spec) (R : List (Answer × List PyVal)) : PyVal :=
  if sp.kw then
    match R with
    | [] => .dict .tmp [] []
    | (a0, _) :: _ => .dict .tmp a0.kwKeys (a0.kwKeys.map (fun k => PyVal.list .tmp (R.map (fun r => (lookupKey k r.1.kwKeys r.1.kwVals).getD .none))))
  else .dict .tmp [] []

theorem allItems_lists (cols : List (List PyVal)) (r : Ref) : allItems (cols.map (fun c => PyVal.list r c)) = some cols := by
  induction cols with
  | nil => simp [allItems]
  | cons c cs ih => simp [allItems, ih, PyVal.items]

theorem kwRowVal_view (sp : Spec) (R : List (Answer × List PyVal)) (a p : PyVal) (A P : List PyVal)
    (ha : a.items = some A) (hp : p.items = some P) :
    (Result.mk a p (kwRowVal sp R)).view = some ⟨A, P, (wantKw sp R).1, (wantKw sp R).2⟩ := by
  unfold kwRowVal wantKw
  cases hk : sp.kw
  · simp [Result.view, ha, hp, allItems]
  · cases R with
    | nil => simp [Result.view, ha, hp, allItems]
    | cons r R' =>
      obtain ⟨a0, as0⟩ := r
      have := allItems_lists (a0.kwKeys.map (fun k => ((a0, as0) :: R').map (fun r => (lookupKey k r.1.kwKeys r.1.kwVals).getD .none))) .tmp
      simp only [List.map_map] at this
      simp [Result.view, ha, hp]
      exact this

abbrev Rows := List (Answer × List PyVal)

def renders (sp : Spec) (R : Rows) : List PyVal := R.map (fun r => renderSingle sp r.1 r.2)

theorem kws_kw (sp : Spec) (R : Rows) (hne : R ≠ []) (hk : sp.kw = true) (hs : sameKeys R = true) :
    (mapE (fun p => getLast p) (renders sp R)).bind kwColumns = .ok (kwRowVal sp R) := by
  have h1 : mapE (fun p => getLast p) (renders sp R) = .ok (R.map (fun r => kwDict r.1)) :=
    mapE_map_ok _ _ _ R (fun r _ => getLast_renderSingle_kw sp r.1 r.2 hk)
  cases R with
  | nil => exact absurd rfl hne
  | cons r R' =>
    obtain ⟨a0, as0⟩ := r
    have h2 := kwColumns_kwDicts ((a0, as0) :: R') a0 as0 R' rfl hs
    rw [h1]
    simp only [Except.bind, h2, kwRowVal, hk, ↓reduceIte]

theorem kws_nokw (sp : Spec) (R : Rows) (hne : R ≠ []) (hk : sp.kw = false) :
    kwColumns ((renders sp R).map (fun _ => PyVal.dict .tmp [] [])) = .ok (kwRowVal sp R) := by
  have := kwColumns_empty R hne
  simpa [renders, kwRowVal, hk, Function.comp_def] using this

theorem body_kw (sp : Spec) (R : Rows) (hk : sp.kw = true) :
    mapE rowBody (renders sp R) = .ok (R.map (fun r => rowStd sp r.1 r.2)) :=
  mapE_map_ok _ _ _ R (fun r _ => rowBody_renderSingle_kw sp r.1 r.2 hk)

theorem body_nokw (sp : Spec) (R : Rows) (hk : sp.kw = false) :
    renders sp R = R.map (fun r => rowStd sp r.1 r.2) := by
  simp [renders, renderSingle_nokw sp _ _ hk]




theorem choicewRows_ne (s : Nat) (rows : List (List PyVal)) (ps : List PyVal) (s' : Nat) (A P : List PyVal)
    (h : choicewRows s rows ps = .ok (s', A, P)) (hr : rows ≠ []) (hp : ps ≠ []) : A.isEmpty = false := by
  cases rows with
  | nil => exact absurd rfl hr
  | cons r rows =>
    cases ps with
    | nil => exact absurd rfl hp
    | cons p ps =>
      simp only [choicewRows, bind, Except.bind] at h
      cases h1 : choicew s r p with
      | error e => simp [h1] at h
      | ok v =>
        obtain ⟨s1, a, w⟩ := v
        simp only [h1] at h
        cases h2 : choicewRows s1 rows ps with
        | error e => simp [h2] at h
        | ok v2 =>
          obtain ⟨s2, A2, P2⟩ := v2
          simp only [h2, pure, Except.pure, Except.ok.injEq, Prod.mk.injEq] at h
          obtain ⟨_, hA, _⟩ := h
          subst hA; rfl

theorem items_noneList (n : Nat) : (noneList n).items = some (List.replicate n .none) := by simp [noneList, PyVal.items]

theorem replicate_map_length {α} (R : List α) (f : α → PyVal) :
    List.replicate (R.map f).length PyVal.none = R.map (fun _ => PyVal.none) := by
  induction R with
  | nil => rfl
  | cons r R ih => simp [List.replicate_succ]

@[simp] theorem iter_seqTmp (t : Bool) (xs : List PyVal) : iter (seqTmp t xs) = .ok xs := by
  cases t <;> simp [seqTmp, iter]

/-- the value of one row once kwargs and hint are stripped: the action, the (action, prob) pair, the PMF -/
def inner (sp : Spec) (ans : Answer) (as : List PyVal) : PyVal :=
  match sp.fmt with
  | .A | .dA => ans.action as
  | .AP => rowStd sp ans as
  | .dAP => mkSeq sp.tup [ans.action as, ans.p]
  | .PM | .dPM => mkPmf sp.pmfTup ans.pmf

theorem iter_inner_AP (sp : Spec) (ans : Answer) (as : List PyVal) (h : sp.fmt.kind = .AP) :
    iter (inner sp ans as) = .ok [ans.action as, ans.p] := by
  obtain ⟨fmt, kw, lay, tup, ptup⟩ := sp
  cases fmt <;> simp [Fmt.kind] at h
  · cases kw <;> simp [inner, rowStd, core, Answer.action]
  · simp [inner]

theorem finishRows_spec (sp : Spec) (s : Nat) (R : Rows) (hne : R ≠ []) (bodyV : PyVal)
    (hb : bodyV.items = some (R.map (fun r => inner sp r.1 r.2))) :
    DeliversN (finishRows s sp.fmt.kind (R.map (·.2)) (R.map (fun r => inner sp r.1 r.2)) bodyV (kwRowVal sp R))
      (wantBatch sp s R) := by
  cases hk : sp.fmt.kind
  case AX =>
    have hin : ∀ r : Answer × List PyVal, inner sp r.1 r.2 = r.1.action r.2 := by
      intro r; obtain ⟨fmt, kw, lay, tup, ptup⟩ := sp; cases fmt <;> simp [Fmt.kind] at hk <;> simp [inner]
    simp only [finishRows, wantBatch, hk, DeliversN, pure, Except.pure]
    refine ⟨_, rfl, ?_⟩
    have := kwRowVal_view sp R bodyV (noneList (R.map (fun r => inner sp r.1 r.2)).length) _ _ hb (items_noneList _)
    rw [this, replicate_map_length]
    simp [hin]
  case AP =>
    have h1 : mapE itemsE (R.map (fun r => inner sp r.1 r.2)) = .ok (R.map (fun r => [r.1.action r.2, r.1.p])) :=
      mapE_map_ok _ _ _ R (fun r _ => by simpa [itemsE] using iter_inner_AP sp r.1 r.2 hk)
    have h2 := zipStar_pairs (fun r : Answer × List PyVal => r.1.action r.2) (fun r => r.1.p) R hne
    simp only [finishRows, wantBatch, hk, DeliversN, unzipPairs, h1, h2, bind, Except.bind, pure, Except.pure]
    refine ⟨_, rfl, ?_⟩
    exact kwRowVal_view sp R _ _ _ _ (by simp [PyVal.items]) (by simp [PyVal.items])
  case PM =>
    have hin : ∀ r : Answer × List PyVal, inner sp r.1 r.2 = mkPmf sp.pmfTup r.1.pmf := by
      intro r; obtain ⟨fmt, kw, lay, tup, ptup⟩ := sp; cases fmt <;> simp [Fmt.kind] at hk <;> simp [inner]
    simp only [finishRows, wantBatch, hk, hin, bind, Except.bind]
    cases hc : choicewRows s (R.map (·.2)) (R.map (fun r => mkPmf sp.pmfTup r.1.pmf)) with
    | error e => simp [DeliversN]
    | ok v =>
      obtain ⟨s', A, P⟩ := v
      have := choicewRows_ne _ _ _ _ _ _ hc (by simpa using hne) (by simpa using hne)
      simp only [this, Bool.false_eq_true, ↓reduceIte, DeliversN, pure, Except.pure]
      refine ⟨_, rfl, ?_⟩
      exact kwRowVal_view sp R _ _ _ _ (by simp [PyVal.items]) (by simp [PyVal.items])




theorem rowStd_eq_inner (sp : Spec) (ans : Answer) (as : List PyVal) (h : sp.fmt.hinted = false) :
    rowStd sp ans as = inner sp ans as := by
  obtain ⟨fmt, kw, lay, tup, ptup⟩ := sp
  cases fmt <;> simp [Fmt.hinted] at h <;> simp [rowStd, inner, core, Answer.action]

theorem firstValue_rowStd (sp : Spec) (ans : Answer) (as : List PyVal) (h : sp.fmt.hinted = true) :
    firstValue (rowStd sp ans as) = .ok (inner sp ans as) := by
  obtain ⟨fmt, kw, lay, tup, ptup⟩ := sp
  cases fmt <;> simp [Fmt.hinted] at h <;> simp [rowStd, inner, core, Answer.action, firstValue]

theorem parseRow_rows (sp : Spec) (st : State) (hkw : st.hasKw = sp.kw) (ref : Ref)
    (R : Rows) (hne : R ≠ []) (hs : sp.kw = true → sameKeys R = true) :
    DeliversN (parseRow st sp.pfmt (R.map (·.2)) (.list ref (renders sp R))) (wantBatch sp st.rng R) := by
  have key : ∀ (body : List PyVal) (bodyV : PyVal), body = R.map (fun r => rowStd sp r.1 r.2) → bodyV.items = some body →
      DeliversN
        (Except.bind (if sp.pfmt.star then (do let b ← mapE firstValue body; pure (b, PyVal.list .tmp b)) else (pure (body, bodyV) : Except Err (List PyVal × PyVal)))
          (fun (x : List PyVal × PyVal) => finishRows st.rng sp.pfmt.kind (R.map (·.2)) x.1 x.2 (kwRowVal sp R)))
        (wantBatch sp st.rng R) := by
    intro body bodyV hb hv
    subst hb
    cases hh : sp.fmt.hinted
    · have : R.map (fun r => rowStd sp r.1 r.2) = R.map (fun r => inner sp r.1 r.2) := by
        simp [rowStd_eq_inner sp _ _ hh]
      simp only [Spec.pfmt, hh, Bool.false_eq_true, ↓reduceIte, pure, Except.pure, Except.bind]
      rw [this] at hv ⊢
      exact finishRows_spec sp st.rng R hne bodyV hv
    · have h1 : mapE firstValue (R.map (fun r => rowStd sp r.1 r.2)) = .ok (R.map (fun r => inner sp r.1 r.2)) :=
        mapE_map_ok _ _ _ R (fun r _ => firstValue_rowStd sp r.1 r.2 hh)
      simp only [Spec.pfmt, hh, ↓reduceIte, h1, bind, Except.bind, pure, Except.pure]
      exact finishRows_spec sp st.rng R hne (.list .tmp _) (by simp [PyVal.items])
  cases hk : sp.kw
  · have h1 := kws_nokw sp R hne hk
    have h2 := body_nokw sp R hk
    have := key (renders sp R) (.list ref (renders sp R)) h2 (by simp [PyVal.items])
    unfold parseRow
    simp only [itemsE, iter, hkw, hk, Bool.false_eq_true, ↓reduceIte, bind, Except.bind, pure, Except.pure, h1] at this ⊢
    exact this
  · have h1 := kws_kw sp R hne hk (hs hk)
    have h2 := body_kw sp R hk
    have := key _ (.list .tmp (R.map (fun r => rowStd sp r.1 r.2))) rfl (by simp [PyVal.items])
    simp only [Except.bind] at h1
    cases h3 : mapE (fun p => getLast p) (renders sp R) with
    | error e => simp [h3] at h1
    | ok kws =>
      simp only [h3] at h1
      unfold parseRow
      simp only [itemsE, iter, hkw, hk, ↓reduceIte, bind, Except.bind, pure, Except.pure, h1, h2, h3] at this ⊢
      exact this




theorem keysEq_dicts (a b : PyVal) (ha : a.isDict = true) (hb : b.isDict = true) : keysEq a b = .ok (keysSame a b) := by
  cases a <;> simp [PyVal.isDict] at ha
  cases b <;> simp [PyVal.isDict] at hb
  simp [keysEq, keysSame]

@[simp] theorem isDict_dict (r : Ref) (ks : List String) (vs : List PyVal) : (PyVal.dict r ks vs).isDict = true := rfl

/-- is one row's answer a dict? only without kwargs: a hinted answer, or a bare action that is a sparse dict -/
theorem isDict_renderSingle (sp : Spec) (ans : Answer) (as : List PyVal) :
    (renderSingle sp ans as).isDict =
      (!sp.kw && (sp.fmt.hinted || (sp.fmt == .A && (ans.action as).isDict))) := by
  obtain ⟨fmt, kw, lay, tup, ptup⟩ := sp
  cases kw <;> cases fmt <;> simp [renderSingle, core, Fmt.hinted, mkPmf, Answer.action]

theorem keysSame_hinted (sp : Spec) (a b : Answer) (as bs : List PyVal) (hk : sp.kw = false) (hh : sp.fmt.hinted = true) :
    keysSame (renderSingle sp a as) (renderSingle sp b bs) = true := by
  obtain ⟨fmt, kw, lay, tup, ptup⟩ := sp
  simp only at hk; subst hk
  cases fmt <;> simp [Fmt.hinted] at hh <;> simp [renderSingle, core, keysSame]




theorem validOut_list (fx : Fixes) (ref : Ref) (xs : List PyVal) (x l : PyVal) (n : Nat)
    (hx : xs.head? = some x) (hl : xs.getLast? = some l) (hn : n = xs.length)
    (hd : xs.all PyVal.isDict = true → keysSame x l = true ∨ (fx.rowdict = true ∧ isHint x = false)) :
    validOut fx (.list ref xs) n = true := by
  cases xs with
  | nil => simp at hx
  | cons y ys =>
    simp only [List.head?_cons, Option.some.injEq] at hx
    subst hx
    simp only [validOut, hl]
    by_cases hall : (y :: ys).all PyVal.isDict = true
    · have hy : y.isDict = true := by
        have := List.all_eq_true.mp hall y (by simp); exact this
      have hld : l.isDict = true := by
        have hm : l ∈ (y :: ys) := List.mem_of_getLast? hl
        exact List.all_eq_true.mp hall l hm
      rw [if_pos hall, keysEq_dicts y l hy hld]
      rcases hd hall with h | ⟨h1, h2⟩
      · simp [h, hn]
      · cases hks : keysSame y l <;> simp [h1, h2, hn]
    · rw [if_neg hall]; simp [hn]



theorem getIdx_list_zero (ref : Ref) (xs : List PyVal) (x : PyVal) (hx : xs.head? = some x) :
    getIdx (.list ref xs) 0 = .ok x := by
  cases xs <;> simp_all [getIdx]

theorem getLast_list (ref : Ref) (xs : List PyVal) (l : PyVal) (hl : xs.getLast? = some l) :
    getLast (.list ref xs) = .ok l := by
  simp [getLast, hl]

theorem lenE_of_hasLen (v : PyVal) (h : v.hasLen = true) : lenE v = .ok v.len := by simp [lenE, h]

theorem batchOrder_rows (fx : Fixes) (ref : Ref) (xs : List PyVal) (x l : PyVal) (cs : List PyVal) (rows : List (List PyVal))
    (probe : Except Err PyVal) (pp : PyVal)
    (hx : xs.head? = some x) (hl : xs.getLast? = some l) (hn : rows.length = xs.length)
    (hd : xs.all PyVal.isDict = true → keysSame x l = true ∨ (fx.rowdict = true ∧ isHint x = false))
    (hprobe : probe = .ok pp) (hpl : lenE pp = .ok 1) :
    batchOrder fx probe (.list ref xs) (.batch cs rows) 1 = .ok .row := by
  have h0 := getIdx_list_zero ref xs x hx
  have h1 := getLast_list ref xs l hl
  have hfin : ∀ o : Option BLayout, (o = some .row ∨ o = Option.none) →
      (match o with
        | some lay => (pure lay : Except Err BLayout)
        | Option.none => do let pp ← probe; let l ← lenE pp; pure (if l = 1 then .row else .col)) = .ok .row := by
    intro o ho
    rcases ho with rfl | rfl
    · rfl
    · simp [hprobe, hpl, bind, Except.bind, pure, Except.pure]
  unfold batchOrder
  simp only [bind, Except.bind]
  have hpre : batchOrderPre fx (.list ref xs) (.batch cs rows) 1 = .ok (some .row) ∨
      batchOrderPre fx (.list ref xs) (.batch cs rows) 1 = .ok Option.none := by
    unfold batchOrderPre
    have hpl' : lenE (PyVal.list ref xs) = .ok xs.length := by simp [lenE, PyVal.hasLen, PyVal.len]
    simp only [allDicts, iter, bind, Except.bind, pure, Except.pure, h0, h1,
      PyVal.isDict, Bool.false_or, hpl']
    by_cases hall : xs.all PyVal.isDict = true
    · have hxd : x.isDict = true := List.all_eq_true.mp hall x (List.mem_of_head? hx)
      have hld : l.isDict = true := List.all_eq_true.mp hall l (List.mem_of_getLast? hl)
      have hxl : x.hasLen = true := by cases x <;> simp_all [PyVal.isDict, PyVal.hasLen]
      simp only [hall, ↓reduceIte, keysEq_dicts x l hxd hld]
      rcases hd hall with h | ⟨h1', h2'⟩
      · simp [h]
      · cases hks : keysSame x l
        · simp only [lenE_of_hasLen x hxl]
          by_cases hq : xs.length = x.len <;> simp [h1', h2', hxl, hn, hq]
        · simp
    · have hall' : xs.all PyVal.isDict = false := by simpa using hall
      simp only [hall', Bool.false_eq_true, ↓reduceIte]
      cases hxl : x.hasLen
      · simp
      · simp only [lenE_of_hasLen x hxl]
        by_cases hq : xs.length = x.len <;> simp [hn, hq]
  rcases hpre with h | h
  · rw [h]; exact hfin _ (Or.inl rfl)
  · rw [h]; exact hfin _ (Or.inr rfl)




theorem zipWithAns_snd (pol : Policy) (cs : List PyVal) (rows : List (List PyVal)) (h : cs.length = rows.length) :
    (zipWithAns pol cs rows).map (·.2) = rows := by
  induction cs generalizing rows with
  | nil => cases rows <;> simp_all [zipWithAns]
  | cons c cs ih =>
    cases rows with
    | nil => simp at h
    | cons a as => simp [zipWithAns, ih as (by simpa using h)]

theorem zipWithAns_length (pol : Policy) (cs : List PyVal) (rows : List (List PyVal)) (h : cs.length = rows.length) :
    (zipWithAns pol cs rows).length = rows.length := by
  have := congrArg List.length (zipWithAns_snd pol cs rows h)
  simpa using this

theorem perRow_scripted (sp : Spec) (pol : Policy) (cs : List PyVal) (rows : List (List PyVal)) :
    perRow (scripted sp pol) cs rows = .ok (renders sp (zipWithAns pol cs rows)) := by
  induction cs generalizing rows with
  | nil => cases rows <;> simp [perRow, zipWithAns, renders, pure, Except.pure]
  | cons c cs ih =>
    cases rows with
    | nil => simp [perRow, zipWithAns, renders, pure, Except.pure]
    | cons a as =>
      have := ih as
      simp [perRow, zipWithAns, renders, scripted, bind, Except.bind, pure, Except.pure] at this ⊢
      simp [this]

theorem zipWithAns_head (pol : Policy) (c : PyVal) (cs : List PyVal) (a : List PyVal) (rows : List (List PyVal)) :
    zipWithAns pol (c :: cs) (a :: rows) = (pol c a, a) :: zipWithAns pol cs rows := rfl




/-- first-call detection on a row-major answer (given that `batch_order` says 'row') -/
theorem detect_rows (fx : Fixes) (L : Learner) (sp : Spec) (st1 : State) (cs : List PyVal) (as0 : List PyVal) (rows' : List (List PyVal))
    (a0 : Answer) (R' : Rows) (ref : Ref) (m : Nat)
    (hl : st1.layout = Option.none)
    (hf : firstRowOK fx sp a0 as0 = true)
    (hbo : batchOrder fx (do let a1 ← firstOf (.batch cs (as0 :: rows')); let r ← safeCall fx L (some m) a1; pure r.1)
        (.list ref (renders sp ((a0, as0) :: R'))) (.batch cs (as0 :: rows')) m = .ok .row) :
    detect fx L st1 (.batch cs (as0 :: rows')) (.list ref (renders sp ((a0, as0) :: R'))) m =
      .ok { st1 with layout := some .row, hasKw := sp.kw, fmt := some sp.pfmt } := by
  have hkw := lastIsDict_renderSingle fx sp a0 as0 hf
  have hfr := firstRow_not_renderSingle sp a0 as0
  have hpf := predFormat_rowStd fx sp a0 as0 hf
  have hk : hasKwargs (.list ref (renders sp ((a0, as0) :: R'))) .row = sp.kw := by
    simpa [hasKwargs, lastIsDict, renders, getIdx, bind, Except.bind] using hkw
  have hfr' : firstRow (.list ref (renders sp ((a0, as0) :: R'))) .row sp.kw = .ok (rowStd sp a0 as0) := by
    simpa [firstRow, renders, getIdx, bind, Except.bind, pure, Except.pure] using hfr
  unfold detect
  simp only [bind, Except.bind, pure, Except.pure] at hbo
  simp only [hl, bind, Except.bind, pure, Except.pure, hbo, hk, hfr', hpf]




/-- the dict-row side condition in the form `validOut` / `batch_order` need it -/
theorem dictRows_cond (fx : Fixes) (sp : Spec) (a0 : Answer) (as0 : List PyVal) (R' : Rows) (l : Answer × List PyVal)
    (hl : ((a0, as0) :: R').getLast? = some l)
    (hf : firstRowOK fx sp a0 as0 = true) (hd : dictRowsOK fx sp ((a0, as0) :: R') = true) :
    (renders sp ((a0, as0) :: R')).all PyVal.isDict = true →
      keysSame (renderSingle sp a0 as0) (renderSingle sp l.1 l.2) = true ∨
        (fx.rowdict = true ∧ isHint (renderSingle sp a0 as0) = false) := by
  intro hall
  have h0 : (renderSingle sp a0 as0).isDict = true := by
    have := List.all_eq_true.mp hall (renderSingle sp a0 as0) (by simp [renders])
    exact this
  have hlm : l ∈ ((a0, as0) :: R') := List.mem_of_getLast? hl
  have h1 : (renderSingle sp l.1 l.2).isDict = true := by
    have := List.all_eq_true.mp hall (renderSingle sp l.1 l.2) (by simp only [renders, List.mem_map]; exact ⟨l, hlm, rfl⟩)
    exact this
  rw [isDict_renderSingle] at h0 h1
  simp only [Bool.and_eq_true, Bool.not_eq_true', Bool.or_eq_true, beq_iff_eq] at h0 h1
  obtain ⟨hk, h0⟩ := h0
  rcases h0 with hh | ⟨hA, hd0⟩
  · exact Or.inl (keysSame_hinted sp a0 l.1 as0 l.2 hk hh)
  · have hd1 : (l.1.action l.2).isDict = true := by
      rcases h1.2 with hh | ⟨_, h⟩
      · rw [hA] at hh; simp [Fmt.hinted] at hh
      · exact h
    have hr0 : renderSingle sp a0 as0 = a0.action as0 := by
      obtain ⟨fmt, kw, lay, tup, ptup⟩ := sp
      simp only at hk hA; subst hk; subst hA
      simp [renderSingle, core, Answer.action]
    have hr1 : renderSingle sp l.1 l.2 = l.1.action l.2 := by
      obtain ⟨fmt, kw, lay, tup, ptup⟩ := sp
      simp only at hk hA; subst hk; subst hA
      simp [renderSingle, core, Answer.action]
    rw [hr0, hr1]
    simp only [dictRowsOK, hA, hk, Bool.or_eq_true, List.head?_cons, hl] at hd
    simp only [beq_self_eq_true, Bool.not_false, Bool.and_self, Bool.not_true, hd0, hd1] at hd
    simp only [Bool.false_eq_true, or_false, false_or] at hd
    rcases hd with hr | hks
    · right
      refine ⟨hr, ?_⟩
      simp only [firstRowOK, hA, Bool.and_eq_true] at hf
      have := hf.2.1.1.2
      simpa using this
    · exact Or.inl hks




/-- put the new rng state into the SafeLearner state -/
def liftSt (f : Nat → State) (x : Except Err (Result × Nat)) : Except Err (Result × State) :=
  match x with
  | .ok v => .ok (v.1, f v.2)
  | .error e => .error e

theorem deliversN_to_delivers (x : Except Err (Result × Nat)) (w : Except Err (BatchView × Nat)) (f : Nat → State)
    (h : DeliversN x w) : Delivers (liftSt f x) w f := by
  cases w with
  | error e =>
    simp only [DeliversN] at h
    subst h
    simp [Delivers, liftSt]
  | ok v =>
    obtain ⟨v, s'⟩ := v
    simp only [DeliversN] at h
    obtain ⟨r, hr, hv⟩ := h
    subst hr
    exact ⟨r, rfl, hv⟩

theorem predictCore_row (fx : Fixes) (sp : Spec) (pol : Policy) (st : State) (cs : List PyVal) (rows : List (List PyVal))
    (hlay : sp.layout = .row) (hinv : Inv sp true st)
    (hlen : cs.length = rows.length) (hne : rows ≠ [])
    (hs : sp.kw = true → sameKeys (zipWithAns pol cs rows) = true)
    (hfirst : st.layout = Option.none → ∀ r R', zipWithAns pol cs rows = r :: R' →
        firstRowOK fx sp r.1 r.2 = true ∧ dictRowsOK fx sp (r :: R') = true) :
    Delivers (predictCore fx (scripted sp pol) st (.batch cs rows)) (wantBatch sp st.rng (zipWithAns pol cs rows))
      (stAfter sp true st) := by
  -- the rows
  obtain ⟨c0, cs', rfl⟩ : ∃ c0 cs', cs = c0 :: cs' := by
    cases cs with
    | nil => cases rows <;> simp_all
    | cons c cs => exact ⟨c, cs, rfl⟩
  obtain ⟨as0, rows', rfl⟩ : ∃ a r, rows = a :: r := by
    cases rows with
    | nil => exact absurd rfl hne
    | cons a r => exact ⟨a, r, rfl⟩
  have hsnd := zipWithAns_snd pol (c0 :: cs') (as0 :: rows') hlen
  have hRlen := zipWithAns_length pol (c0 :: cs') (as0 :: rows') hlen
  set R := zipWithAns pol (c0 :: cs') (as0 :: rows') with hR
  have hRcons : R = (pol c0 as0, as0) :: zipWithAns pol cs' rows' := rfl
  have hRne : R ≠ [] := by rw [hRcons]; simp
  have hLbatch : scripted sp pol (.batch (c0 :: cs') (as0 :: rows')) = .ok (.list (.lrn 0) (renders sp R)) := by
    simp [scripted, hlay, renders, hR]
  have hparse : ∀ st2 : State, st2.hasKw = sp.kw → st2.rng = st.rng →
      DeliversN (parseRow st2 sp.pfmt (as0 :: rows') (.list (.lrn 0) (renders sp R))) (wantBatch sp st.rng R) := by
    intro st2 h1 h2
    have := parseRow_rows sp st2 h1 (.lrn 0) R hRne hs
    rw [hsnd, h2] at this
    exact this
  rcases hinv with ⟨hm, hl⟩ | hst
  · -- first call
    obtain ⟨hf, hd⟩ := hfirst hl _ _ hRcons
    obtain ⟨l, hlast⟩ : ∃ l, R.getLast? = some l := by
      cases h : R.getLast? with
      | none => simp [List.getLast?_eq_none_iff] at h; exact absurd h hRne
      | some l => exact ⟨l, rfl⟩
    have hcond := dictRows_cond fx sp (pol c0 as0) as0 _ l (by rw [← hRcons]; exact hlast) hf (by rw [← hRcons]; exact hd)
    rw [← hRcons] at hcond
    have hhead : (renders sp R).head? = some (renderSingle sp (pol c0 as0) as0) := by simp [renders, hRcons]
    have hlast' : (renders sp R).getLast? = some (renderSingle sp l.1 l.2) := by simp [renders, List.getLast?_map, hlast]
    have hlen' : (c0 :: cs').length = (renders sp R).length := by simp [renders, hRlen, hlen]
    have hvalid := validOut_list fx (.lrn 0) (renders sp R) _ _ (c0 :: cs').length hhead hlast' hlen' hcond
    have hbo := batchOrder_rows fx (.lrn 0) (renders sp R) _ _ (c0 :: cs') (as0 :: rows')
      (do let a1 ← firstOf (.batch (c0 :: cs') (as0 :: rows')); let r ← safeCall fx (scripted sp pol) (some 1) a1; pure r.1)
      (.list (.lrn 0) (renders sp (zipWithAns pol [c0] [as0]))) hhead hlast' (by simp [renders, hRlen]) hcond
      (by simp [firstOf, safeCall, scripted, hlay, renders, bind, Except.bind, pure, Except.pure])
      (by simp [lenE, PyVal.hasLen, PyVal.len, renders, zipWithAns])
    have hdet := detect_rows fx (scripted sp pol) sp { st with method := some 1 } (c0 :: cs') as0 rows' (pol c0 as0)
      (zipWithAns pol cs' rows') (.lrn 0) 1 hl hf (by rw [← hRcons]; exact hbo)
    rw [← hRcons] at hdet
    have hp := hparse { st with method := some 1, layout := some .row, hasKw := sp.kw, fmt := some sp.pfmt } rfl rfl
    have := deliversN_to_delivers _ _ (stAfter sp true st) hp
    simp only [predictCore, safeCall, hm, hLbatch, hvalid, ↓reduceIte, bind, Except.bind, pure, Except.pure, hdet, parse]
    have hst : ∀ s, stAfter sp true st s = { st with rng := s, method := some 1, layout := some BLayout.row, hasKw := sp.kw, fmt := some sp.pfmt } := by intro s; simp [stAfter, hlay]
    generalize parseRow _ sp.pfmt (as0 :: rows') (list (Ref.lrn 0) (renders sp R)) = x at this ⊢
    cases x with
    | error e => simpa [liftSt] using this
    | ok v => simpa [liftSt, hst] using this
  · obtain ⟨hm, hl, hk, hf⟩ := inv_after hst
    simp [hlay] at hm hl
    have hp := hparse st hk rfl
    have := deliversN_to_delivers _ _ (stAfter sp true st) hp
    simp only [predictCore, safeCall, hm, hLbatch, bind, Except.bind, pure, Except.pure, detect, hl, parse, hf]
    have hsteq : ({ st with method := some 1, layout := some BLayout.row, fmt := some sp.pfmt } : State) = st := by
      cases st; simp_all
    rw [hsteq]
    have hst' : ∀ s, stAfter sp true st s = { st with rng := s, method := some 1, layout := some BLayout.row, fmt := some sp.pfmt } := by intro s; simp [stAfter, hlay, hk]
    generalize parseRow _ sp.pfmt (as0 :: rows') (list (Ref.lrn 0) (renders sp R)) = x at this ⊢
    cases x with
    | error e => simpa [liftSt] using this
    | ok v => simpa [liftSt, hst'] using this




theorem batchOrder_m2 (fx : Fixes) (probe : Except Err PyVal) (pred : PyVal) (arg : Arg) :
    batchOrder fx probe pred arg 2 = .ok .row := by
  simp [batchOrder, batchOrderPre, bind, Except.bind, pure, Except.pure]

theorem predictCore_perrow (fx : Fixes) (sp : Spec) (pol : Policy) (st : State) (cs : List PyVal) (rows : List (List PyVal))
    (hlay : sp.layout = .single) (hinv : Inv sp true st)
    (hlen : cs.length = rows.length) (hne : rows ≠ [])
    (hs : sp.kw = true → sameKeys (zipWithAns pol cs rows) = true)
    (hfirst : st.layout = Option.none → ∀ r R', zipWithAns pol cs rows = r :: R' →
        firstRowOK fx sp r.1 r.2 = true ∧ dictRowsOK fx sp (r :: R') = true) :
    Delivers (predictCore fx (scripted sp pol) st (.batch cs rows)) (wantBatch sp st.rng (zipWithAns pol cs rows))
      (stAfter sp true st) := by
  obtain ⟨c0, cs', rfl⟩ : ∃ c0 cs', cs = c0 :: cs' := by
    cases cs with
    | nil => cases rows <;> simp_all
    | cons c cs => exact ⟨c, cs, rfl⟩
  obtain ⟨as0, rows', rfl⟩ : ∃ a r, rows = a :: r := by
    cases rows with
    | nil => exact absurd rfl hne
    | cons a r => exact ⟨a, r, rfl⟩
  have hsnd := zipWithAns_snd pol (c0 :: cs') (as0 :: rows') hlen
  have hRlen := zipWithAns_length pol (c0 :: cs') (as0 :: rows') hlen
  set R := zipWithAns pol (c0 :: cs') (as0 :: rows') with hR
  have hRcons : R = (pol c0 as0, as0) :: zipWithAns pol cs' rows' := rfl
  have hRne : R ≠ [] := by rw [hRcons]; simp
  have hLbatch : scripted sp pol (.batch (c0 :: cs') (as0 :: rows')) = .error .learner := by
    simp [scripted, hlay]
  have hper := perRow_scripted sp pol (c0 :: cs') (as0 :: rows')
  rw [← hR] at hper
  have hrne : (renders sp R).isEmpty = false := by rw [hRcons]; simp [renders]
  have hm2 : method2 (scripted sp pol) (c0 :: cs') (as0 :: rows') = .ok (.list .tmp (renders sp R)) := by
    simp [method2, hper, hrne, bind, Except.bind, pure, Except.pure]
  have hparse : ∀ st2 : State, st2.hasKw = sp.kw → st2.rng = st.rng →
      DeliversN (parseRow st2 sp.pfmt (as0 :: rows') (.list .tmp (renders sp R))) (wantBatch sp st.rng R) := by
    intro st2 h1 h2
    have := parseRow_rows sp st2 h1 .tmp R hRne hs
    rw [hsnd, h2] at this
    exact this
  have hstA : ∀ s, stAfter sp true st s = { st with rng := s, method := some 2, layout := some BLayout.row, hasKw := sp.kw, fmt := some sp.pfmt } := by
    intro s; simp [stAfter, hlay]
  rcases hinv with ⟨hm, hl⟩ | hst
  · obtain ⟨hf, hd⟩ := hfirst hl _ _ hRcons
    obtain ⟨l, hlast⟩ : ∃ l, R.getLast? = some l := by
      cases h : R.getLast? with
      | none => simp [List.getLast?_eq_none_iff] at h; exact absurd h hRne
      | some l => exact ⟨l, rfl⟩
    have hcond := dictRows_cond fx sp (pol c0 as0) as0 _ l (by rw [← hRcons]; exact hlast) hf (by rw [← hRcons]; exact hd)
    rw [← hRcons] at hcond
    have hhead : (renders sp R).head? = some (renderSingle sp (pol c0 as0) as0) := by simp [renders, hRcons]
    have hlast' : (renders sp R).getLast? = some (renderSingle sp l.1 l.2) := by simp [renders, List.getLast?_map, hlast]
    have hlen' : (c0 :: cs').length = (renders sp R).length := by simp [renders, hRlen, hlen]
    have hvalid := validOut_list fx .tmp (renders sp R) _ _ (c0 :: cs').length hhead hlast' hlen' hcond
    have hdet := detect_rows fx (scripted sp pol) sp { st with method := some 2 } (c0 :: cs') as0 rows' (pol c0 as0)
      (zipWithAns pol cs' rows') .tmp 2 hl hf (batchOrder_m2 _ _ _ _)
    rw [← hRcons] at hdet
    have hp := hparse { st with method := some 2, layout := some .row, hasKw := sp.kw, fmt := some sp.pfmt } rfl rfl
    have := deliversN_to_delivers _ _ (stAfter sp true st) hp
    simp only [predictCore, safeCall, hm, hLbatch, hm2, hvalid, ↓reduceIte, bind, Except.bind, pure, Except.pure, hdet, parse]
    generalize parseRow _ sp.pfmt (as0 :: rows') (list .tmp (renders sp R)) = x at this ⊢
    cases x with
    | error e => simpa [liftSt] using this
    | ok v => simpa [liftSt, hstA] using this
  · obtain ⟨hm, hl, hk, hf⟩ := inv_after hst
    rw [hlay] at hm hl
    replace hm : st.method = some 2 := by rw [hm]; rfl
    replace hl : st.layout = some BLayout.row := by rw [hl]; rfl
    clear hst
    have hp := hparse st hk rfl
    have := deliversN_to_delivers _ _ (stAfter sp true st) hp
    simp only [predictCore, safeCall, hm, hm2, bind, Except.bind, pure, Except.pure, detect, hl, parse, hf]
    have hsteq : ({ st with method := some 2, layout := some BLayout.row, fmt := some sp.pfmt } : State) = st := by
      cases st; simp_all
    rw [hsteq]
    have hst' : ∀ s, stAfter sp true st s = { st with rng := s, method := some 2, layout := some BLayout.row, fmt := some sp.pfmt } := by
      intro s; simp [stAfter, hlay, hk]
    generalize parseRow _ sp.pfmt (as0 :: rows') (list .tmp (renders sp R)) = x at this ⊢
    cases x with
    | error e => simpa [liftSt] using this
    | ok v => simpa [liftSt, hst'] using this




theorem seq_facts {v : PyVal} {xs : List PyVal} (h : v.items = some xs) :
    v.isDict = false ∧ v.hasLen = true ∧ v.isStr = false ∧ v.len = xs.length ∧ (∀ k, getIdx v k = (match xs[k]? with | some x => .ok x | Option.none => .error .index)) := by
  cases v <;> simp [PyVal.items] at h <;> subst h <;> simp [PyVal.isDict, PyVal.hasLen, PyVal.isStr, PyVal.len, getIdx] <;> intro k <;> rfl

theorem possiblePmf_items (v : PyVal) (pmf as : List PyVal) (hv : v.items = some pmf) (h : validPmf pmf as = true) :
    possiblePmf v as = true := by
  have := possiblePmf_valid true pmf as h
  simpa [possiblePmf, hv] using this

/-- un-hinted PMF, in any freshly built sequence (the learner's, or the row `first_row` assembles from columns) -/
theorem predFormat_PM_gen (fx : Fixes) (v : PyVal) (pmf as : List PyVal) (hi : v.items = some pmf) (hf : freshSeq v = true)
    (hne : as ≠ []) (hlrn : ∀ a ∈ as, isLrn a = false) (hv : validPmf pmf as = true)
    (hfresh : ∀ x y, pmf = [x, y] → as.any (fun a => pyIs x a) = false)
    (hshort : fx.short = true ∨ 2 ≤ pmf.length) :
    predFormat fx v (some as) = .ok ⟨.PM, false⟩ := by
  have hp := possiblePmf_items v pmf as hi hv
  have hid := any_pyIs_freshSeq v as hf hlrn
  have hid' : ¬ ∃ a ∈ as, pyIs v a = true := by simpa using hid
  have hlen : pmf.length = as.length := validPmf_length hv
  have hemp : as.isEmpty = false := by cases as <;> simp_all
  obtain ⟨f1, f2, f3, f4, f5⟩ := seq_facts hi
  unfold predFormat
  simp only [f1, f2, f3, f4, f5, Option.getD_some, hemp]
  rcases pmf with _ | ⟨x, _ | ⟨y, _ | ⟨z, r⟩⟩⟩
  · cases as <;> simp_all
  · rcases hshort with hs | hs
    · simp [hs, hp, hid', bind, Except.bind, pure, Except.pure]
    · simp at hs
  · have := hfresh x y rfl
    cases fx.short <;> simp [this, hp, hid', bind, Except.bind, pure, Except.pure]
  · have h3 : ¬ (r.length + 1 + 1 + 1 < 2) := by omega
    cases fx.short <;> simp [hp, hid', h3, bind, Except.bind, pure, Except.pure]

/-- the hinted forms, whoever built the dict -/
theorem predFormat_dA_gen (fx : Fixes) (r : Ref) (a : PyVal) (as : List PyVal) :
    predFormat fx (.dict r ["action"] [a]) (some as) = .ok ⟨.AX, true⟩ := by
  simp [predFormat, PyVal.isDict, hasKey, pure, Except.pure]

theorem predFormat_dAP_gen (fx : Fixes) (r : Ref) (v a p : PyVal) (as : List PyVal) (hv : v.items = some [a, p]) :
    predFormat fx (.dict r ["action_prob"] [v]) (some as) = .ok ⟨.AP, true⟩ := by
  obtain ⟨f1, f2, f3, f4, f5⟩ := seq_facts hv
  simp [predFormat, PyVal.isDict, hasKey, getKey, lookupKey, f2, f4, bind, Except.bind, pure, Except.pure]

theorem predFormat_dPM_gen (fx : Fixes) (r : Ref) (v : PyVal) (pmf : List PyVal) (as : List PyVal) (hv : v.items = some pmf)
    (hK : as ≠ []) (hl : pmf.length = as.length) :
    predFormat fx (.dict r ["pmf"] [v]) (some as) = .ok ⟨.PM, true⟩ := by
  obtain ⟨f1, f2, f3, f4, f5⟩ := seq_facts hv
  cases as <;> simp_all [predFormat, PyVal.isDict, hasKey, getKey, lookupKey, bind, Except.bind, pure, Except.pure]




/-- all rows have K entries -/
def Rect (K : Nat) (M : List (List PyVal)) : Prop := ∀ r ∈ M, r.length = K

theorem rect_step {K : Nat} {M : List (List PyVal)} (h : Rect (K + 1) M) :
    ∃ hs, heads M = some hs ∧ hs.length = M.length ∧ Rect K (tails M) ∧ (tails M).length = M.length := by
  induction M with
  | nil => exact ⟨[], rfl, rfl, by intro r hr; simp [tails] at hr, rfl⟩
  | cons r M ih =>
    have hr : r.length = K + 1 := h r (by simp)
    obtain ⟨hs, h1, h2, h3, h4⟩ := ih (fun r' hr' => h r' (by simp [hr']))
    cases r with
    | nil => simp at hr
    | cons x t =>
      refine ⟨x :: hs, by simp [heads, h1], by simp [h2], ?_, by simp [tails, h4]⟩
      intro r' hr'
      simp only [tails, List.mem_cons] at hr'
      rcases hr' with rfl | hr'
      · simpa using hr
      · exact h3 r' hr'

theorem zipStarAux_cons (K : Nat) : ∀ (r : List PyVal) (M : List (List PyVal)), r.length = K → M ≠ [] → Rect K M →
    zipStarAux K (r :: M) = List.zipWith (fun x c => x :: c) r (zipStarAux K M) := by
  induction K with
  | zero => intro r M hr _ _; cases r <;> simp_all [zipStarAux]
  | succ K ih =>
    intro r M hr hM hrect
    cases r with
    | nil => simp at hr
    | cons x r' =>
      obtain ⟨hs, h1, h2, h3, h4⟩ := rect_step hrect
      have hM' : tails M ≠ [] := by
        intro h0; rw [h0] at h4; exact hM (List.length_eq_zero_iff.mp h4.symm)
      have := ih r' (tails M) (by simpa using hr) hM' h3
      cases M with
      | nil => exact absurd rfl hM
      | cons m M0 =>
        simp only [zipStarAux, heads, tails, h1, Option.map_some, this, List.zipWith_cons_cons]



theorem zipStarAux_single (r : List PyVal) : zipStarAux r.length [r] = r.map (fun x => [x]) := by
  induction r with
  | nil => simp [zipStarAux]
  | cons x r ih => simp [zipStarAux, heads, tails, ih]

theorem zipStarAux_length (K : Nat) : ∀ (M : List (List PyVal)), M ≠ [] → Rect K M →
    (zipStarAux K M).length = K ∧ ∀ c ∈ zipStarAux K M, c.length = M.length := by
  induction K with
  | zero => intro M _ _; simp [zipStarAux]
  | succ K ih =>
    intro M hM hrect
    obtain ⟨hs, h1, h2, h3, h4⟩ := rect_step hrect
    have hM' : tails M ≠ [] := by
      intro h0; rw [h0] at h4; exact hM (List.length_eq_zero_iff.mp h4.symm)
    obtain ⟨i1, i2⟩ := ih (tails M) hM' h3
    cases M with
    | nil => exact absurd rfl hM
    | cons m M0 =>
      simp only [zipStarAux, h1]
      refine ⟨by simp [i1], ?_⟩
      intro c hc
      simp only [List.mem_cons] at hc
      rcases hc with rfl | hc
      · exact h2
      · rw [i2 c hc, h4]

theorem heads_zipWith_cons (r : List PyVal) (C : List (List PyVal)) (h : r.length = C.length) :
    heads (List.zipWith (fun x c => x :: c) r C) = some r ∧ tails (List.zipWith (fun x c => x :: c) r C) = C := by
  induction r generalizing C with
  | nil => cases C <;> simp_all [heads, tails]
  | cons x r ih =>
    cases C with
    | nil => simp at h
    | cons c C =>
      obtain ⟨i1, i2⟩ := ih C (by simpa using h)
      simp [heads, tails, i1, i2]

/-- transposing twice gives the table back (n ≥ 1 rows of K ≥ 1 entries) -/
theorem zipStar_zipStar (K : Nat) (hK : 0 < K) : ∀ (M : List (List PyVal)), M ≠ [] → Rect K M → zipStar (zipStar M) = M := by
  intro M
  induction M with
  | nil => intro h; exact absurd rfl h
  | cons r M ih =>
    intro _ hrect
    have hr : r.length = K := hrect r (by simp)
    have hrect' : Rect K M := fun r' hr' => hrect r' (by simp [hr'])
    by_cases hM : M = []
    · subst hM
      simp only [zipStar, zipStarAux_single]
      cases r with
      | nil => simp at hr; omega
      | cons x r' =>
        have h1 : heads ((x :: r').map (fun y => [y])) = some (x :: r') := by
          have : ∀ l : List PyVal, heads (l.map (fun y => [y])) = some l := by
            intro l; induction l with
            | nil => rfl
            | cons y l ih => simp [heads, ih]
          exact this _
        simp only [List.map_cons, List.length_cons, List.length_nil, zipStarAux, Nat.zero_add] at h1 ⊢
        simp [h1]
    · have e1 : zipStar (r :: M) = List.zipWith (fun x c => x :: c) r (zipStar M) := by
        have hz : zipStar M = zipStarAux K M := by
          cases M with
          | nil => exact absurd rfl hM
          | cons m M0 => simp [zipStar, hrect' m (by simp)]
        rw [hz]
        simp only [zipStar, hr]
        exact zipStarAux_cons K r M hr hM hrect'
      have hC := zipStarAux_length K M hM hrect'
      have hz : zipStar M = zipStarAux K M := by
        cases M with
        | nil => exact absurd rfl hM
        | cons m M0 => simp [zipStar, hrect' m (by simp)]
      rw [← hz] at hC
      obtain ⟨hc1, hc2⟩ := hC
      have hih := ih hM hrect'
      rw [e1]
      obtain ⟨g1, g2⟩ := heads_zipWith_cons r (zipStar M) (by rw [hc1, hr])
      -- the first column
      cases hcz : zipStar M with
      | nil => rw [hcz] at hc1; simp at hc1; omega
      | cons c0 C =>
        cases r with
        | nil => simp at hr; omega
        | cons x r' =>
          rw [hcz] at g1 g2 hih
          simp only [List.zipWith_cons_cons, zipStar, List.length_cons, zipStarAux] at g1 g2 hih ⊢
          simp only [g1, g2]
          rw [hih]




theorem zipStar_singles {α} (f : α → PyVal) (xs : List α) (hne : xs ≠ []) :
    zipStar (xs.map (fun x => [f x])) = [xs.map f] := by
  have h1 : ∀ ys : List α, heads (ys.map (fun x => [f x])) = some (ys.map f) := by
    intro ys; induction ys with
    | nil => simp [heads]
    | cons y ys ih => simp [heads, ih]
  cases xs with
  | nil => exact absurd rfl hne
  | cons x xs =>
    have := h1 (x :: xs)
    simp only [List.map_cons] at this
    simp [zipStar, zipStarAux, this]

/-- the value a column-major learner puts per row into the hinted column -/
def hintVal (sp : Spec) (ans : Answer) (as : List PyVal) : PyVal :=
  match sp.fmt with
  | .dAP => mkSeq sp.tup [ans.action as, ans.p]
  | .dPM => mkPmf sp.pmfTup ans.pmf
  | _ => ans.action as

/-- the columns of a column-major answer (without the kwargs column) -/
def colsOf (sp : Spec) (R : Rows) : List PyVal :=
  match sp.fmt with
  | .A => [.list (.lrn 0) (R.map (fun r => r.1.action r.2))]
  | .AP => [.list (.lrn 0) (R.map (fun r => r.1.action r.2)), .list (.lrn 0) (R.map (fun r => r.1.p))]
  | .PM => (zipStar (R.map (fun r => r.1.pmf))).map (fun c => PyVal.list (.lrn 0) c)
  | _ => [.dict (.lrn 0) [sp.fmt.hint] [.list (.lrn 0) (R.map (fun r => hintVal sp r.1 r.2))]]

theorem renderCol_eq (sp : Spec) (R : Rows) (hne : R ≠ []) :
    renderCol sp R =
      (if sp.kw then mkSeq sp.tup (colsOf sp R ++ [kwCols R])
       else if sp.fmt.hinted then (colsOf sp R).getD 0 .none
       else mkSeq sp.tup (colsOf sp R)) := by
  obtain ⟨fmt, kw, lay, tup, ptup⟩ := sp
  have hs := zipStar_singles (fun r : Answer × List PyVal => r.1.action r.2) R hne
  have hp := zipStar_pairs (fun r : Answer × List PyVal => r.1.action r.2) (fun r => r.1.p) R hne
  cases fmt <;> simp [renderCol, colsOf, core, Fmt.hinted, Fmt.hint, hintVal, Answer.action, List.map_map, Function.comp_def] at hs hp ⊢
  all_goals first | simp [hs] | simp [hp]




/-- `choicew` looks at a PMF only through its entries -/
theorem choicew_items (s : Nat) (as : List PyVal) (v w : PyVal) (xs : List PyVal)
    (hv : v.items = some xs) (hw : w.items = some xs) : choicew s as v = choicew s as w := by
  cases v <;> simp [PyVal.items] at hv <;> cases w <;> simp [PyVal.items] at hw <;> subst hv <;> subst hw <;> simp [choicew, PyVal.items]

theorem choicewRows_items (s : Nat) (rows : List (List PyVal)) (vs ws : List PyVal) (xss : List (List PyVal))
    (hv : vs.map PyVal.items = xss.map some) (hw : ws.map PyVal.items = xss.map some) :
    choicewRows s rows vs = choicewRows s rows ws := by
  induction rows generalizing s vs ws xss with
  | nil => cases vs <;> cases ws <;> simp [choicewRows]
  | cons r rows ih =>
    cases xss with
    | nil =>
      have : vs = [] := by simpa using hv
      have : ws = [] := by simpa using hw
      simp_all [choicewRows]
    | cons xs xss =>
      cases vs with
      | nil => simp at hv
      | cons v vs =>
        cases ws with
        | nil => simp at hw
        | cons w ws =>
          simp only [List.map_cons, List.cons.injEq] at hv hw
          have h1 := choicew_items s r v w xs hv.1 hw.1
          simp only [choicewRows, h1, bind, Except.bind]
          cases choicew s r w with
          | error e => rfl
          | ok t =>
            obtain ⟨s1, a, p⟩ := t
            simp only [ih s1 vs ws xss hv.2 hw.2]




/-- the kwargs a column-major batch ends up with -/
def kwColVal (sp : Spec) (R : Rows) : PyVal := if sp.kw then kwCols R else .dict .tmp [] []

theorem kwColVal_view (sp : Spec) (R : Rows) (a p : PyVal) (A P : List PyVal)
    (ha : a.items = some A) (hp : p.items = some P) :
    (Result.mk a p (kwColVal sp R)).view = some ⟨A, P, (wantKw sp R).1, (wantKw sp R).2⟩ := by
  unfold kwColVal wantKw
  cases hk : sp.kw
  · simp [Result.view, ha, hp, allItems]
  · cases R with
    | nil => simp [Result.view, ha, hp, allItems, kwCols]
    | cons r R' =>
      obtain ⟨a0, as0⟩ := r
      have := allItems_lists (a0.kwKeys.map (fun k => ((a0, as0) :: R').map (fun r => (lookupKey k r.1.kwKeys r.1.kwVals).getD .none))) (.lrn 0)
      simp only [List.map_map] at this
      simp [Result.view, ha, hp, kwCols]
      exact this

@[simp] theorem getIdx_seqTmp_zero (t : Bool) (x : PyVal) (xs : List PyVal) : getIdx (seqTmp t (x :: xs)) 0 = .ok x := by
  cases t <;> simp [seqTmp, getIdx]
@[simp] theorem isDict_seqTmp (t : Bool) (xs : List PyVal) : (seqTmp t xs).isDict = false := by
  cases t <;> simp [seqTmp, PyVal.isDict]

theorem parseCol_A (fx : Fixes) (sp : Spec) (st : State) (hkw : st.hasKw = sp.kw) (R : Rows) (hne : R ≠ [])
    (hf : sp.fmt = .A) (hok : fx.col = true) :
    DeliversN (parseCol fx st sp.pfmt (R.map (·.2)) (renderCol sp R)) (wantBatch sp st.rng R) := by
  rw [renderCol_eq sp R hne]
  obtain ⟨fmt, kw, lay, tup, ptup⟩ := sp
  simp only at hf hkw; subst hf
  cases kw
  · simp only [parseCol, hkw, hok, Spec.pfmt, Fmt.kind, Fmt.hinted, colsOf, Bool.false_eq_true, ↓reduceIte, Bool.true_and,
      bind, Except.bind, pure, Except.pure, getIdx_mkSeq_zero, lenE, PyVal.hasLen, PyVal.len, wantBatch, DeliversN,
      decide_true]
    refine ⟨_, rfl, ?_⟩
    have := kwColVal_view ⟨.A, false, lay, tup, ptup⟩ R (.list (.lrn 0) (R.map (fun r => r.1.action r.2)))
      (noneList (R.map (fun r => r.1.action r.2)).length) (R.map (fun r => r.1.action r.2)) _ rfl (items_noneList _)
    rw [replicate_map_length] at this
    simpa [kwColVal] using this
  · simp only [parseCol, hkw, hok, Spec.pfmt, Fmt.kind, Fmt.hinted, colsOf, ↓reduceIte, Bool.true_and,
      bind, Except.bind, pure, Except.pure, getLast_mkSeq, dropLast_mkSeq, getIdx_seqTmp_zero, lenE, PyVal.hasLen, PyVal.len, wantBatch, DeliversN,
      decide_true, Bool.false_eq_true]
    refine ⟨_, rfl, ?_⟩
    have := kwColVal_view ⟨.A, true, lay, tup, ptup⟩ R (.list (.lrn 0) (R.map (fun r => r.1.action r.2)))
      (noneList (R.map (fun r => r.1.action r.2)).length) (R.map (fun r => r.1.action r.2)) _ rfl (items_noneList _)
    rw [replicate_map_length] at this
    simpa [kwColVal] using this




theorem parseCol_AP (fx : Fixes) (sp : Spec) (st : State) (hkw : st.hasKw = sp.kw) (R : Rows) (hne : R ≠ [])
    (hf : sp.fmt = .AP) :
    DeliversN (parseCol fx st sp.pfmt (R.map (·.2)) (renderCol sp R)) (wantBatch sp st.rng R) := by
  rw [renderCol_eq sp R hne]
  obtain ⟨fmt, kw, lay, tup, ptup⟩ := sp
  simp only at hf hkw; subst hf
  cases kw
  · simp only [parseCol, hkw, Spec.pfmt, Fmt.kind, Fmt.hinted, colsOf, Bool.false_eq_true, ↓reduceIte,
      bind, Except.bind, pure, Except.pure, itemsE, iter_mkSeq, wantBatch, DeliversN, Bool.and_false,
      decide_false, reduceCtorEq, iter_mkSeq, iter_seqTmp]
    refine ⟨_, rfl, ?_⟩
    have := kwColVal_view ⟨.AP, false, lay, tup, ptup⟩ R (.list (.lrn 0) (R.map (fun r => r.1.action r.2)))
      (.list (.lrn 0) (R.map (fun r => r.1.p))) (R.map (fun r => r.1.action r.2)) (R.map (fun r => r.1.p)) rfl rfl
    simpa [kwColVal] using this
  · simp only [parseCol, hkw, Spec.pfmt, Fmt.kind, Fmt.hinted, colsOf, Bool.false_eq_true, ↓reduceIte,
      bind, Except.bind, pure, Except.pure, itemsE, getLast_mkSeq, dropLast_mkSeq, iter_seqTmp, wantBatch, DeliversN, Bool.and_false,
      decide_false, reduceCtorEq, iter_mkSeq, iter_seqTmp]
    refine ⟨_, rfl, ?_⟩
    have := kwColVal_view ⟨.AP, true, lay, tup, ptup⟩ R (.list (.lrn 0) (R.map (fun r => r.1.action r.2)))
      (.list (.lrn 0) (R.map (fun r => r.1.p))) (R.map (fun r => r.1.action r.2)) (R.map (fun r => r.1.p)) rfl rfl
    simpa [kwColVal] using this




theorem hintVal_inner (sp : Spec) (ans : Answer) (as : List PyVal) (hh : sp.fmt.hinted = true) :
    hintVal sp ans as = inner sp ans as := by
  obtain ⟨fmt, kw, lay, tup, ptup⟩ := sp
  cases fmt <;> simp [Fmt.hinted] at hh <;> simp [hintVal, inner]

/-- the last step of the column-major branch once the hinted column (one value per row) is unpacked -/
theorem colFinish_hinted (sp : Spec) (s : Nat) (R : Rows) (hne : R ≠ []) (hh : sp.fmt.hinted = true) :
    DeliversN
      (match sp.fmt.kind with
        | .PM => do
          let body ← itemsE (PyVal.list (.lrn 0) (R.map (fun r => hintVal sp r.1 r.2)))
          let (s', A, P) ← choicewRows s (R.map (·.2)) body
          if A.isEmpty then .error .value else pure (⟨.list .tmp A, .list .tmp P, kwColVal sp R⟩, s')
        | .AX => do
          let n ← lenE (PyVal.list (.lrn 0) (R.map (fun r => hintVal sp r.1 r.2)))
          pure (⟨PyVal.list (.lrn 0) (R.map (fun r => hintVal sp r.1 r.2)), noneList n, kwColVal sp R⟩, s)
        | .AP => do
          let body ← itemsE (PyVal.list (.lrn 0) (R.map (fun r => hintVal sp r.1 r.2)))
          let (A, P) ← unzipPairs body
          pure (⟨A, P, kwColVal sp R⟩, s))
      (wantBatch sp s R) := by
  have hv : ∀ r : Answer × List PyVal, hintVal sp r.1 r.2 = inner sp r.1 r.2 := fun r => hintVal_inner sp r.1 r.2 hh
  simp only [hv, itemsE, iter, lenE, PyVal.hasLen, PyVal.len, ↓reduceIte, bind, Except.bind, pure, Except.pure]
  cases hk : sp.fmt.kind
  case AX =>
    have hin : ∀ r : Answer × List PyVal, inner sp r.1 r.2 = r.1.action r.2 := by
      intro r; obtain ⟨fmt, kw, lay, tup, ptup⟩ := sp; cases fmt <;> simp [Fmt.kind] at hk <;> simp [inner]
    simp only [wantBatch, hk, DeliversN]
    refine ⟨_, rfl, ?_⟩
    have := kwColVal_view sp R (.list (.lrn 0) (R.map (fun r => inner sp r.1 r.2)))
      (noneList (R.map (fun r => inner sp r.1 r.2)).length) (R.map (fun r => inner sp r.1 r.2)) _ rfl (items_noneList _)
    rw [replicate_map_length] at this
    simpa [hin] using this
  case AP =>
    have h1 : mapE itemsE (R.map (fun r => inner sp r.1 r.2)) = .ok (R.map (fun r => [r.1.action r.2, r.1.p])) :=
      mapE_map_ok _ _ _ R (fun r _ => by simpa [itemsE] using iter_inner_AP sp r.1 r.2 hk)
    have h2 := zipStar_pairs (fun r : Answer × List PyVal => r.1.action r.2) (fun r => r.1.p) R hne
    simp only [wantBatch, hk, DeliversN, unzipPairs, h1, h2, bind, Except.bind, pure, Except.pure]
    refine ⟨_, rfl, ?_⟩
    exact kwColVal_view sp R _ _ _ _ (by simp [PyVal.items]) (by simp [PyVal.items])
  case PM =>
    have hin : ∀ r : Answer × List PyVal, inner sp r.1 r.2 = mkPmf sp.pmfTup r.1.pmf := by
      intro r; obtain ⟨fmt, kw, lay, tup, ptup⟩ := sp; cases fmt <;> simp [Fmt.kind] at hk <;> simp [inner]
    simp only [wantBatch, hk, hin]
    cases hc : choicewRows s (R.map (·.2)) (R.map (fun r => mkPmf sp.pmfTup r.1.pmf)) with
    | error e => simp [DeliversN]
    | ok v =>
      obtain ⟨s', A, P⟩ := v
      have := choicewRows_ne _ _ _ _ _ _ hc (by simpa using hne) (by simpa using hne)
      simp only [this, Bool.false_eq_true, ↓reduceIte, DeliversN]
      refine ⟨_, rfl, ?_⟩
      exact kwColVal_view sp R _ _ _ _ (by simp [PyVal.items]) (by simp [PyVal.items])

theorem parseCol_hinted (fx : Fixes) (sp : Spec) (st : State) (hkw : st.hasKw = sp.kw) (R : Rows) (hne : R ≠ [])
    (hh : sp.fmt.hinted = true) (hok : fx.col = true ∨ sp.kw = false) :
    DeliversN (parseCol fx st sp.pfmt (R.map (·.2)) (renderCol sp R)) (wantBatch sp st.rng R) := by
  have key := colFinish_hinted sp st.rng R hne hh
  rw [renderCol_eq sp R hne]
  have hcols : colsOf sp R = [.dict (.lrn 0) [sp.fmt.hint] [.list (.lrn 0) (R.map (fun r => hintVal sp r.1 r.2))]] := by
    obtain ⟨fmt, kw, lay, tup, ptup⟩ := sp
    cases fmt <;> simp [Fmt.hinted] at hh <;> simp [colsOf]
  cases hk : sp.kw
  · simp only [parseCol, hkw, hk, hh, hcols, Spec.pfmt, Bool.false_eq_true, ↓reduceIte, List.getD_cons_zero, isDict_dict,
      Bool.not_true, Bool.and_false, firstValue, bind, Except.bind, pure, Except.pure, kwColVal] at key ⊢
    exact key
  · have hc : fx.col = true := by rcases hok with h | h; exact h; rw [hk] at h; cases h
    simp only [parseCol, hkw, hk, hh, hc, hcols, Spec.pfmt, ↓reduceIte, List.getD_cons_zero, isDict_dict, isDict_seqTmp,
      Bool.not_false, Bool.and_self, getLast_mkSeq, dropLast_mkSeq, getIdx_seqTmp_zero,
      firstValue, bind, Except.bind, pure, Except.pure, kwColVal] at key ⊢
    exact key




theorem pmfTable_rect (sp : Spec) (R : Rows) (hne : R ≠ []) (hf : sp.fmt = .PM) (ht : pmfTable sp R = true) :
    ∃ K, 0 < K ∧ Rect K (R.map (fun r => r.1.pmf)) := by
  cases R with
  | nil => exact absurd rfl hne
  | cons r R' =>
    simp only [pmfTable, hf, bne_self_eq_false, Bool.false_or, Bool.and_eq_true, decide_eq_true_eq, List.all_eq_true, beq_iff_eq] at ht
    refine ⟨r.1.pmf.length, ht.1, ?_⟩
    intro x hx
    simp only [List.mem_map] at hx
    obtain ⟨y, hy, rfl⟩ := hx
    exact ht.2 y hy

theorem mapE_items_lists (cs : List (List PyVal)) (r : Ref) :
    mapE itemsE (cs.map (fun c => PyVal.list r c)) = .ok cs := by
  have := mapE_map_ok itemsE (fun c => PyVal.list r c) id cs (by intro c _; simp [itemsE, iter])
  simpa using this

@[simp] theorem iter_list (r : Ref) (xs : List PyVal) : iter (PyVal.list r xs) = .ok xs := rfl

theorem parseCol_PM (fx : Fixes) (sp : Spec) (st : State) (hkw : st.hasKw = sp.kw) (R : Rows) (hne : R ≠ [])
    (hf : sp.fmt = .PM) (hok : fx.col = true) (ht : pmfTable sp R = true) :
    DeliversN (parseCol fx st sp.pfmt (R.map (·.2)) (renderCol sp R)) (wantBatch sp st.rng R) := by
  obtain ⟨K, hK, hrect⟩ := pmfTable_rect sp R hne hf ht
  have hinv := zipStar_zipStar K hK (R.map (fun r => r.1.pmf)) (by simpa using hne) hrect
  have hitems := mapE_items_lists (zipStar (R.map (fun r => r.1.pmf))) (.lrn 0)
  have hcong : choicewRows st.rng (R.map (·.2)) ((R.map (fun r => r.1.pmf)).map (fun r => PyVal.tuple .tmp r)) =
      choicewRows st.rng (R.map (·.2)) (R.map (fun r => mkPmf sp.pmfTup r.1.pmf)) :=
    choicewRows_items _ _ _ _ (R.map (fun r => r.1.pmf)) (by simp [PyVal.items, Function.comp_def]) (by simp [mkPmf, Function.comp_def])
  rw [renderCol_eq sp R hne]
  obtain ⟨fmt, kw, lay, tup, ptup⟩ := sp
  simp only at hf hkw; subst hf
  have fin : DeliversN
      (Except.bind (choicewRows st.rng (R.map (·.2)) (R.map (fun r => mkPmf ptup r.1.pmf)))
        (fun v => if v.2.1.isEmpty then .error .value else .ok (⟨.list .tmp v.2.1, .list .tmp v.2.2, kwColVal ⟨.PM, kw, lay, tup, ptup⟩ R⟩, v.1)))
      (wantBatch ⟨.PM, kw, lay, tup, ptup⟩ st.rng R) := by
    simp only [wantBatch, Fmt.kind]
    cases hc : choicewRows st.rng (R.map (·.2)) (R.map (fun r => mkPmf ptup r.1.pmf)) with
    | error e => simp [DeliversN, Except.bind]
    | ok v =>
      obtain ⟨s', A, P⟩ := v
      have := choicewRows_ne _ _ _ _ _ _ hc (by simpa using hne) (by simpa using hne)
      simp only [Except.bind, this, Bool.false_eq_true, ↓reduceIte, DeliversN]
      refine ⟨_, rfl, ?_⟩
      exact kwColVal_view _ R _ _ _ _ (by simp [PyVal.items]) (by simp [PyVal.items])
  cases kw
  · simp only [parseCol, hkw, hok, Spec.pfmt, Fmt.kind, Fmt.hinted, colsOf, Bool.false_eq_true, ↓reduceIte, Bool.true_and,
      bind, Except.bind, pure, Except.pure, itemsE, iter_mkSeq, decide_true, hitems, hinv, iter_list, hcong, kwColVal] at fin ⊢
    exact fin
  · simp only [parseCol, hkw, hok, Spec.pfmt, Fmt.kind, Fmt.hinted, colsOf, Bool.false_eq_true, ↓reduceIte, Bool.true_and,
      bind, Except.bind, pure, Except.pure, itemsE, getLast_mkSeq, dropLast_mkSeq, iter_seqTmp, decide_true, hitems, hinv, iter_list, hcong, kwColVal] at fin ⊢
    exact fin




theorem parseCol_cols (fx : Fixes) (sp : Spec) (st : State) (hkw : st.hasKw = sp.kw) (R : Rows) (hne : R ≠ [])
    (hok : colParseOK fx sp = true) (ht : pmfTable sp R = true) :
    DeliversN (parseCol fx st sp.pfmt (R.map (·.2)) (renderCol sp R)) (wantBatch sp st.rng R) := by
  simp only [colParseOK, Bool.or_eq_true, Bool.and_eq_true, beq_iff_eq, Bool.not_eq_true'] at hok
  cases hf : sp.fmt
  case AP => exact parseCol_AP fx sp st hkw R hne hf
  case A =>
    have : fx.col = true := by
      rcases hok with (h | h) | h
      · exact h
      · rw [hf] at h; cases h
      · rw [hf] at h; simp [Fmt.hinted] at h
    exact parseCol_A fx sp st hkw R hne hf this
  case PM =>
    have : fx.col = true := by
      rcases hok with (h | h) | h
      · exact h
      · rw [hf] at h; cases h
      · rw [hf] at h; simp [Fmt.hinted] at h
    exact parseCol_PM fx sp st hkw R hne hf this ht
  all_goals
    have hh : sp.fmt.hinted = true := by rw [hf]; rfl
    have hok' : fx.col = true ∨ sp.kw = false := by
      rcases hok with (h | h) | h
      · exact Or.inl h
      · rw [hf] at h; cases h
      · exact Or.inr h.2
    exact parseCol_hinted fx sp st hkw R hne hh hok'

theorem firstOfEach_lists (C : List (List PyVal)) (h : List PyVal) (r : Ref) (hh : heads C = some h) :
    firstOfEach (C.map (fun c => PyVal.list r c)) = .ok h := by
  induction C generalizing h with
  | nil => simp [heads] at hh; subst hh; simp [firstOfEach, pure, Except.pure]
  | cons c C ih =>
    cases c with
    | nil => simp [heads] at hh
    | cons x c =>
      cases hC : heads C with
      | none => simp [heads, hC] at hh
      | some h' =>
        simp [heads, hC] at hh
        subst hh
        simp [firstOfEach, getIdx, ih h' hC, bind, Except.bind, pure, Except.pure]

theorem heads_zipStar (K : Nat) (hK : 0 < K) (r : List PyVal) (M : List (List PyVal)) (hrect : Rect K (r :: M)) :
    heads (zipStar (r :: M)) = some r := by
  have hinv := zipStar_zipStar K hK (r :: M) (by simp) hrect
  have hlen := zipStarAux_length K (r :: M) (by simp) hrect
  have hz : zipStar (r :: M) = zipStarAux K (r :: M) := by simp [zipStar, hrect r (by simp)]
  rw [← hz] at hlen
  cases hC : zipStar (r :: M) with
  | nil => rw [hC] at hlen; simp at hlen; omega
  | cons c0 C =>
    rw [hC] at hinv hlen
    have hc0 : c0.length = (r :: M).length := hlen.2 c0 (by simp)
    simp only [zipStar] at hinv
    rw [hc0] at hinv
    simp only [List.length_cons, zipStarAux] at hinv
    cases hh : heads (c0 :: C) with
    | none => simp [hh] at hinv
    | some h => simp [hh] at hinv; rw [hinv.1]




/-- the fields of the first row as `first_row` collects them from the columns -/
def rowFields (sp : Spec) (a0 : Answer) (as0 : List PyVal) : List PyVal :=
  match sp.fmt with
  | .AP => [a0.action as0, a0.p]
  | .PM => a0.pmf
  | _ => [a0.action as0]

theorem colsOf_shape (sp : Spec) (a0 : Answer) (as0 : List PyVal) (R' : Rows) (hun : sp.fmt.hinted = false)
    (ht : pmfTable sp ((a0, as0) :: R') = true) :
    (∃ c0 rest, colsOf sp ((a0, as0) :: R') = .list (.lrn 0) c0 :: rest ∧ c0.length = R'.length + 1) ∧
    (colsOf sp ((a0, as0) :: R')).length = ncols sp a0 ∧
    firstOfEach (colsOf sp ((a0, as0) :: R')) = .ok (rowFields sp a0 as0) ∧
    (∀ c ∈ colsOf sp ((a0, as0) :: R'), c.isDict = false) ∧ 0 < ncols sp a0 := by
  obtain ⟨fmt, kw, lay, tup, ptup⟩ := sp
  cases fmt <;> simp [Fmt.hinted] at hun
  case A =>
    refine ⟨⟨_, _, rfl, by simp⟩, rfl, ?_, ?_, by simp [ncols]⟩
    · simp [colsOf, firstOfEach, getIdx, rowFields, bind, Except.bind, pure, Except.pure]
    · intro c hc; simp [colsOf] at hc; subst hc; rfl
  case AP =>
    refine ⟨⟨_, _, rfl, by simp⟩, rfl, ?_, ?_, by simp [ncols]⟩
    · simp [colsOf, firstOfEach, getIdx, rowFields, bind, Except.bind, pure, Except.pure]
    · intro c hc; simp [colsOf] at hc; rcases hc with rfl | rfl <;> rfl
  case PM =>
    obtain ⟨K, hK, hrect⟩ := pmfTable_rect ⟨.PM, kw, lay, tup, ptup⟩ ((a0, as0) :: R') (by simp) rfl ht
    simp only [List.map_cons] at hrect
    have hK0 : a0.pmf.length = K := hrect a0.pmf (by simp)
    have hlen := zipStarAux_length K (a0.pmf :: R'.map (fun r => r.1.pmf)) (by simp) hrect
    have hz : zipStar (a0.pmf :: R'.map (fun r => r.1.pmf)) = zipStarAux K (a0.pmf :: R'.map (fun r => r.1.pmf)) := by
      simp [zipStar, hK0]
    rw [← hz] at hlen
    have hheads := heads_zipStar K hK a0.pmf (R'.map (fun r => r.1.pmf)) hrect
    refine ⟨?_, ?_, ?_, ?_, by simp [ncols, hK0, hK]⟩
    · cases hC : zipStar (a0.pmf :: R'.map (fun r => r.1.pmf)) with
      | nil => rw [hC] at hlen; simp at hlen; omega
      | cons c0 C =>
        rw [hC] at hlen
        refine ⟨c0, C.map (fun c => PyVal.list (.lrn 0) c), by simp [colsOf, hC], ?_⟩
        have := hlen.2 c0 (by simp)
        simpa using this
    · simp [colsOf, ncols, hlen.1, hK0]
    · simpa [colsOf, rowFields] using firstOfEach_lists _ _ (.lrn 0) hheads
    · intro c hc; simp [colsOf] at hc; obtain ⟨x, _, rfl⟩ := hc; rfl




/-- a sequence whose first item is a column (a list of n values): valid for a batch of n -/
theorem validOut_cols (fx : Fixes) (t : Bool) (c0 : List PyVal) (rest : List PyVal) (n : Nat) (hn : c0.length = n) :
    validOut fx (mkSeq t (.list (.lrn 0) c0 :: rest)) n = true := by
  have hl : ∃ l, (PyVal.list (.lrn 0) c0 :: rest).getLast? = some l := by
    cases h : (PyVal.list (.lrn 0) c0 :: rest).getLast? with
    | none => simp [List.getLast?_eq_none_iff] at h
    | some l => exact ⟨l, rfl⟩
  obtain ⟨l, hl⟩ := hl
  cases t <;> simp [mkSeq, validOut, hl, PyVal.isDict, lenOr0, PyVal.len, hn]

@[simp] theorem lenE_list (r : Ref) (xs : List PyVal) : lenE (PyVal.list r xs) = .ok xs.length := rfl
@[simp] theorem hasLen_list (r : Ref) (xs : List PyVal) : (PyVal.list r xs).hasLen = true := rfl

theorem batchOrderPre_cols (fx : Fixes) (t : Bool) (c0 : List PyVal) (rest : List PyVal) (cs : List PyVal) (rows : List (List PyVal))
    (hn : c0.length = rows.length) :
    batchOrderPre fx (mkSeq t (.list (.lrn 0) c0 :: rest)) (.batch cs rows) 1 =
      .ok (if rest.length + 1 = rows.length then Option.none else some .col) := by
  unfold batchOrderPre
  have h1 : allDicts (mkSeq t (.list (.lrn 0) c0 :: rest)) = .ok false := by
    simp [allDicts, bind, Except.bind, pure, Except.pure, PyVal.isDict]
  simp only [h1, isDict_mkSeq, getIdx_mkSeq_zero, lenE_mkSeq, lenE_list, hasLen_list, bind, Except.bind, pure, Except.pure, Bool.false_eq_true, ↓reduceIte,
    Bool.or_self, Bool.not_true, List.length_cons, hn]
  simp
  by_cases h : rest.length + 1 = rows.length <;> simp [h]

theorem hasKwargs_col (t : Bool) (xs : List PyVal) (x : PyVal) :
    hasKwargs (mkSeq t (xs ++ [x])) .col = x.isDict := by
  simp [hasKwargs]




/-- `row[0] if len(row)==1 else row` -/
def stdOfFields (fields : List PyVal) : PyVal :=
  match fields with
  | [x] => x
  | row => .list .tmp row

theorem firstRow_cols (t : Bool) (kw : Bool) (c0 : List PyVal) (rest : List PyVal) (kwd : PyVal) (fields : List PyVal)
    (hf : firstOfEach (.list (.lrn 0) c0 :: rest) = .ok fields) :
    firstRow (mkSeq t ((.list (.lrn 0) c0 :: rest) ++ (if kw then [kwd] else []))) .col kw = .ok (stdOfFields fields) := by
  have hfin : (match fields with | [x] => (pure x : Except Err PyVal) | x => pure (PyVal.list .tmp fields)) = .ok (stdOfFields fields) := by
    unfold stdOfFields; split <;> rfl
  cases kw
  · cases t
    · simp only [firstRow, mkSeq, Bool.false_eq_true, ↓reduceIte, List.append_nil, pure, Except.pure, bind, Except.bind, Bool.false_and,
        iter, hf]
      exact hfin
    · simp only [firstRow, mkSeq, Bool.false_eq_true, ↓reduceIte, List.append_nil, pure, Except.pure, bind, Except.bind, Bool.false_and,
        iter, hf]
      exact hfin
  · have hdl : (PyVal.list (.lrn 0) c0 :: (rest ++ [kwd])).dropLast = PyVal.list (.lrn 0) c0 :: rest := by
      have := List.dropLast_concat (l₁ := PyVal.list (.lrn 0) c0 :: rest) (b := kwd)
      simpa using this
    cases t
    · simp only [firstRow, mkSeq, ↓reduceIte, pure, Except.pure, bind, Except.bind, List.cons_append, getIdx, List.getElem?_cons_zero,
        PyVal.isDict, Bool.and_false, Bool.false_eq_true, dropLast, iter, hdl, hf]
      exact hfin
    · simp only [firstRow, mkSeq, ↓reduceIte, pure, Except.pure, bind, Except.bind, List.cons_append, getIdx, List.getElem?_cons_zero,
        PyVal.isDict, Bool.and_false, Bool.false_eq_true, dropLast, iter, hdl, hf]
      exact hfin

/-- what `first_row` makes of the first entries of the columns -/
def colStd (sp : Spec) (a0 : Answer) (as0 : List PyVal) : PyVal := stdOfFields (rowFields sp a0 as0)

theorem predFormat_colStd (fx : Fixes) (sp : Spec) (a0 : Answer) (as0 : List PyVal) (hun : sp.fmt.hinted = false)
    (h : firstRowOK fx sp a0 as0 = true) (hK : sp.fmt = .PM → 2 ≤ a0.pmf.length) :
    predFormat fx (colStd sp a0 as0) (some as0) = .ok sp.pfmt := by
  obtain ⟨fmt, kw, lay, tup, ptup⟩ := sp
  cases fmt <;> simp [Fmt.hinted] at hun
  case A =>
    have := predFormat_rowStd fx ⟨.A, kw, lay, tup, ptup⟩ a0 as0 h
    simpa [rowStd, core, colStd, stdOfFields, rowFields, Answer.action] using this
  case AP =>
    simp only [firstRowOK, Bool.and_eq_true, decide_eq_true_eq] at h
    have hact := any_pyIs_action as0 a0.pick h.1.1
    have : (colStd ⟨.AP, kw, lay, tup, ptup⟩ a0 as0).items = some [as0.getD a0.pick .none, a0.p] := by
      simp [colStd, stdOfFields, rowFields, PyVal.items, Answer.action]
    simpa [Spec.pfmt, Fmt.kind, Fmt.hinted] using predFormat_AP fx _ _ _ as0 this hact
  case PM =>
    have hK := hK rfl
    simp only [firstRowOK, Bool.and_eq_true, decide_eq_true_eq, Bool.or_eq_true] at h
    obtain ⟨⟨hp, hl⟩, ⟨hv, h2⟩, hs⟩ := h
    have hl' : ∀ a ∈ as0, isLrn a = false := by
      intro a ha; have := List.all_eq_true.mp hl a ha; simpa using this
    have hne : as0 ≠ [] := by intro h0; simp [h0] at hp
    have hstd : colStd ⟨.PM, kw, lay, tup, ptup⟩ a0 as0 = .list .tmp a0.pmf := by
      simp only [colStd, rowFields, stdOfFields]
      rcases hpm : a0.pmf with _ | ⟨x, _ | ⟨y, r⟩⟩
      · simp [hpm] at hK
      · simp [hpm] at hK
      · rfl
    rw [hstd]
    have := predFormat_PM_gen fx (.list .tmp a0.pmf) a0.pmf as0 rfl rfl hne hl' hv
      (by intro x y hxy; simp only [hxy] at h2; simpa using h2) (Or.inr hK)
    simpa [Spec.pfmt, Fmt.kind, Fmt.hinted] using this




theorem kwCols_isDict (R : Rows) : (kwCols R).isDict = true := by
  cases R with
  | nil => rfl
  | cons r R => rfl

theorem pmfTable_head (sp : Spec) (r : Answer × List PyVal) (R' : Rows) (ht : pmfTable sp (r :: R') = true) :
    pmfTable sp [r] = true := by
  simp only [pmfTable, Bool.or_eq_true, Bool.and_eq_true, decide_eq_true_eq, List.all_eq_true, beq_iff_eq] at ht ⊢
  rcases ht with h | h
  · exact Or.inl h
  · exact Or.inr ⟨h.1, by intro x hx; simp at hx; subst hx; rfl⟩

/-- first-call detection on an un-hinted column-major answer -/
theorem detect_cols (fx : Fixes) (sp : Spec) (pol : Policy) (st1 : State) (c0 : PyVal) (cs' : List PyVal) (as0 : List PyVal)
    (rows' : List (List PyVal)) (R' : Rows)
    (hlay : sp.layout = .col) (hun : sp.fmt.hinted = false)
    (hl : st1.layout = Option.none)
    (hn : (zipWithAns pol cs' rows').length = rows'.length) (hR' : R' = zipWithAns pol cs' rows')
    (hf : firstRowOK fx sp (pol c0 as0) as0 = true)
    (hc : colFirstOK sp (pol c0 as0) (rows'.length + 1) = true)
    (ht : pmfTable sp ((pol c0 as0, as0) :: R') = true) :
    detect fx (scripted sp pol) st1 (.batch (c0 :: cs') (as0 :: rows')) (renderCol sp ((pol c0 as0, as0) :: R')) 1 =
      .ok { st1 with layout := some .col, hasKw := sp.kw, fmt := some sp.pfmt } := by
  set a0 := pol c0 as0 with ha0
  obtain ⟨⟨col0, rest, hcols, hc0⟩, hncols, hfirst, hnd, hpos⟩ := colsOf_shape sp a0 as0 R' hun ht
  obtain ⟨⟨col1, rest1, hcols1, _⟩, hncols1, _, _, _⟩ := colsOf_shape sp a0 as0 [] hun (pmfTable_head sp _ _ ht)
  simp only [colFirstOK, hun, Bool.false_eq_true, ↓reduceIte, Bool.and_eq_true, Bool.or_eq_true, bne_iff_ne, ne_eq,
    decide_eq_true_eq, Bool.not_eq_true', Bool.and_eq_false_iff, beq_eq_false_iff_ne] at hc
  obtain ⟨hcK, hshape⟩ := hc
  have hK : sp.fmt = .PM → 2 ≤ a0.pmf.length := by
    intro h; rcases hcK with h' | h'
    · exact absurd h h'
    · exact h'
  have hrend : ∀ R : Rows, R ≠ [] → renderCol sp R = mkSeq sp.tup (colsOf sp R ++ (if sp.kw then [kwCols R] else [])) := by
    intro R hR
    rw [renderCol_eq sp R hR]
    cases hk : sp.kw <;> simp [hun]
  have hP := hrend ((a0, as0) :: R') (by simp)
  have hP1 := hrend [(a0, as0)] (by simp)
  rw [hcols] at hP
  rw [hcols1] at hP1
  -- batch_order
  have hRl : R'.length = rows'.length := by rw [hR']; exact hn
  have hrl : rest.length + 1 = ncols sp a0 := by rw [← hncols, hcols]; simp
  have hrl1 : rest1.length + 1 = ncols sp a0 := by rw [← hncols1, hcols1]; simp
  have hbo : batchOrder fx
      (do let a1 ← firstOf (.batch (c0 :: cs') (as0 :: rows')); let r ← safeCall fx (scripted sp pol) (some 1) a1; pure r.1)
      (renderCol sp ((a0, as0) :: R')) (.batch (c0 :: cs') (as0 :: rows')) 1 = .ok .col := by
    have hpre := batchOrderPre_cols fx sp.tup col0 (rest ++ (if sp.kw then [kwCols ((a0, as0) :: R')] else [])) (c0 :: cs') (as0 :: rows')
      (by simp [hc0, hRl])
    simp only [List.cons_append] at hP
    rw [hP]
    unfold batchOrder
    by_cases hsq : (rest ++ (if sp.kw then [kwCols ((a0, as0) :: R')] else [])).length + 1 = (as0 :: rows').length
    · rw [if_pos hsq] at hpre
      have hprobe : scripted sp pol (.batch [c0] [as0]) = .ok (renderCol sp [(a0, as0)]) := by
        simp [scripted, hlay, zipWithAns, ha0]
      have hne1 : ¬ ((rest1 ++ (if sp.kw then [kwCols [(a0, as0)]] else [])).length + 1 = 1) := by
        intro h1
        have e1 : (rest1 ++ (if sp.kw then [kwCols [(a0, as0)]] else [])).length = (rest ++ (if sp.kw then [kwCols ((a0, as0) :: R')] else [])).length := by
          cases hkw : sp.kw <;> simp only [Bool.false_eq_true, ↓reduceIte, List.append_nil, List.length_append, List.length_cons, List.length_nil] <;> omega
        rw [e1] at h1
        have hn1 : rows'.length + 1 = 1 := by rw [h1] at hsq; simpa using hsq.symm
        have hnc : ncols sp a0 + (if sp.kw then 1 else 0) = 1 := by
          cases hkw : sp.kw <;> simp only [hkw, Bool.false_eq_true, ↓reduceIte, List.append_nil, List.length_append, List.length_cons, List.length_nil] at h1 ⊢ <;> omega
        rcases hshape with h | h
        · exact h hnc
        · exact h hn1
      simp only [bind, Except.bind, hpre, firstOf, safeCall, hprobe, pure, Except.pure, hP1, List.cons_append, lenE_mkSeq, List.length_cons]
      rw [if_neg hne1]
    · rw [if_neg hsq] at hpre
      simp only [bind, Except.bind, hpre, pure, Except.pure]
  -- kwargs
  have hk : hasKwargs (renderCol sp ((a0, as0) :: R')) .col = sp.kw := by
    rw [hP]
    cases hkw : sp.kw
    · simp only [Bool.false_eq_true, ↓reduceIte, List.append_nil]
      obtain ⟨ini, lastc, hil⟩ : ∃ ini lastc, PyVal.list (.lrn 0) col0 :: rest = ini ++ [lastc] := by
        rcases List.eq_nil_or_concat (PyVal.list (.lrn 0) col0 :: rest) with h | ⟨i, l, h⟩
        · simp at h
        · exact ⟨i, l, by rw [h, List.concat_eq_append]⟩
      rw [hil, hasKwargs_col]
      have : lastc ∈ colsOf sp ((a0, as0) :: R') := by rw [hcols, hil]; simp
      exact hnd lastc this
    · simp only [↓reduceIte]
      rw [hasKwargs_col, kwCols_isDict]
  have hfr : firstRow (renderCol sp ((a0, as0) :: R')) .col sp.kw = .ok (colStd sp a0 as0) := by
    rw [hP]
    rw [hcols] at hfirst
    exact firstRow_cols sp.tup sp.kw col0 rest _ _ hfirst
  have hpf := predFormat_colStd fx sp a0 as0 hun hf hK
  unfold detect
  simp only [bind, Except.bind, pure, Except.pure] at hbo
  simp only [hl, bind, Except.bind, pure, Except.pure, hbo, hk, hfr, hpf]




theorem hint_isHint (f : Fmt) (hh : f.hinted = true) (r : Ref) (vs : List PyVal) :
    isHint (.dict r [f.hint] vs) = true := by
  cases f <;> simp [Fmt.hinted] at hh <;> simp [isHint, Fmt.hint]

/-- the hinted column-major answer -/
def hintDict (sp : Spec) (R : Rows) : PyVal :=
  .dict (.lrn 0) [sp.fmt.hint] [.list (.lrn 0) (R.map (fun r => hintVal sp r.1 r.2))]

theorem renderCol_hinted (sp : Spec) (R : Rows) (hne : R ≠ []) (hh : sp.fmt.hinted = true) :
    renderCol sp R = if sp.kw then mkSeq sp.tup [hintDict sp R, kwCols R] else hintDict sp R := by
  rw [renderCol_eq sp R hne]
  have hcols : colsOf sp R = [hintDict sp R] := by
    obtain ⟨fmt, kw, lay, tup, ptup⟩ := sp
    cases fmt <;> simp [Fmt.hinted] at hh <;> simp [colsOf, hintDict]
  cases hk : sp.kw <;> simp [hh, hcols]

theorem kwCols_keys (a0 : Answer) (as0 : List PyVal) (R' : Rows) :
    ∃ vs, kwCols ((a0, as0) :: R') = .dict (.lrn 0) a0.kwKeys vs := ⟨_, rfl⟩

theorem predFormat_hintRow (fx : Fixes) (sp : Spec) (a0 : Answer) (as0 : List PyVal) (hh : sp.fmt.hinted = true)
    (h : firstRowOK fx sp a0 as0 = true) :
    predFormat fx (.dict .tmp [sp.fmt.hint] [hintVal sp a0 as0]) (some as0) = .ok sp.pfmt := by
  obtain ⟨fmt, kw, lay, tup, ptup⟩ := sp
  simp only [firstRowOK, Bool.and_eq_true, decide_eq_true_eq] at h
  obtain ⟨⟨hp, _⟩, hf⟩ := h
  have hne : as0 ≠ [] := by intro h0; simp [h0] at hp
  cases fmt <;> simp [Fmt.hinted] at hh
  case dA => simpa [Spec.pfmt, Fmt.kind, Fmt.hinted, Fmt.hint, hintVal] using predFormat_dA_gen fx .tmp (a0.action as0) as0
  case dAP =>
    simpa [Spec.pfmt, Fmt.kind, Fmt.hinted, Fmt.hint, hintVal] using
      predFormat_dAP_gen fx .tmp (mkSeq tup [a0.action as0, a0.p]) _ _ as0 (items_mkSeq _ _)
  case dPM =>
    have hlen : a0.pmf.length = as0.length := by simpa using hf
    simpa [Spec.pfmt, Fmt.kind, Fmt.hinted, Fmt.hint, hintVal, mkPmf] using
      predFormat_dPM_gen fx .tmp (mkSeq ptup a0.pmf) a0.pmf as0 (items_mkSeq _ _) hne hlen




theorem keysSame_hint_kw (h : String) (vs : List PyVal) (ks : List String) (vs' : List PyVal) (r r' : Ref)
    (hn : ks.contains h = false) : keysSame (.dict r [h] vs) (.dict r' ks vs') = false := by
  simp only [keysSame, List.all_cons, hn, Bool.false_and]

theorem keysEq_dict_dict (r r' : Ref) (ks ks' : List String) (vs vs' : List PyVal) :
    keysEq (.dict r ks vs) (.dict r' ks' vs') = .ok (keysSame (.dict r ks vs) (.dict r' ks' vs')) := rfl

theorem hinted_col_facts (fx : Fixes) (sp : Spec) (a0 : Answer) (as0 : List PyVal) (R' : Rows) (cs : List PyVal) (rows : List (List PyVal))
    (probe : Except Err PyVal)
    (hh : sp.fmt.hinted = true) (hn : rows.length = R'.length + 1)
    (hc : colFirstOK sp a0 (R'.length + 1) = true) (hf : firstRowOK fx sp a0 as0 = true) :
    validOut fx (renderCol sp ((a0, as0) :: R')) (R'.length + 1) = true ∧
    batchOrder fx probe (renderCol sp ((a0, as0) :: R')) (.batch cs rows) 1 = .ok .col ∧
    hasKwargs (renderCol sp ((a0, as0) :: R')) .col = sp.kw ∧
    firstRow (renderCol sp ((a0, as0) :: R')) .col sp.kw = .ok (.dict .tmp [sp.fmt.hint] [hintVal sp a0 as0]) := by
  rw [renderCol_hinted sp _ (by simp) hh]
  simp only [colFirstOK, hh, ↓reduceIte, Bool.or_eq_true, Bool.not_eq_true'] at hc
  obtain ⟨kvs, hkv⟩ := kwCols_keys a0 as0 R'
  have hH : ∀ vs, isHint (.dict (.lrn 0) [sp.fmt.hint] vs) = true := fun vs => hint_isHint sp.fmt hh (.lrn 0) vs
  cases hk : sp.kw
  · simp only [Bool.false_eq_true, ↓reduceIte, hintDict]
    refine ⟨?_, ?_, ?_, ?_⟩
    · simp [validOut, lenOr0, PyVal.len]
    · simp [batchOrder, batchOrderPre, allDicts, iter, PyVal.isDict, bind, Except.bind, pure, Except.pure]
    · simp [hasKwargs, getLast]
    · simp [firstRow, firstOfEach, getIdx, bind, Except.bind, pure, Except.pure]
  · have hnk : a0.kwKeys.contains sp.fmt.hint = false := by
      rcases hc with h | h
      · rw [hk] at h; cases h
      · exact h
    have hks : ∀ vs, keysSame (.dict (.lrn 0) [sp.fmt.hint] vs) (.dict (.lrn 0) a0.kwKeys kvs) = false :=
      fun vs => keysSame_hint_kw sp.fmt.hint vs a0.kwKeys kvs (.lrn 0) (.lrn 0) hnk
    simp only [↓reduceIte, hintDict, hkv]
    refine ⟨?_, ?_, ?_, ?_⟩
    · cases sp.tup <;>
        simp [mkSeq, validOut, PyVal.isDict, keysEq_dict_dict, hks, hH, lenOr0, PyVal.len]
    · cases sp.tup <;>
        simp [mkSeq, batchOrder, batchOrderPre, allDicts, iter, PyVal.isDict, getIdx, getLast, keysEq_dict_dict, hks, hH, PyVal.len,
          bind, Except.bind, pure, Except.pure]
    · cases sp.tup <;> simp [mkSeq, hasKwargs, getLast, PyVal.isDict]
    · cases sp.tup <;> simp [mkSeq, firstRow, firstOfEach, getIdx, PyVal.isDict, bind, Except.bind, pure, Except.pure]




theorem predictCore_col (fx : Fixes) (sp : Spec) (pol : Policy) (st : State) (cs : List PyVal) (rows : List (List PyVal))
    (hlay : sp.layout = .col) (hinv : Inv sp true st)
    (hlen : cs.length = rows.length) (hne : rows ≠ [])
    (hok : colParseOK fx sp = true) (ht : pmfTable sp (zipWithAns pol cs rows) = true)
    (hfirst : st.layout = Option.none → ∀ r R', zipWithAns pol cs rows = r :: R' →
        firstRowOK fx sp r.1 r.2 = true ∧ colFirstOK sp r.1 (R'.length + 1) = true) :
    Delivers (predictCore fx (scripted sp pol) st (.batch cs rows)) (wantBatch sp st.rng (zipWithAns pol cs rows))
      (stAfter sp true st) := by
  obtain ⟨c0, cs', rfl⟩ : ∃ c0 cs', cs = c0 :: cs' := by
    cases cs with
    | nil => cases rows <;> simp_all
    | cons c cs => exact ⟨c, cs, rfl⟩
  obtain ⟨as0, rows', rfl⟩ : ∃ a r, rows = a :: r := by
    cases rows with
    | nil => exact absurd rfl hne
    | cons a r => exact ⟨a, r, rfl⟩
  have hsnd := zipWithAns_snd pol (c0 :: cs') (as0 :: rows') hlen
  have hRlen := zipWithAns_length pol (c0 :: cs') (as0 :: rows') hlen
  have hlen' : cs'.length = rows'.length := by simpa using hlen
  have hR'len := zipWithAns_length pol cs' rows' hlen'
  set R := zipWithAns pol (c0 :: cs') (as0 :: rows') with hR
  have hRcons : R = (pol c0 as0, as0) :: zipWithAns pol cs' rows' := rfl
  have hRne : R ≠ [] := by rw [hRcons]; simp
  have hLbatch : scripted sp pol (.batch (c0 :: cs') (as0 :: rows')) = .ok (renderCol sp R) := by
    simp [scripted, hlay, hR]
  have hparse : ∀ st2 : State, st2.hasKw = sp.kw → st2.rng = st.rng →
      DeliversN (parseCol fx st2 sp.pfmt (as0 :: rows') (renderCol sp R)) (wantBatch sp st.rng R) := by
    intro st2 h1 h2
    have := parseCol_cols fx sp st2 h1 R hRne hok ht
    rw [hsnd, h2] at this
    exact this
  have hstA : ∀ s, stAfter sp true st s = { st with rng := s, method := some 1, layout := some BLayout.col, hasKw := sp.kw, fmt := some sp.pfmt } := by
    intro s; simp [stAfter, hlay]
  rcases hinv with ⟨hm, hl⟩ | hst
  · obtain ⟨hf, hc⟩ := hfirst hl _ _ hRcons
    simp only at hf hc
    rw [hR'len] at hc
    -- validity and detection
    have hvd : validOut fx (renderCol sp R) (c0 :: cs').length = true ∧
        detect fx (scripted sp pol) { st with method := some 1 } (.batch (c0 :: cs') (as0 :: rows')) (renderCol sp R) 1 =
          .ok { st with method := some 1, layout := some .col, hasKw := sp.kw, fmt := some sp.pfmt } := by
      cases hh : sp.fmt.hinted
      · -- un-hinted
        obtain ⟨⟨col0, rest, hcols, hc0⟩, _, _, _, _⟩ := colsOf_shape sp (pol c0 as0) as0 (zipWithAns pol cs' rows') hh (by rw [← hRcons]; exact ht)
        refine ⟨?_, ?_⟩
        · have hrend : renderCol sp R = mkSeq sp.tup (.list (.lrn 0) col0 :: (rest ++ (if sp.kw then [kwCols R] else []))) := by
            rw [renderCol_eq sp R hRne, hRcons, hcols]
            cases hk : sp.kw <;> simp [hh]
          rw [hrend]
          exact validOut_cols fx sp.tup col0 _ _ (by simp [hc0, hR'len, hlen'])
        · have := detect_cols fx sp pol { st with method := some 1 } c0 cs' as0 rows' (zipWithAns pol cs' rows') hlay hh hl hR'len rfl hf
            (by exact hc) (by rw [← hRcons]; exact ht)
          rw [← hRcons] at this
          exact this
      · obtain ⟨h1, h2, h3, h4⟩ := hinted_col_facts fx sp (pol c0 as0) as0 (zipWithAns pol cs' rows') (c0 :: cs') (as0 :: rows')
          (do let a1 ← firstOf (.batch (c0 :: cs') (as0 :: rows')); let r ← safeCall fx (scripted sp pol) (some 1) a1; pure r.1)
          hh (by simp [hR'len]) (by rw [hR'len]; exact hc) hf
        rw [← hRcons] at h1 h2 h3 h4
        refine ⟨by simpa [hR'len, hlen'] using h1, ?_⟩
        have hpf := predFormat_hintRow fx sp (pol c0 as0) as0 hh hf
        unfold detect
        simp only [bind, Except.bind, pure, Except.pure] at h2
        simp only [hl, bind, Except.bind, pure, Except.pure, h2, h3, h4, hpf]
    obtain ⟨hvalid, hdet⟩ := hvd
    have hp := hparse { st with method := some 1, layout := some .col, hasKw := sp.kw, fmt := some sp.pfmt } rfl rfl
    have := deliversN_to_delivers _ _ (stAfter sp true st) hp
    simp only [predictCore, safeCall, hm, hLbatch, hvalid, ↓reduceIte, bind, Except.bind, pure, Except.pure, hdet, parse]
    generalize parseCol fx _ sp.pfmt (as0 :: rows') (renderCol sp R) = x at this ⊢
    cases x with
    | error e => simpa [liftSt] using this
    | ok v => simpa [liftSt, hstA] using this
  · obtain ⟨hm, hl, hk, hf⟩ := inv_after hst
    rw [hlay] at hm hl
    replace hm : st.method = some 1 := by rw [hm]; rfl
    replace hl : st.layout = some BLayout.col := by rw [hl]; rfl
    clear hst
    have hp := hparse st hk rfl
    have := deliversN_to_delivers _ _ (stAfter sp true st) hp
    simp only [predictCore, safeCall, hm, hLbatch, bind, Except.bind, pure, Except.pure, detect, hl, parse, hf]
    have hsteq : ({ st with method := some 1, layout := some BLayout.col, fmt := some sp.pfmt } : State) = st := by
      cases st; simp_all
    rw [hsteq]
    have hst' : ∀ s, stAfter sp true st s = { st with rng := s, method := some 1, layout := some BLayout.col, fmt := some sp.pfmt } := by
      intro s; simp [stAfter, hlay, hk]
    generalize parseCol fx _ sp.pfmt (as0 :: rows') (renderCol sp R) = x at this ⊢
    cases x with
    | error e => simpa [liftSt] using this
    | ok v => simpa [liftSt, hst'] using this




/-- every documented format, batched: what the evaluator receives is what the learner said -/
theorem format_roundtrip_batch' (fx : Fixes) (sp : Spec) (pol : Policy) (st : State) (cs : List PyVal) (rows : List (List PyVal))
    (hinv : Inv sp true st) (hlen : cs.length = rows.length) (hne : rows ≠ [])
    (hU : Unambiguous fx sp st (rowsOf pol cs rows) = true) :
    Delivers (predictCore fx (scripted sp pol) st (.batch cs rows)) (wantBatch sp st.rng (rowsOf pol cs rows))
      (stAfter sp true st) := by
  simp only [Unambiguous, Bool.and_eq_true, Bool.or_eq_true, rowsOf] at hU ⊢
  obtain ⟨hcall, hfirst⟩ := hU
  have hfirst' : st.layout = Option.none → firstCallOK fx sp (zipWithAns pol cs rows) = true := by
    intro h; rcases hfirst with h' | h'
    · rw [h] at h'; simp at h'
    · exact h'
  cases hlay : sp.layout
  case col =>
    simp only [callOK, hlay, Bool.and_eq_true] at hcall
    refine predictCore_col fx sp pol st cs rows hlay hinv hlen hne hcall.1 hcall.2 ?_
    intro hl r R' hR
    have := hfirst' hl
    rw [hR] at this
    simpa [firstCallOK, hlay] using this
  case row =>
    simp only [callOK, hlay, Bool.or_eq_true, Bool.not_eq_true'] at hcall
    refine predictCore_row fx sp pol st cs rows hlay hinv hlen hne ?_ ?_
    · intro hk; rcases hcall with h | h
      · rw [hk] at h; cases h
      · exact h
    · intro hl r R' hR
      have := hfirst' hl
      rw [hR] at this
      simpa [firstCallOK, hlay] using this
  case single =>
    simp only [callOK, hlay, Bool.or_eq_true, Bool.not_eq_true'] at hcall
    refine predictCore_perrow fx sp pol st cs rows hlay hinv hlen hne ?_ ?_
    · intro hk; rcases hcall with h | h
      · rw [hk] at h; cases h
      · exact h
    · intro hl r R' hR
      have := hfirst' hl
      rw [hR] at this
      simpa [firstCallOK, hlay] using this




/-! concrete witnesses: the recorded defects of the pinned code and their repair -/

def errOf {α} : Except Err α → Option Err | .error e => some e | .ok _ => Option.none

/-- (number of actions, number of probabilities) a batched result holds -/
def lensOf (x : Except Err (Result × State)) : Option (Nat × Nat) :=
  match x with
  | .ok (r, _) => (match r.view with | some v => some (v.A.length, v.P.length) | Option.none => Option.none)
  | .error _ => Option.none

/-- numeric values of the returned actions and probabilities -/
def numsOf (x : Except Err (Result × State)) : Option (List (Option Rat) × List (Option Rat)) :=
  match x with
  | .ok (r, _) => (match r.view with | some v => some (v.A.map PyVal.num, v.P.map PyVal.num) | Option.none => Option.none)
  | .error _ => Option.none

def exStr (n : Nat) (s : String) : PyVal := .str (.ext n) s
def exD2 (j : Int) (n : Nat) : PyVal := .dict (.ext n) ["x", "y"] [.int j, .int 7]
def exSparse (k : String) (n : Nat) : PyVal := .dict (.ext n) [k] [.int 1]

/-- the learner of the witnesses: row i (context i) names action `pick i` / gives the one-hot PMF at `hot i` -/
def exPol (pick hot : Nat → Nat) (K : Nat) : Policy := fun c _ =>
  match c with
  | .int i => ⟨pick i.toNat, .flt (.lrn 1) (1/4), (List.range K).map (fun j => PyVal.int (if j = hot i.toNat then 1 else 0)), ["k"], [.int (5 + i)]⟩
  | _ => ⟨0, .none, [], [], []⟩

def ctxs (n : Nat) : List PyVal := (List.range n).map (fun i => PyVal.int i)

-- C15-F1a  un-hinted bare sparse action with two features
theorem pinned_short_dict_counterexample' :
    errOf (predict Fixes.none (scripted { fmt := .A, kw := false, layout := .single } (exPol (fun _ => 0) (fun _ => 0) 2)) (initState 1)
      (.single (.int 0) [exD2 2 1, exD2 3 2])) = some .key := by decide
-- C15-F1b  un-hinted bare one-item tuple
theorem pinned_short_tuple_counterexample' :
    errOf (predict Fixes.none (scripted { fmt := .A, kw := false, layout := .single } (exPol (fun _ => 0) (fun _ => 0) 2)) (initState 1)
      (.single (.int 0) [.tuple (.ext 1) [.int 5], .tuple (.ext 2) [.int 6]])) = some .coba := by decide
-- C15-F2  batched 0/1 actions, un-hinted PMF read as (action, prob)
theorem pinned_batched01_counterexample' :
    numsOf (predict Fixes.none (scripted { fmt := .PM, kw := false, layout := .row } (exPol (fun _ => 0) (fun i => 1 - i) 2)) (initState 1)
      (.batch (ctxs 2) [[.int 0, .int 1], [.int 0, .int 1]])) = some ([some 0, some 1], [some 1, some 0]) := by decide
theorem fixed_batched01' :
    numsOf (predict Fixes.all (scripted { fmt := .PM, kw := false, layout := .row } (exPol (fun _ => 0) (fun i => 1 - i) 2)) (initState 1)
      (.batch (ctxs 2) [[.int 0, .int 1], [.int 0, .int 1]])) = some ([some 1, some 0], [some 1, some 1]) := by decide +kernel
-- C15-F3a  column-major bare actions with kwargs: the column comes back wrapped
theorem pinned_colA_counterexample' :
    lensOf (predict Fixes.none (scripted { fmt := .A, kw := true, layout := .col } (exPol (fun i => i) (fun _ => 0) 2)) (initState 1)
      (.batch (ctxs 2) [[exStr 1 "aa", exStr 2 "bb"], [exStr 1 "aa", exStr 2 "bb"]])) = some (1, 1) := by decide
theorem fixed_colA' :
    lensOf (predict Fixes.all (scripted { fmt := .A, kw := true, layout := .col } (exPol (fun i => i) (fun _ => 0) 2)) (initState 1)
      (.batch (ctxs 2) [[exStr 1 "aa", exStr 2 "bb"], [exStr 1 "aa", exStr 2 "bb"]])) = some (2, 2) := by decide
-- C15-F3c  column-major PMFs, non-square batch
theorem pinned_colPM_counterexample' :
    errOf (predict Fixes.none (scripted { fmt := .PM, kw := false, layout := .col } (exPol (fun _ => 0) (fun i => 2 * i) 3)) (initState 1)
      (.batch (ctxs 2) [[exStr 1 "aa", exStr 2 "bb", exStr 3 "cc"], [exStr 1 "aa", exStr 2 "bb", exStr 3 "cc"]])) = some .value := by decide +kernel
-- C15-F3e  column-major hinted answer with kwargs
theorem pinned_colHintKw_counterexample' :
    errOf (predict Fixes.none (scripted { fmt := .dA, kw := true, layout := .col } (exPol (fun i => i) (fun _ => 0) 2)) (initState 1)
      (.batch (ctxs 2) [[exStr 1 "aa", exStr 2 "bb"], [exStr 1 "aa", exStr 2 "bb"]])) = some .attr := by decide
-- C15-F4  row-major bare sparse actions with different feature names
theorem pinned_sparseRows_counterexample' :
    errOf (predict Fixes.none (scripted { fmt := .A, kw := false, layout := .row } (exPol (fun i => i) (fun _ => 0) 2)) (initState 1)
      (.batch (ctxs 2) [[exSparse "f0" 1, exSparse "f1" 2], [exSparse "f0" 1, exSparse "f1" 2]])) = some .coba := by decide
theorem fixed_sparseRows' :
    lensOf (predict Fixes.all (scripted { fmt := .A, kw := false, layout := .row } (exPol (fun i => i) (fun _ => 0) 2)) (initState 1)
      (.batch (ctxs 2) [[exSparse "f0" 1, exSparse "f1" 2], [exSparse "f0" 1, exSparse "f1" 2]])) = some (2, 2) := by decide



theorem toRats_of_valid (pmf : List PyVal) :
    (∀ x ∈ pmf, ∃ q, x.num = some q) → ∃ qs, toRats pmf = some qs ∧ sumNums pmf = some qs.sum ∧ qs.length = pmf.length ∧
      ∀ (i : Nat) (x : PyVal), pmf[i]? = some x → ∃ q, x.num = some q ∧ qs[i]? = some q := by
  induction pmf with
  | nil => intro _; exact ⟨[], rfl, rfl, rfl, by intro i x h; simp at h⟩
  | cons x xs ih =>
    intro h
    obtain ⟨q, hq⟩ := h x (by simp)
    obtain ⟨qs, h1, h2, h3, h4⟩ := ih (fun y hy => h y (by simp [hy]))
    refine ⟨q :: qs, by simp [toRats, hq, h1], by simp [sumNums, hq, h2], by simp [h3], ?_⟩
    intro i y hy
    cases i with
    | zero => simp at hy; subst hy; exact ⟨q, hq, rfl⟩
    | succ i => simp at hy; simpa using h4 i y hy

/-- a PMF is sampled by `CobaRandom.choicew`: one uniform is consumed, the action drawn is one of the offered actions
and the probability reported is exactly the PMF's entry for it, which is positive -/
theorem pmf_prob_reported' (s : Nat) (as pmf : List PyVal) (v : PyVal) (hv : v.items = some pmf)
    (hp : validPmf pmf as = true) :
    ∃ (i : Nat) (a p : PyVal) (q : Rat), choicew s as v = .ok (Coba.C05.next s, a, p) ∧ as[i]? = some a ∧ pmf[i]? = some p ∧ p.num = some q ∧ 0 < q := by
  simp only [validPmf, Bool.and_eq_true, beq_iff_eq] at hp
  obtain ⟨⟨hlen, hsum⟩, hnn⟩ := hp
  have hnum : ∀ x ∈ pmf, ∃ q, x.num = some q := by
    intro x hx
    have := List.all_eq_true.mp hnn x hx
    cases hq : x.num with
    | none => simp [hq] at this
    | some q => exact ⟨q, rfl⟩
  obtain ⟨qs, h1, h2, h3, h4⟩ := toRats_of_valid pmf hnum
  have hs1 : 0 < qs.sum := by
    simp only [h2, decide_eq_true_eq] at hsum; linarith [hsum.2]
  have hnn' : ∀ w ∈ qs, 0 ≤ w := by
    intro w hw
    obtain ⟨i, hi, hiw⟩ := List.getElem_of_mem hw
    have hi' : i < pmf.length := by rw [← h3]; exact hi
    obtain ⟨q, hq1, hq2⟩ := h4 i pmf[i] (List.getElem?_eq_getElem hi')
    have : q = w := by
      rw [List.getElem?_eq_getElem hi] at hq2; simpa [hiw] using hq2.symm
    subst this
    have := List.all_eq_true.mp hnn pmf[i] (List.getElem_mem hi')
    simpa [hq1] using this
  have hpos : 0 < Coba.C05.sum qs := by rw [Coba.C05.sum_eq]; exact hs1
  obtain ⟨i, w, hc, hw, hwpos⟩ := Coba.C05.choicew_weight' s as.length qs (by rw [h3, hlen]) hnn' hpos
  have hi : i < qs.length := by
    by_contra hcon
    have : qs[i]? = Option.none := by simp at hcon; simp [hcon]
    rw [this] at hw; cases hw
  have hip : i < pmf.length := by rw [← h3]; exact hi
  have hia : i < as.length := by rw [← hlen]; exact hip
  obtain ⟨q, hq1, hq2⟩ := h4 i pmf[i] (List.getElem?_eq_getElem hip)
  have hqw : q = w := by rw [hw] at hq2; simpa using hq2.symm
  refine ⟨i, as[i], pmf[i], q, ?_, List.getElem?_eq_getElem hia, List.getElem?_eq_getElem hip, hq1, by rw [hqw]; exact hwpos⟩
  have hvn : v ≠ .none := by intro h; rw [h] at hv; simp [PyVal.items] at hv
  have hne : ¬ (pmf ≠ [] ∧ pmf.length ≠ as.length) := by intro h; exact h.2 hlen
  cases v <;> simp [PyVal.items] at hv <;> subst hv <;>
    simp [choicew, PyVal.items, hne, h1, hc, List.getElem?_eq_getElem hia, List.getElem?_eq_getElem hip]




/-- which un-hinted two-item answers are read as (action, prob): exactly those whose first item IS one of the offered
objects - whatever the learner meant by them (a two-action PMF, a two-feature action, a real (action, prob)) -/
theorem ambiguity_two_items' (fx : Fixes) (v x y : PyVal) (as : List PyVal) (hv : v.items = some [x, y]) (hne : as ≠ []) :
    predFormat fx v (some as) = .ok ⟨.AP, false⟩ ↔ as.any (fun a => pyIs x a) = true := by
  constructor
  · intro h
    by_contra hcon
    have hx : as.any (fun a => pyIs x a) = false := by simpa using hcon
    have hx' : ¬ ∃ a ∈ as, pyIs x a = true := by simpa using hx
    have hemp : as.isEmpty = false := by cases as <;> simp_all
    obtain ⟨f1, f2, f3, f4, f5⟩ := seq_facts hv
    unfold predFormat at h
    simp only [f1, f2, f3, f4, f5, Option.getD_some, hemp, List.length_cons, List.length_nil] at h
    cases hs : fx.short <;> simp [hs, hx, hx', bind, Except.bind, pure, Except.pure] at h
    all_goals (split at h <;> try (split at h) <;> try (split at h))
    all_goals (revert h; decide)
  · exact predFormat_AP fx v x y as hv




/-! ### the float copies -/

theorem makeSafe_spec (k : Nat) (a : PyVal) :
    (makeSafe k a = a ∧ a ≠ .int 0 ∧ a ≠ .int 1 ∧ ∀ b, a ≠ .bool b) ∨
    (∃ q, makeSafe k a = .flt (.safe k) q ∧ a.num = some q ∧ pyEq (makeSafe k a) a = true) := by
  cases a with
  | bool b => right; cases b <;> exact ⟨_, rfl, rfl, by simp [makeSafe, pyEq, PyVal.num]⟩
  | int i =>
    by_cases h : i = 0 ∨ i = 1
    · right
      refine ⟨(i : Rat), by simp [makeSafe, h], rfl, ?_⟩
      simp [makeSafe, h, pyEq, PyVal.num]
    · left
      have h0 : i ≠ 0 := fun e => h (Or.inl e)
      have h1 : i ≠ 1 := fun e => h (Or.inr e)
      refine ⟨by simp [makeSafe, h], ?_, ?_, ?_⟩ <;> simp [h0, h1]
  | none | flt _ _ | str _ _ | tuple _ _ | list _ _ | dict _ _ _ => left; simp [makeSafe]

theorem mapIdxFrom_mem {α β} (f : Nat → α → β) (i : Nat) (xs : List α) (y : β) (h : y ∈ mapIdxFrom f i xs) :
    ∃ k x, x ∈ xs ∧ y = f k x := by
  induction xs generalizing i with
  | nil => simp [mapIdxFrom] at h
  | cons x xs ih =>
    simp only [mapIdxFrom, List.mem_cons] at h
    rcases h with rfl | h
    · exact ⟨i, x, by simp, rfl⟩
    · obtain ⟨k, x', hx, hy⟩ := ih (i + 1) h
      exact ⟨k, x', by simp [hx], hy⟩

/-- after `SafeLearner.predict`'s substitution no offered action is the int 0, the int 1 or a bool any more: every such
action has been replaced by a float object of its own (`Ref.safe`) -/
theorem safeRow_no01' (r : Nat) (as : List PyVal) :
    ∀ a ∈ safeRow r as, a ≠ .int 0 ∧ a ≠ .int 1 ∧ ∀ b, a ≠ .bool b := by
  intro a ha
  unfold safeRow at ha
  split at ha
  · obtain ⟨k, x, _, rfl⟩ := mapIdxFrom_mem _ _ _ _ ha
    rcases makeSafe_spec (r * 4096 + k) x with ⟨h1, h2⟩ | ⟨q, h1, _⟩
    · rw [h1]; exact h2
    · rw [h1]; simp
  · rename_i hno
    have hno' : as.any isZeroOne = false := by simpa using hno
    have hz : isZeroOne a = false := by
      have := List.any_eq_false.mp hno' a ha
      simpa using this
    refine ⟨?_, ?_, ?_⟩
    · rintro rfl; simp [isZeroOne, PyVal.num] at hz
    · rintro rfl; simp [isZeroOne, PyVal.num] at hz
    · rintro b rfl; cases b <;> simp [isZeroOne, PyVal.num] at hz

theorem mapIdxFrom_forall₂ {α β} (f : Nat → α → β) (P : β → α → Prop) (hf : ∀ k x, P (f k x) x) (i : Nat) (xs : List α) :
    List.Forall₂ P (mapIdxFrom f i xs) xs := by
  induction xs generalizing i with
  | nil => exact List.Forall₂.nil
  | cons x xs ih => exact List.Forall₂.cons (hf i x) (ih (i + 1))

/-- the learner is given, position by position, the offered action itself or a float equal to it (Python `==`) -/
theorem safeRow_values' (r : Nat) (as : List PyVal) :
    List.Forall₂ (fun s a => s = a ∨ pyEq s a = true) (safeRow r as) as := by
  unfold safeRow
  split
  · apply mapIdxFrom_forall₂
    intro k x
    rcases makeSafe_spec (r * 4096 + k) x with ⟨h1, _⟩ | ⟨q, _, _, h3⟩
    · exact Or.inl h1
    · exact Or.inr h3
  · exact List.forall₂_same.mpr (fun a _ => Or.inl rfl)

/-- the entries of a PMF a learner builds (fresh floats, or the ints 0/1) are none of the offered objects once the
float copies are in place: the side condition of `firstRowOK` for two-action PMFs then holds by construction -/
theorem pmf_entry_fresh' (x : PyVal) (as : List PyVal)
    (hx : (∃ k q, x = .flt (.lrn k) q) ∨ x = .int 0 ∨ x = .int 1)
    (hsafe : ∀ a ∈ as, a ≠ .int 0 ∧ a ≠ .int 1) (hl : ∀ a ∈ as, isLrn a = false) :
    as.any (fun a => pyIs x a) = false := by
  rw [List.any_eq_false]
  intro a ha
  obtain ⟨h0, h1⟩ := hsafe a ha
  have hla := hl a ha
  rcases hx with ⟨k, q, rfl⟩ | rfl | rfl
  · cases a <;> simp [pyIs]
    rename_i r _
    cases r <;> simp_all [isLrn]
  · cases a <;> simp [pyIs]
    rename_i i; intro h; subst h; exact h0 rfl
  · cases a <;> simp [pyIs]
    rename_i i; intro h; subst h; exact h1 rfl




/-! ### `learn`: what predict returned goes back to the learner -/

/-- unbatched, or a learner that takes batches: one call, with exactly the kwargs predict returned -/
theorem learn_kwargs_whole' (arg : Arg) (r : Result) (reward : PyVal) (ks : List String) (vs : List PyVal) (ref : Ref)
    (hk : r.kw = .dict ref ks vs) :
    (∀ c as, arg = .single c as → learn true arg r reward = .ok [⟨c, r.a, reward, r.p, ks, vs⟩] ∧
                                   learn false arg r reward = .ok [⟨c, r.a, reward, r.p, ks, vs⟩]) ∧
    (∀ cs rows, arg = .batch cs rows → learn true arg r reward = .ok [⟨.list .tmp cs, r.a, reward, r.p, ks, vs⟩]) := by
  constructor
  · intro c as h; subst h; simp [learn, hk, pure, Except.pure]
  · intro cs rows h; subst h; simp [learn, hk, pure, Except.pure]

/-- a learner that cannot take batches: row i is given the i-th entry of every kwargs column -/
theorem learnRows_kwargs' (ks : List String) (cols : List (List PyVal)) (ref : Ref) :
    ∀ (i : Nat) (cs A R P : List PyVal), (∀ c ∈ cols, i + cs.length ≤ c.length) → A.length = cs.length → R.length = cs.length →
      P.length = cs.length →
      ∃ calls, learnRows i cs A R P ks (cols.map (fun c => PyVal.list ref c)) = .ok calls ∧ calls.length = cs.length ∧
        ∀ (j : Nat) (call : LearnCall), calls[j]? = some call →
          call.kwKeys = ks ∧ call.kwVals = cols.map (fun c => c.getD (i + j) .none) ∧
          cs[j]? = some call.ctx ∧ A[j]? = some call.action ∧ R[j]? = some call.reward ∧ P[j]? = some call.prob := by
  intro i cs
  induction cs generalizing i with
  | nil =>
    intro A R P _ hA hR hP
    refine ⟨[], ?_, rfl, by intro j c h; simp at h⟩
    cases A <;> cases R <;> cases P <;> simp_all [learnRows, pure, Except.pure]
  | cons c cs ih =>
    intro A R P hc hA hR hP
    obtain ⟨a, A', rfl⟩ : ∃ a A', A = a :: A' := by cases A <;> simp_all
    obtain ⟨r, R', rfl⟩ : ∃ a A', R = a :: A' := by cases R <;> simp_all
    obtain ⟨p, P', rfl⟩ : ∃ a A', P = a :: A' := by cases P <;> simp_all
    have hkv : mapE (fun v => getIdx v i) (cols.map (fun c => PyVal.list ref c)) = .ok (cols.map (fun c => c.getD i .none)) := by
      apply mapE_map_ok
      intro col hcol
      have hi : i < col.length := by have := hc col hcol; simp at this; omega
      simp [getIdx, List.getElem?_eq_getElem hi, List.getD_eq_getElem?_getD]
    obtain ⟨calls, h1, h2, h3⟩ := ih (i + 1) A' R' P' (by intro col hcol; have := hc col hcol; simp at this ⊢; omega)
      (by simpa using hA) (by simpa using hR) (by simpa using hP)
    refine ⟨⟨c, a, r, p, ks, cols.map (fun c => c.getD i .none)⟩ :: calls, ?_, by simp [h2], ?_⟩
    · simp [learnRows, hkv, h1, bind, Except.bind, pure, Except.pure]
    · intro j call hj
      cases j with
      | zero => simp at hj; subst hj; simp
      | succ j =>
        simp at hj
        obtain ⟨g1, g2, g3, g4, g5, g6⟩ := h3 j call hj
        refine ⟨g1, ?_, by simpa using g3, by simpa using g4, by simpa using g5, by simpa using g6⟩
        rw [g2]; congr 1; funext col; congr 1; omega

/-! ### a learner that cannot handle batches is called once per row -/

theorem perrow_calls' (fx : Fixes) (sp : Spec) (pol : Policy) (m : Option Nat) (cs : List PyVal) (rows : List (List PyVal))
    (hlay : sp.layout = .single) (hm : m = Option.none ∨ m = some 2) :
    (safeCallTrace fx (scripted sp pol) m (.batch cs rows)).filter (fun a => !isBatchArg a) = perRowArgs cs rows := by
  have hL : scripted sp pol (.batch cs rows) = .error .learner := by simp [scripted, hlay]
  have hmem : ∀ (cs : List PyVal) (rows : List (List PyVal)), ∀ a ∈ perRowArgs cs rows, isBatchArg a = false := by
    intro cs
    induction cs with
    | nil => intro rows a ha; cases rows <;> simp [perRowArgs] at ha
    | cons c cs ih => intro rows a ha; cases rows with
      | nil => simp [perRowArgs] at ha
      | cons r rows =>
        simp only [perRowArgs, List.mem_cons] at ha
        rcases ha with rfl | ha
        · rfl
        · exact ih rows a ha
  have hper : (perRowArgs cs rows).filter (fun a => !isBatchArg a) = perRowArgs cs rows := by
    rw [List.filter_eq_self]
    intro a ha; simp [hmem cs rows a ha]
  rcases hm with rfl | rfl
  · have e : (safeCallTrace fx (scripted sp pol) Option.none (.batch cs rows)) = .batch cs rows :: perRowArgs cs rows := by
      simp only [safeCallTrace, hL]
    rw [e, List.filter_cons]
    simp only [isBatchArg, Bool.not_true, Bool.false_eq_true, ↓reduceIte]
    exact hper
  · simp only [safeCallTrace, hper]




/-! ### glue: `predict` = float copies, then the core; the memoised detection is an invariant -/

theorem predict_prepare' (fx : Fixes) (L : Learner) (st : State) (arg : Arg) :
    predict fx L st arg = predictCore fx L (prepare fx st arg).1 (prepare fx st arg).2 := rfl

/-- `prepare` touches only `_prev_actions` / `_safe_actions` -/
theorem prepare_frame' (fx : Fixes) (st : State) (arg : Arg) :
    (prepare fx st arg).1.rng = st.rng ∧ (prepare fx st arg).1.method = st.method ∧ (prepare fx st arg).1.layout = st.layout ∧
    (prepare fx st arg).1.hasKw = st.hasKw ∧ (prepare fx st arg).1.fmt = st.fmt := by
  unfold prepare
  simp only
  split <;> (try split) <;> simp

theorem inv_prepare' (fx : Fixes) (sp : Spec) (b : Bool) (st : State) (arg : Arg) (h : Inv sp b st) :
    Inv sp b (prepare fx st arg).1 := by
  obtain ⟨h1, h2, h3, h4, h5⟩ := prepare_frame' fx st arg
  rcases h with ⟨hm, hl⟩ | hst
  · exact Or.inl ⟨by rw [h2, hm], by rw [h3, hl]⟩
  · right
    obtain ⟨g1, g2, g3, g4⟩ := inv_after hst
    generalize (prepare fx st arg).1 = st1 at *
    cases st1
    simp only at h1 h2 h3 h4 h5
    subst h1 h2 h3 h4 h5
    simp [stAfter, g1, g2, g3, g4]

theorem inv_stAfter' (sp : Spec) (b : Bool) (st : State) (s : Nat) : Inv sp b (stAfter sp b st s) := by
  right; simp [stAfter]

/-- what the learner is given in place of the offered actions: on a fresh or changed action set the float copies of the
repaired `predict` (every row of a batch) -/
theorem prepare_given' (st : State) (arg : Arg) (h : st.prev = Option.none) :
    (prepare Fixes.all st arg).2 =
      (match arg with
       | .single c as => .single c (safeRow 0 as)
       | .batch cs rows => .batch cs (mapIdxFrom safeRow 0 rows)) := by
  cases arg <;> simp [prepare, h, argActs, safeActs, withActs, Fixes.all]

theorem wantBatch_layout' (sp : Spec) (l : Layout) (s : Nat) (R : Rows) :
    wantBatch { sp with layout := l } s R = wantBatch sp s R := rfl


end Coba.C15
