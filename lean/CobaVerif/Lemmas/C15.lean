import CobaVerif.Model.C15

namespace Coba.C15

theorem fixes_all_short' : Fixes.all.short = true := rfl

end Coba.C15
