/-
Phase-5 lemmas for C15: nan tokens compute Python's container comparison; `possible_pmf` as the source expression over the
generated constants; `pred_format`'s decision table.
-/
import CobaVerif.Lemmas.C15P4
import CobaVerif.Generated.C15PredFormat
import Mathlib.Tactic.Linarith
import Mathlib.Tactic.Ring
import Mathlib.Algebra.Order.Field.Rat

namespace Coba.C15
open PyVal

/-! ### nan -/

theorem Ref.code_inj {r r' : Ref} (h : r.code = r'.code) : r = r' := by
  cases r <;> cases r' <;> simp [Ref.code] at h ⊢ <;> omega

theorem nanVal_inj {j k : Nat} (h : nanVal j = nanVal k) : j = k := by
  unfold nanVal at h
  have : (j : Rat) = (k : Rat) := by linarith
  exact_mod_cast this

theorem nanVal_lt (k : Nat) : nanVal k < nanBound := by
  unfold nanVal
  have : (0 : Rat) ≤ (k : Rat) := Nat.cast_nonneg k
  linarith

theorem isNanVal_nanVal (k : Nat) : isNanVal (nanVal k) = true := by
  simp [isNanVal, nanVal_lt]

theorem nanVal_ne_of_free {q : Rat} (h : isNanVal q = false) (k : Nat) : ¬ nanVal k = q := by
  intro e; rw [← e, isNanVal_nanVal] at h; cases h

theorem nanBound_neg : nanBound < 0 := by unfold nanBound; norm_num

/-- two nan objects are `==`-equal in the model iff they are the same object -/
theorem pyEq_mkNan' (r r' : Ref) : pyEq (mkNan r) (mkNan r') = decide (r = r') := by
  simp only [mkNan, pyEq, PyVal.num]
  by_cases h : r = r'
  · subst h; simp
  · have : ¬ nanVal r.code = nanVal r'.code := fun e => h (Ref.code_inj (nanVal_inj e))
    simp [h, this]

theorem pyIs_mkNan' (r r' : Ref) : pyIs (mkNan r) (mkNan r') = decide (r = r') := by
  by_cases h : r = r' <;> simp [mkNan, pyIs, h]

/-- a nan object equals no value outside the token range, from either side -/
theorem pyEq_mkNan_val' (r : Ref) (v : PyVal) (h : v.nanFree = true) :
    pyEq (mkNan r) v = false ∧ pyEq v (mkNan r) = false := by
  cases v with
  | none => simp [mkNan, pyEq, PyVal.num]
  | str r' s => simp [mkNan, pyEq, PyVal.num]
  | tuple r' xs => simp [mkNan, pyEq, PyVal.num]
  | list r' xs => simp [mkNan, pyEq, PyVal.num]
  | dict r' ks vs => simp [mkNan, pyEq, PyVal.num]
  | bool b =>
    simp only [PyVal.nanFree, PyVal.num, Bool.not_eq_true'] at h
    have h1 := nanVal_ne_of_free h r.code
    have h2 : ¬ (if b then (1 : Rat) else 0) = nanVal r.code := fun e => h1 e.symm
    simp [mkNan, pyEq, PyVal.num, h1, h2]
  | int i =>
    simp only [PyVal.nanFree, PyVal.num, Bool.not_eq_true'] at h
    have h1 := nanVal_ne_of_free h r.code
    have h2 : ¬ (i : Rat) = nanVal r.code := fun e => h1 e.symm
    simp [mkNan, pyEq, PyVal.num, h1, h2]
  | flt r' q =>
    simp only [PyVal.nanFree, PyVal.num, Bool.not_eq_true'] at h
    have h1 := nanVal_ne_of_free h r.code
    have h2 : ¬ q = nanVal r.code := fun e => h1 e.symm
    simp [mkNan, pyEq, PyVal.num, h1, h2]

theorem pyIs_mkNan_val' (r : Ref) (v : PyVal) (h : objDistinct r v = true) :
    pyIs (mkNan r) v = false ∧ pyIs v (mkNan r) = false := by
  cases v with
  | flt r' q =>
    have e : ¬ r = r' := by simpa [objDistinct] using h
    have e' : ¬ r' = r := fun x => e x.symm
    simp [mkNan, pyIs, e, e']
  | _ => simp [mkNan, pyIs]

/-- the side condition of the encoding: numbers lie outside the token range and are other objects than the nan objects -/
def encOK : NVal → NVal → Bool
  | .nan r, .val v => v.nanFree && objDistinct r v
  | .val v, .nan r => v.nanFree && objDistinct r v
  | _, _ => true

/-- **nan_encoding_faithful.**  Python's `x is y or x == y` with real nans = the model's `pyIs || pyEq` on the tokens -/
theorem nan_encoding_faithful' (x y : NVal) (h : encOK x y = true) : richEq x y = itemEq x.enc y.enc := by
  cases x with
  | nan r =>
    cases y with
    | nan r' => by_cases e : r = r' <;> simp [richEq, itemEq, NVal.enc, pyEq_mkNan', pyIs_mkNan', e]
    | val v =>
      simp only [encOK, Bool.and_eq_true] at h
      simp [richEq, itemEq, NVal.enc, (pyEq_mkNan_val' r v h.1).1, (pyIs_mkNan_val' r v h.2).1]
  | val v =>
    cases y with
    | nan r =>
      simp only [encOK, Bool.and_eq_true] at h
      simp [richEq, itemEq, NVal.enc, (pyEq_mkNan_val' r v h.1).2, (pyIs_mkNan_val' r v h.2).2]
    | val w => simp [richEq, itemEq, NVal.enc]

/-- reading back what was encoded gives the nan object again -/
theorem ofPy_enc_nan' (r : Ref) : NVal.ofPy (mkNan r) = .nan r := by
  simp [NVal.ofPy, mkNan, isNanVal_nanVal]

/-- what `SafeLearner.predict` asks of an action before anything else: a nan is not 0/1 (no float copy is made of it, the
offered object itself is handed on), has no length, is no dict, and is no PMF -/
theorem nan_passes_untouched' (r : Ref) (k : Nat) (as : List PyVal) :
    isZeroOne (mkNan r) = false ∧ makeSafe k (mkNan r) = mkNan r ∧ (mkNan r).hasLen = false ∧ (mkNan r).isDict = false ∧
    possiblePmf (mkNan r) as = false := by
  have h := nanVal_lt r.code
  have hb := nanBound_neg
  have h0 : ¬ nanVal r.code = 0 := by intro e; rw [e] at h; linarith
  have h1 : ¬ nanVal r.code = 1 := by intro e; rw [e] at h; linarith
  simp [mkNan, isZeroOne, PyVal.num, makeSafe, PyVal.hasLen, PyVal.isDict, possiblePmf, PyVal.items, h0, h1]

/-- `item in actions` (possible_action) with real nans = the model's `possibleAction` on the tokens -/
theorem possibleAction_faithful' (x : NVal) (ys : List NVal) (h : ∀ y ∈ ys, encOK x y = true) :
    possibleAction x.enc (ys.map NVal.enc) = (ys.any (richEq x) || ys.isEmpty) := by
  unfold possibleAction
  congr 1
  · induction ys with
    | nil => rfl
    | cons y ys ih =>
      simp only [List.map_cons, List.any_cons]
      rw [ih (fun b hb => h b (by simp [hb])), nan_encoding_faithful' x y (h y (by simp))]
      rfl
  · cases ys <;> rfl

/-- `_prev_actions != actions` (list.__eq__ item by item, `is` first) with real nans = the model's `pyEqList` on the tokens,
for objects that equal themselves whenever they are not nans -/
theorem cache_test_faithful' (xs ys : List NVal)
    (h : ∀ x ∈ xs, ∀ y ∈ ys, encOK x y = true ∧ (pyIs x.enc y.enc = true → pyEq x.enc y.enc = true)) :
    richEqList xs ys = pyEqList (xs.map NVal.enc) (ys.map NVal.enc) := by
  induction xs generalizing ys with
  | nil => cases ys <;> simp [richEqList, pyEqList]
  | cons x xs ih =>
    cases ys with
    | nil => simp [richEqList, pyEqList]
    | cons y ys =>
      have hxy := h x (by simp) y (by simp)
      have ih' := ih ys (fun a ha b hb => h a (by simp [ha]) b (by simp [hb]))
      simp only [richEqList, List.map_cons, pyEqList, ih', nan_encoding_faithful' x y hxy.1, itemEq]
      congr 1
      cases hi : pyIs x.enc y.enc
      · simp
      · simp [hxy.2 hi]

/-! ### `possible_pmf` as the source writes it -/

/-- `possible_pmf` over the constants read from the CURRENT source: `isclose(sum(item), T, abs_tol=n/d)` is
`|sum − T| ≤ n/d` (both one-sided inequalities), `len(item) == len(actions)`, `all(i >= 0 …)` -/
theorem possiblePmf_generated' (item : PyVal) (actions : List PyVal) :
    possiblePmf item actions =
      (match item.items with
       | some xs =>
         xs.length == actions.length &&
           (match sumNums xs with
            | some s =>
              decide (s - (Generated.C15.pmfTotal : Rat) ≤ (Generated.C15.absTolNum : Rat) / (Generated.C15.absTolDen : Rat) ∧
                      (Generated.C15.pmfTotal : Rat) - s ≤ (Generated.C15.absTolNum : Rat) / (Generated.C15.absTolDen : Rat)) &&
                xs.all (fun x => match x.num with | some q => decide (0 ≤ q) | Option.none => false)
            | Option.none => false)
       | Option.none => false) := by
  unfold possiblePmf
  have hT : ((Generated.C15.pmfTotal : Nat) : Rat) = 1 := by simp [Generated.C15.pmfTotal]
  have hN : ((Generated.C15.absTolNum : Nat) : Rat) / ((Generated.C15.absTolDen : Nat) : Rat) = 1 / 1000 := by
    simp [Generated.C15.absTolNum, Generated.C15.absTolDen]
  rcases item.items with _ | xs
  · rfl
  · rcases sumNums xs with _ | s
    · rfl
    · simp only [hT, hN]
      congr!

/-- the tolerance is sharp in the model exactly as in the source: a sum off by `n/d` is accepted, anything beyond is not -/
theorem possiblePmf_tolerance' (r r' : Ref) (a : PyVal) (e : Rat) :
    possiblePmf (.list r [.flt r' (1 + e)]) [a] =
      decide (e ≤ (Generated.C15.absTolNum : Rat) / (Generated.C15.absTolDen : Rat) ∧
              -e ≤ (Generated.C15.absTolNum : Rat) / (Generated.C15.absTolDen : Rat) ∧ 0 ≤ 1 + e) := by
  rw [possiblePmf_generated']
  have hT : ((Generated.C15.pmfTotal : Nat) : Rat) = 1 := by simp [Generated.C15.pmfTotal]
  have hN : ((Generated.C15.absTolNum : Nat) : Rat) / ((Generated.C15.absTolDen : Nat) : Rat) = 1 / 1000 := by
    simp [Generated.C15.absTolNum, Generated.C15.absTolDen]
  rw [hT, hN]
  simp only [PyVal.items, sumNums, PyVal.num, List.length_cons, List.length_nil, List.all_cons, List.all_nil]
  have h1 : (1 + e + 0 - 1 : Rat) = e := by ring
  have h2 : (1 - (1 + e + 0) : Rat) = -e := by ring
  rw [h1, h2]
  by_cases c1 : e ≤ 1 / 1000 <;> by_cases c2 : -e ≤ 1 / 1000 <;> by_cases c3 : (0 : Rat) ≤ 1 + e <;> simp [c1, c2, c3]

/-! ### `pred_format`'s decision tree -/

macro "pf_close" : tactic => `(tactic| (simp [*] <;> (repeat' (split <;> simp_all))))

/-- running the decision tree the translator read from the CURRENT source = the model's `predFormat` (repaired code), for
every answer and every action list, errors included -/
theorem pred_format_table' (sp : PyVal) (actions : Option (List PyVal)) :
    pfRun Generated.C15.predFormatTree sp actions = predFormat Fixes.all sp actions := by
  unfold pfRun predFormat
  simp only [Generated.C15.predFormatTree, pfExecL, pfExec, pfEval, pfItem, Fixes.all, Bool.true_and, Bool.not_true, Bool.false_and,
    bind, Except.bind, pure, Except.pure]
  generalize actions.getD [] = acts
  cases hd : sp.isDict
  · cases hs : (!sp.hasLen || sp.isStr)
    · cases hl : (sp.len != 2)
      · have h2 : sp.len = 2 := by simpa using hl
        cases he : acts.isEmpty
        · cases hg : getIdx sp 0 with
          | error e => pf_close
          | ok x => cases hx : acts.any (fun a => pyIs x a) <;> pf_close
        · pf_close
      · pf_close
    · pf_close
  · cases hp : hasKey "pmf" sp
    · cases ha : hasKey "action" sp
      · cases hap : hasKey "action_prob" sp
        · simp [*]
          by_cases h1 : acts = [] <;> by_cases h2 : (∃ x ∈ acts, pyIs sp x = true) <;> cases h3 : possiblePmf sp acts <;>
            cases h4 : possibleAction sp acts <;> simp [*]
        · cases hg : getKey "action_prob" sp with
          | error e => pf_close
          | ok v => cases hb : (!v.hasLen || v.len != 2) <;> pf_close
      · pf_close
    · cases hg : getKey "pmf" sp with
      | error e => pf_close
      | ok v => cases he : acts.isEmpty <;> cases hb : (!v.hasLen || v.len != acts.length) <;> pf_close

end Coba.C15
