/-
Helper lemmas for C04 (re-reading environments).  The property theorems are in `Props/C04.lean`.
-/
import CobaVerif.Model.C04
import CobaVerif.Generated.C04Stages
import Mathlib.Tactic.Linarith
import Mathlib.Data.List.Basic

namespace Coba.C04

/-! ### the cache buffer -/

theorem fill_append (sz : Nat) : ∀ (fuel : Nat) (c r : List Item) (k : Nat),
    (fill sz fuel c r k).1 ++ (fill sz fuel c r k).2 = c ++ r
  | 0, c, r, k => by simp [fill]
  | fuel + 1, c, r, k => by
    unfold fill
    split
    · rfl
    · rw [fill_append sz fuel]
      simp [List.append_assoc]

theorem cacheStep_ok (sz : Option Nat) (c r : List Item) (d : Demand) (u : List Item) (h : c ++ r = u) :
    match (cacheStep sz c r d).1 with
    | .unread => True
    | .prog c' r' => c' ++ r' = u
    | .done c' => c' = u := by
  cases d with
  | none => simpa [cacheStep] using h
  | pull k =>
    simp only [cacheStep]
    rw [← h]
    exact fill_append _ _ _ _ _
  | all => simpa [cacheStep] using h

/-! ### one node -/

theorem nodeView_eq_den (n : Node) (u : List Item) (hok : nodeOK n u) (hf : n.Fixed) :
    nodeView n u = nodeDen n u := by
  cases n with
  | pure p => rfl
  | shuffle v perm lg par dep =>
    cases v with
    | asis => simp [Node.Fixed] at hf
    | fixed => rfl
  | cache sz prot st =>
    cases st with
    | unread => rfl
    | prog c r => simpa [nodeView, nodeDen, nodeOK] using hok
    | done c => simpa [nodeView, nodeDen, nodeOK] using hok
  | finalize p fl =>
    cases fl with
    | none => simp [nodeView, nodeDen]
    | some b =>
      cases b with
      | false => simp [nodeView, nodeDen]
      | true =>
        have : u = [] := by simpa [nodeOK] using hok.symm
        simp [nodeView, nodeDen, this]

theorem nodeStep_den (n : Node) (u : List Item) (d : Demand) (x : List Item) :
    nodeDen (nodeStep n u d).1 x = nodeDen n x := by
  cases n with
  | pure p => rfl
  | shuffle v perm lg par dep =>
    cases v with
    | asis => cases d <;> rfl
    | fixed => rfl
  | cache sz prot st =>
    cases d <;> cases st <;> rfl
  | finalize p fl =>
    cases d <;> cases fl with
    | none => rfl
    | some b => cases b <;> rfl

theorem nodeStep_parDen (n : Node) (u : List Item) (d : Demand) :
    nodeParDen (nodeStep n u d).1 = nodeParDen n := by
  cases n with
  | pure p => rfl
  | shuffle v perm lg par dep =>
    cases v with
    | asis => cases d <;> rfl
    | fixed => rfl
  | cache sz prot st =>
    cases d <;> cases st <;> rfl
  | finalize p fl =>
    cases d <;> cases fl with
    | none => rfl
    | some b => cases b <;> rfl

theorem nodeStep_isFinalize (n : Node) (u : List Item) (d : Demand) :
    isFinalize (nodeStep n u d).1 = isFinalize n := by
  cases n with
  | pure p => rfl
  | shuffle v perm lg par dep =>
    cases v with
    | asis => cases d <;> rfl
    | fixed => rfl
  | cache sz prot st =>
    cases d <;> cases st <;> rfl
  | finalize p fl =>
    cases d <;> cases fl with
    | none => rfl
    | some b => cases b <;> rfl

theorem nodeStep_fixed (n : Node) (u : List Item) (d : Demand) (hf : n.Fixed) :
    (nodeStep n u d).1.Fixed := by
  cases n with
  | pure p => trivial
  | shuffle v perm lg par dep =>
    cases v with
    | asis => simp [Node.Fixed] at hf
    | fixed => simp [nodeStep, Node.Fixed]
  | cache sz prot st =>
    cases d <;> cases st <;> trivial
  | finalize p fl =>
    cases d <;> cases fl with
    | none => trivial
    | some b => cases b <;> trivial

theorem nodeStep_ok (n : Node) (u : List Item) (d : Demand) (hok : nodeOK n u) :
    nodeOK (nodeStep n u d).1 u := by
  cases n with
  | pure p => trivial
  | shuffle v perm lg par dep =>
    cases v with
    | asis => cases d <;> trivial
    | fixed => trivial
  | cache sz prot st =>
    cases st with
    | unread =>
      cases d with
      | none => trivial
      | pull k =>
        have := cacheStep_ok sz [] u (.pull k) u (by simp)
        simp only [nodeStep]
        revert this
        cases h : (cacheStep sz [] u (.pull k)).1 <;> simp [nodeOK]
      | all => simp [nodeStep, cacheStep, nodeOK]
    | prog c r =>
      have h0 : c ++ r = u := by simpa [nodeOK] using hok
      cases d with
      | none => simpa [nodeStep] using hok
      | pull k =>
        have := cacheStep_ok sz c r (.pull k) u h0
        simp only [nodeStep]
        revert this
        cases h : (cacheStep sz c r (.pull k)).1 <;> simp [nodeOK]
      | all => simpa [nodeStep, cacheStep, nodeOK] using h0
    | done c =>
      cases d <;> simpa [nodeStep] using hok
  | finalize p fl =>
    cases fl with
    | none => cases d <;> simp [nodeStep, nodeOK]
    | some b => cases b <;> cases d <;> simpa [nodeStep] using hok

/-! ### chains -/

theorem viewN_eq_denN : ∀ (ns : List Node) (u : List Item), chainOK u ns → viewN u ns = denN u ns
  | [], u, _ => rfl
  | n :: ns, u, h => by
    obtain ⟨hok, hf, hrest⟩ := h
    simp only [viewN, denN]
    rw [nodeView_eq_den n u hok hf]
    exact viewN_eq_denN ns _ hrest

theorem touchN_den : ∀ (ns : List Node) (u : List Item) (d : Demand) (x : List Item),
    denN x (touchN u ns d).1 = denN x ns
  | [], _, _, _ => rfl
  | n :: ns, u, d, x => by
    simp only [touchN, denN]
    rw [nodeStep_den]
    exact touchN_den ns _ _ _

theorem touchN_parDen : ∀ (ns : List Node) (u : List Item) (d : Demand),
    (touchN u ns d).1.flatMap nodeParDen = ns.flatMap nodeParDen
  | [], _, _ => rfl
  | n :: ns, u, d => by
    simp only [touchN, List.flatMap_cons]
    rw [nodeStep_parDen, touchN_parDen ns]

theorem touchN_anyFin : ∀ (ns : List Node) (u : List Item) (d : Demand),
    (touchN u ns d).1.any isFinalize = ns.any isFinalize
  | [], _, _ => rfl
  | n :: ns, u, d => by
    simp only [touchN, List.any_cons]
    rw [nodeStep_isFinalize, touchN_anyFin ns]

theorem touchN_length : ∀ (ns : List Node) (u : List Item) (d : Demand),
    (touchN u ns d).1.length = ns.length
  | [], _, _ => rfl
  | n :: ns, u, d => by
    simp only [touchN, List.length_cons]
    rw [touchN_length ns]

theorem touchN_ok : ∀ (ns : List Node) (u : List Item) (d : Demand),
    chainOK u ns → chainOK u (touchN u ns d).1
  | [], _, _, _ => trivial
  | n :: ns, u, d, h => by
    obtain ⟨hok, hf, hrest⟩ := h
    simp only [touchN]
    refine ⟨nodeStep_ok n u _ hok, nodeStep_fixed n u _ hf, ?_⟩
    rw [nodeStep_den, nodeView_eq_den n u hok hf]
    exact touchN_ok ns _ d hrest

theorem denN_append : ∀ (a b : List Node) (u : List Item), denN u (a ++ b) = denN (denN u a) b
  | [], _, _ => rfl
  | n :: a, b, u => by simp only [List.cons_append, denN]; exact denN_append a b _

theorem viewN_append : ∀ (a b : List Node) (u : List Item), viewN u (a ++ b) = viewN (viewN u a) b
  | [], _, _ => rfl
  | n :: a, b, u => by simp only [List.cons_append, viewN]; exact viewN_append a b _

theorem chainOK_append : ∀ (a b : List Node) (u : List Item),
    chainOK u (a ++ b) ↔ chainOK u a ∧ chainOK (denN u a) b
  | [], b, u => by simp [chainOK, denN]
  | n :: a, b, u => by
    simp only [List.cons_append, chainOK, denN]
    rw [chainOK_append a b]
    tauto

theorem touchN_append_snd : ∀ (a b : List Node) (u : List Item) (d : Demand),
    (touchN u (a ++ b) d).2 = (touchN u a (touchN (viewN u a) b d).2).2
  | [], b, u, d => by simp [touchN, viewN]
  | n :: a, b, u, d => by
    simp only [List.cons_append, touchN, viewN]
    rw [touchN_append_snd a b]

theorem touchN_append : ∀ (a b : List Node) (u : List Item) (d : Demand),
    (touchN u (a ++ b) d).1 = (touchN u a (touchN (viewN u a) b d).2).1 ++ (touchN (viewN u a) b d).1
  | [], b, u, d => by simp [touchN, viewN]
  | n :: a, b, u, d => by
    simp only [List.cons_append, touchN, viewN]
    rw [touchN_append a b, touchN_append_snd a b]

theorem parDen_of_fixed : ∀ (ns : List Node) (u : List Item), chainOK u ns →
    ns.flatMap nodePar = ns.flatMap nodeParDen
  | [], _, _ => rfl
  | n :: ns, u, h => by
    obtain ⟨_, hf, hrest⟩ := h
    simp only [List.flatMap_cons]
    rw [parDen_of_fixed ns _ hrest]
    congr 1
    cases n with
    | pure p => rfl
    | shuffle v perm lg par dep =>
      cases v with
      | asis => simp [Node.Fixed] at hf
      | fixed => rfl
    | cache sz prot st => rfl
    | finalize p fl => rfl

theorem filter_kept_ok : ∀ (ns : List Node) (u : List Item), chainOK u ns →
    chainOK u (ns.filter keptByMaterialize) ∧ denN u (ns.filter keptByMaterialize) = denN u ns
  | [], _, _ => ⟨trivial, rfl⟩
  | n :: ns, u, h => by
    obtain ⟨hok, hf, hrest⟩ := h
    by_cases hk : keptByMaterialize n = true
    · rw [List.filter_cons_of_pos hk]
      obtain ⟨h1, h2⟩ := filter_kept_ok ns _ hrest
      exact ⟨⟨hok, hf, h1⟩, by simp only [denN]; exact h2⟩
    · rw [List.filter_cons_of_neg hk]
      have hden : nodeDen n u = u := by
        cases n with
        | cache sz prot st => rfl
        | pure p => simp [keptByMaterialize] at hk
        | shuffle v perm lg par dep => simp [keptByMaterialize] at hk
        | finalize p fl => simp [keptByMaterialize] at hk
      rw [hden] at hrest
      obtain ⟨h1, h2⟩ := filter_kept_ok ns _ hrest
      exact ⟨h1, by simp only [denN]; rw [hden]; exact h2⟩

theorem filter_kept_anyFin : ∀ (ns : List Node),
    (ns.filter keptByMaterialize).any isFinalize = ns.any isFinalize
  | [] => rfl
  | n :: ns => by
    by_cases hk : keptByMaterialize n = true
    · rw [List.filter_cons_of_pos hk]; simp only [List.any_cons]; rw [filter_kept_anyFin ns]
    · rw [List.filter_cons_of_neg hk]
      simp only [List.any_cons]
      rw [filter_kept_anyFin ns]
      cases n with
      | cache sz prot st => rfl
      | pure p => simp [keptByMaterialize] at hk
      | shuffle v perm lg par dep => simp [keptByMaterialize] at hk
      | finalize p fl => simp [keptByMaterialize] at hk

theorem filter_kept_parDen : ∀ (ns : List Node),
    (ns.filter keptByMaterialize).flatMap nodeParDen = ns.flatMap nodeParDen
  | [] => rfl
  | n :: ns => by
    by_cases hk : keptByMaterialize n = true
    · rw [List.filter_cons_of_pos hk]; simp only [List.flatMap_cons]; rw [filter_kept_parDen ns]
    · rw [List.filter_cons_of_neg hk]
      simp only [List.flatMap_cons]
      rw [filter_kept_parDen ns]
      cases n with
      | cache sz prot st => rfl
      | pure p => simp [keptByMaterialize] at hk
      | shuffle v perm lg par dep => simp [keptByMaterialize] at hk
      | finalize p fl => simp [keptByMaterialize] at hk

theorem map_reset_ok : ∀ (ns : List Node) (u : List Item), chainOK u ns →
    chainOK u (ns.map resetLive) ∧ denN u (ns.map resetLive) = denN u ns
  | [], _, _ => ⟨trivial, rfl⟩
  | n :: ns, u, h => by
    obtain ⟨hok, hf, hrest⟩ := h
    have hden : ∀ x, nodeDen (resetLive n) x = nodeDen n x := by
      intro x
      cases n with
      | cache sz prot st => cases st <;> rfl
      | pure p => rfl
      | shuffle v perm lg par dep => rfl
      | finalize p fl => rfl
    have hok' : nodeOK (resetLive n) u := by
      cases n with
      | cache sz prot st => cases st <;> trivial
      | pure p => trivial
      | shuffle v perm lg par dep => trivial
      | finalize p fl => exact hok
    have hf' : (resetLive n).Fixed := by
      cases n with
      | cache sz prot st => cases st <;> trivial
      | pure p => trivial
      | shuffle v perm lg par dep => exact hf
      | finalize p fl => trivial
    obtain ⟨h1, h2⟩ := map_reset_ok ns _ hrest
    refine ⟨⟨hok', hf', ?_⟩, ?_⟩
    · rw [hden]; exact h1
    · simp only [List.map_cons, denN]; rw [hden]; exact h2

theorem map_reset_anyFin (ns : List Node) : (ns.map resetLive).any isFinalize = ns.any isFinalize := by
  induction ns with
  | nil => rfl
  | cons n ns ih =>
    simp only [List.map_cons, List.any_cons, ih]
    cases n with
    | cache sz prot st => cases st <;> rfl
    | pure p => rfl
    | shuffle v perm lg par dep => rfl
    | finalize p fl => rfl

theorem map_reset_parDen (ns : List Node) : (ns.map resetLive).flatMap nodeParDen = ns.flatMap nodeParDen := by
  induction ns with
  | nil => rfl
  | cons n ns ih =>
    simp only [List.map_cons, List.flatMap_cons, ih]
    cases n with
    | cache sz prot st => cases st <;> rfl
    | pure p => rfl
    | shuffle v perm lg par dep => rfl
    | finalize p fl => rfl

/-! ### objects -/

theorem srcView_reiter (s : Src) (h : s.once = false) : srcView s = s.items := by
  simp [srcView, h]

theorem ObjGood.view_eq {fin D P} {o : Obj} (hg : ObjGood fin D P o) : o.view = D := by
  unfold Obj.view
  rw [srcView_reiter _ hg.reiter, viewN_eq_denN _ _ hg.ok]
  exact hg.den

theorem nodeStep_finalize (p : PureSt) (fl : Option Bool) (u : List Item) (d : Demand) :
    ∃ fl', (nodeStep (.finalize p fl) u d).1 = .finalize p fl' := by
  cases d <;> cases fl with
  | none => exact ⟨_, rfl⟩
  | some b => cases b <;> exact ⟨_, rfl⟩

theorem ObjGood.touch {fin D P} {o : Obj} (hg : ObjGood fin D P o) (d : Demand) :
    ObjGood fin D P (o.touch d) := by
  have hsv := srcView_reiter _ hg.reiter
  refine ⟨?_, ?_, ?_, ?_, ?_, ?_⟩
  · simpa [Obj.touch, srcStep] using hg.reiter
  · simp only [Obj.touch, srcStep]
    rw [hsv]
    exact touchN_ok _ _ _ hg.ok
  · simp only [Obj.den, Obj.touch, srcStep]
    rw [touchN_den]
    exact hg.den
  · simp only [Obj.denParams, Obj.touch, srcStep]
    rw [touchN_parDen]
    exact hg.par
  · simp only [Obj.touch]
    rw [touchN_anyFin]
    exact hg.hasFin
  · intro hown
    obtain ⟨b, fl, hb, hnf⟩ := hg.own (by simpa [Obj.touch] using hown)
    simp only [Obj.touch]
    rw [hb, touchN_append]
    obtain ⟨fl', hfl⟩ := nodeStep_finalize fin fl (viewN (srcView o.src) b) d
    refine ⟨(touchN (srcView o.src) b (touchN (viewN (srcView o.src) b) [Node.finalize fin fl] d).2).1, fl', ?_, ?_⟩
    · congr 1
      simp only [touchN]
      rw [hfl]
    · rw [touchN_anyFin]; exact hnf

theorem ObjGood.params_eq {fin D P} {o : Obj} (hg : ObjGood fin D P o) (hs : o.src.started = true) :
    o.params = P := by
  unfold Obj.params srcPar
  rw [hs, parDen_of_fixed _ _ hg.ok]
  exact hg.par

theorem touch_started (o : Obj) (d : Demand) (h : d.isNone = false) : (o.touch d).src.started = true := by
  simp [Obj.touch, h]

theorem touch_started_mono (o : Obj) (d : Demand) (h : o.src.started = true) : (o.touch d).src.started = true := by
  simp [Obj.touch, h]

/-- what `Obj.base` and `finalized` give for a good object -/
theorem ObjGood.base_facts {fin D P} {o : Obj} (hg : ObjGood fin D P o) :
    chainOK o.src.items o.base ∧
    chainOK o.src.items (finalized fin o.base).1 ∧
    denN o.src.items (finalized fin o.base).1 = D ∧
    (finalized fin o.base).1.any isFinalize = true ∧
    (finalized fin o.base).1.flatMap nodeParDen = o.nodes.flatMap nodeParDen ∧
    ((finalized fin o.base).2 = true →
        (finalized fin o.base).1 = o.base ++ [.finalize fin none] ∧ o.base.any isFinalize = false ∧
        ∃ fl, o.nodes = o.base ++ [.finalize fin fl]) ∧
    ((finalized fin o.base).2 = false → (finalized fin o.base).1 = o.base ∧ o.base = o.nodes ∧ o.ownFin = false) := by
  by_cases hown : o.ownFin = true
  · obtain ⟨b, fl, hb, hnf⟩ := hg.own hown
    have hbase : o.base = b := by simp [Obj.base, hown, hb]
    have hfin : finalized fin b = (b ++ [.finalize fin none], true) := by simp [finalized, hnf]
    have hok := hg.ok
    rw [hb, chainOK_append] at hok
    have hden := hg.den
    unfold Obj.den at hden
    rw [hb, denN_append] at hden
    rw [hbase, hfin]
    refine ⟨hok.1, ?_, ?_, ?_, ?_, ?_, ?_⟩
    · rw [chainOK_append]; exact ⟨hok.1, by simp [chainOK, nodeOK, Node.Fixed]⟩
    · rw [denN_append]; simpa [denN, nodeDen] using hden
    · simp [isFinalize]
    · rw [hb]; simp [nodeParDen]
    · intro _; exact ⟨rfl, hnf, fl, hb⟩
    · intro h; simp at h
  · have hown' : o.ownFin = false := by simpa using hown
    have hbase : o.base = o.nodes := by simp [Obj.base, hown']
    have hfin : finalized fin o.nodes = (o.nodes, false) := by simp [finalized, hg.hasFin]
    rw [hbase, hfin]
    refine ⟨hg.ok, hg.ok, hg.den, hg.hasFin, rfl, ?_, ?_⟩
    · intro h; simp at h
    · intro _; exact ⟨rfl, rfl, hown'⟩

/-! ### the pool -/

theorem getObj_mem {w : World} {j : Nat} {o : Obj} (h : getObj w j = some o) : some o ∈ w.objs := by
  unfold getObj at h
  split at h
  · rename_i o' ho
    have : o' = o := by simpa using h
    subst this
    exact List.mem_of_getElem? ho
  · simp at h

theorem WorldGood.set {D P} {w : World} (hw : WorldGood D P w) (j : Nat) {o : Obj}
    (ho : ObjGood w.fin D P o) : WorldGood D P (setObj w j o) := by
  refine ⟨hw.fixed, hw.finIdem, ?_⟩
  intro o' hmem
  simp only [setObj] at hmem
  rcases List.mem_or_eq_of_mem_set hmem with h | h
  · exact hw.objs o' h
  · have : o' = o := by simpa using h
    subst this; exact ho

theorem WorldGood.push {D P} {w : World} (hw : WorldGood D P w) {x : Option Obj}
    (hx : ∀ o, x = some o → ObjGood w.fin D P o) : WorldGood D P (pushObj w x) := by
  refine ⟨hw.fixed, hw.finIdem, ?_⟩
  intro o' hmem
  simp only [pushObj, List.mem_append, List.mem_singleton] at hmem
  rcases hmem with h | h
  · exact hw.objs o' h
  · exact hx o' h.symm

/-- results of the read operations demanded by the property -/
def OutOK (D : List Item) : Op → Out → Prop
  | .full _, out => out = .items D ∨ out = .skip
  | .part _ k, out => out = .items ((partialDemand k D).take D) ∨ out = .skip
  | _, _ => True

theorem srcStep_once (s : Src) (d : Demand) : (srcStep s d).once = s.once := rfl
theorem srcStep_items (s : Src) (d : Demand) : (srcStep s d).items = s.items := rfl
theorem srcStep_parPost (s : Src) (d : Demand) : (srcStep s d).parPost = s.parPost := rfl

theorem ObjGood.withSrc {fin D P} {o : Obj} (hg : ObjGood fin D P o) (s : Src)
    (h1 : s.once = false) (h2 : s.items = o.src.items) (h3 : s.parPost = o.src.parPost) :
    ObjGood fin D P { o with src := s } := by
  refine ⟨h1, ?_, ?_, ?_, hg.hasFin, hg.own⟩
  · simpa [h2] using hg.ok
  · simpa [Obj.den, h2] using hg.den
  · simpa [Obj.denParams, h3] using hg.par

theorem stepObj_good {D P} {w : World} (hw : WorldGood D P w) (j : Nat) (o : Obj)
    (hg : ObjGood w.fin D P o) (op : Op) :
    WorldGood D P (stepObj w j o op).1 ∧ OutOK D op (stepObj w j o op).2 := by
  obtain ⟨hb, hfok, hfden, hfany, hfpar, hown, hnown⟩ := hg.base_facts
  cases op with
  | full on =>
    exact ⟨hw.set j (hg.touch .all), Or.inl (by simp [stepObj, hg.view_eq])⟩
  | part on k =>
    exact ⟨hw.set j (hg.touch _), Or.inl (by simp [stepObj, hg.view_eq])⟩
  | params on => exact ⟨hw, trivial⟩
  | cache on =>
    refine ⟨?_, trivial⟩
    simp only [stepObj]
    apply hw.push
    intro o' ho'
    have ho' : o' = _ := (Option.some.inj ho').symm
    subst ho'
    by_cases hf : (finalized w.fin o.base).2 = true
    · obtain ⟨_, hnf, fl, hnodes⟩ := hown hf
      have hfin : finalized w.fin (o.base ++ [Node.cache (some 25) false .unread]) =
          (o.base ++ [Node.cache (some 25) false .unread] ++ [.finalize w.fin none], true) := by
        simp [finalized, hnf, isFinalize]
      rw [hfin]
      have hden := hg.den
      unfold Obj.den at hden
      rw [hnodes, denN_append] at hden
      refine ⟨hg.reiter, ?_, ?_, ?_, by simp [isFinalize], ?_⟩
      · simp only [chainOK_append]
        exact ⟨⟨hb, by simp [chainOK, nodeOK, Node.Fixed]⟩, by simp [chainOK, nodeOK, Node.Fixed]⟩
      · simp only [Obj.den, denN_append, denN, nodeDen] at hden ⊢
        exact hden
      · have := hg.par
        unfold Obj.denParams at this ⊢
        rw [hnodes] at this
        simpa [nodeParDen] using this
      · intro _
        exact ⟨_, none, rfl, by simp [hnf, isFinalize]⟩
    · have hf' : (finalized w.fin o.base).2 = false := by simpa using hf
      obtain ⟨_, hbn, hownf⟩ := hnown hf'
      have hany : o.base.any isFinalize = true := by rw [hbn]; exact hg.hasFin
      have hfin : finalized w.fin (o.base ++ [Node.cache (some 25) false .unread]) =
          (o.base ++ [Node.cache (some 25) false .unread], false) := by
        simp [finalized, hany]
      rw [hfin]
      refine ⟨hg.reiter, ?_, ?_, ?_, by simp [hany], by intro h; simp at h⟩
      · rw [chainOK_append]; exact ⟨hb, by simp [chainOK, nodeOK, Node.Fixed]⟩
      · have hden := hg.den
        simp only [Obj.den, denN_append, denN, nodeDen] at hden ⊢
        rw [hbn]; exact hden
      · have := hg.par
        unfold Obj.denParams at this ⊢
        rw [hbn]; simpa [nodeParDen] using this
  | chunk on =>
    refine ⟨?_, trivial⟩
    simp only [stepObj]
    apply hw.push
    intro o' ho'
    have ho' : o' = _ := (Option.some.inj ho').symm
    subst ho'
    by_cases hf : (finalized w.fin o.base).2 = true
    · obtain ⟨_, hnf, fl, hnodes⟩ := hown hf
      have hfin : finalized w.fin (o.base ++ [Node.pure chunkP, Node.cache (some 25) false .unread]) =
          (o.base ++ [Node.pure chunkP, Node.cache (some 25) false .unread] ++ [.finalize w.fin none], true) := by
        simp [finalized, hnf, isFinalize]
      rw [hfin]
      have hden := hg.den
      unfold Obj.den at hden
      rw [hnodes, denN_append] at hden
      refine ⟨hg.reiter, ?_, ?_, ?_, by simp [isFinalize], ?_⟩
      · simp only [chainOK_append]
        exact ⟨⟨hb, by simp [chainOK, nodeOK, Node.Fixed]⟩, by simp [chainOK, nodeOK, Node.Fixed]⟩
      · simp only [Obj.den, denN_append, denN, nodeDen, chunkP, id] at hden ⊢
        exact hden
      · have := hg.par
        unfold Obj.denParams at this ⊢
        rw [hnodes] at this
        simpa [nodeParDen, chunkP] using this
      · intro _
        exact ⟨_, none, rfl, by simp [hnf, isFinalize]⟩
    · have hf' : (finalized w.fin o.base).2 = false := by simpa using hf
      obtain ⟨_, hbn, hownf⟩ := hnown hf'
      have hany : o.base.any isFinalize = true := by rw [hbn]; exact hg.hasFin
      have hfin : finalized w.fin (o.base ++ [Node.pure chunkP, Node.cache (some 25) false .unread]) =
          (o.base ++ [Node.pure chunkP, Node.cache (some 25) false .unread], false) := by
        simp [finalized, hany]
      rw [hfin]
      refine ⟨hg.reiter, ?_, ?_, ?_, by simp [hany], by intro h; simp at h⟩
      · rw [chainOK_append]; exact ⟨hb, by simp [chainOK, nodeOK, Node.Fixed]⟩
      · have hden := hg.den
        simp only [Obj.den, denN_append, denN, nodeDen, chunkP, id] at hden ⊢
        rw [hbn]; exact hden
      · have := hg.par
        unfold Obj.denParams at this ⊢
        rw [hbn]; simpa [nodeParDen, chunkP] using this
  | materialize on =>
    refine ⟨?_, trivial⟩
    simp only [stepObj]
    split
    · apply hw.push
      intro o' ho'
      have ho' : o' = _ := (Option.some.inj ho').symm
      subst ho'
      exact ⟨hg.reiter, hfok, hfden, by simpa [Obj.denParams, hfpar] using hg.par, hfany, by intro h; simp at h⟩
    · -- the materialized object, read completely
      have hm : ObjGood w.fin D P
          { src := o.src, nodes := (finalized w.fin o.base).1.filter keptByMaterialize ++ [Node.cache none true .unread], ownFin := false } := by
        obtain ⟨h1, h2⟩ := filter_kept_ok _ _ hfok
        refine ⟨hg.reiter, ?_, ?_, ?_, ?_, by intro h; simp at h⟩
        · rw [chainOK_append]; exact ⟨h1, by simp [chainOK, nodeOK, Node.Fixed]⟩
        · simp only [Obj.den, denN_append]
          rw [h2, hfden]; rfl
        · have := hg.par
          unfold Obj.denParams at this ⊢
          simp only [List.flatMap_append, filter_kept_parDen, hfpar]
          simpa [nodeParDen] using this
        · simp only [List.any_append, filter_kept_anyFin, hfany]; rfl
      have hm' := hm.touch .all
      have hpar : WorldGood D P (setObj w j { o with src := (Obj.touch
          { src := o.src, nodes := (finalized w.fin o.base).1.filter keptByMaterialize ++ [Node.cache none true .unread], ownFin := false } .all).src }) := by
        apply hw.set
        apply hg.withSrc
        · exact hm'.reiter
        · simp [Obj.touch, srcStep]
        · simp [Obj.touch, srcStep]
      apply hpar.push
      intro o' ho'
      have ho' : o' = _ := (Option.some.inj ho').symm
      subst ho'
      exact hm'
  | pickle on =>
    refine ⟨?_, trivial⟩
    simp only [stepObj, hw.fixed]
    apply hw.push
    intro o' ho'
    have ho' : o' = _ := (Option.some.inj ho').symm
    subst ho'
    obtain ⟨h1, h2⟩ := map_reset_ok _ _ hg.ok
    refine ⟨hg.reiter, h1, ?_, ?_, ?_, by intro h; simp at h⟩
    · simp only [Obj.den]; rw [h2]; exact hg.den
    · simp only [Obj.denParams, map_reset_parDen]; exact hg.par
    · simp only [map_reset_anyFin]; exact hg.hasFin
  | save on =>
    refine ⟨?_, trivial⟩
    have hsv := srcView_reiter _ hg.reiter
    have hub : viewN (srcView o.src) o.base = denN o.src.items o.base := by
      rw [hsv]; exact viewN_eq_denN _ _ hb
    simp only [stepObj, hw.fixed]
    -- the parent after the read
    have hparent : ObjGood w.fin D P
        { o with
          src := { srcStep o.src (touchN (srcView o.src) o.base
              (if (finalized w.fin o.base).2 = true then (nodeStep (Node.finalize w.fin none) (viewN (srcView o.src) o.base) Demand.all).2 else Demand.all)).2 with started := true },
          nodes := (touchN (srcView o.src) o.base
              (if (finalized w.fin o.base).2 = true then (nodeStep (Node.finalize w.fin none) (viewN (srcView o.src) o.base) Demand.all).2 else Demand.all)).1
            ++ o.nodes.drop o.base.length } := by
      generalize (if (finalized w.fin o.base).2 = true then (nodeStep (Node.finalize w.fin none) (viewN (srcView o.src) o.base) Demand.all).2 else Demand.all) = dd
      have hbok : chainOK o.src.items (touchN (srcView o.src) o.base dd).1 := by
        rw [hsv]; exact touchN_ok _ _ _ hb
      by_cases hf : (finalized w.fin o.base).2 = true
      · obtain ⟨_, hnf, fl, hnodes⟩ := hown hf
        have hdrop : o.nodes.drop o.base.length = [Node.finalize w.fin fl] := by
          conv_lhs => rw [hnodes]
          simp
        rw [hdrop]
        have hok := hg.ok
        rw [hnodes, chainOK_append] at hok
        have hden := hg.den
        unfold Obj.den at hden
        rw [hnodes, denN_append] at hden
        refine ⟨hg.reiter, ?_, ?_, ?_, by simp [isFinalize], ?_⟩
        · rw [chainOK_append]
          refine ⟨hbok, ?_⟩
          rw [touchN_den]; exact hok.2
        · simp only [Obj.den, srcStep_items, denN_append]
          rw [touchN_den]; exact hden
        · have := hg.par
          unfold Obj.denParams at this ⊢
          rw [hnodes] at this
          simp only [List.flatMap_append, touchN_parDen, srcStep_parPost]
          simpa using this
        · intro _
          exact ⟨_, fl, rfl, by rw [touchN_anyFin]; exact hnf⟩
      · have hf' : (finalized w.fin o.base).2 = false := by simpa using hf
        obtain ⟨_, hbn, hownf⟩ := hnown hf'
        have hdrop : o.nodes.drop o.base.length = [] := by rw [hbn]; simp
        rw [hdrop, List.append_nil]
        refine ⟨hg.reiter, hbok, ?_, ?_, ?_, by intro h; rw [hownf] at h; simp at h⟩
        · simp only [Obj.den, srcStep_items]
          rw [touchN_den, hbn]; exact hg.den
        · have := hg.par
          unfold Obj.denParams at this ⊢
          simp only [touchN_parDen, srcStep_parPost]
          rw [hbn]; simpa using this
        · rw [touchN_anyFin, hbn]; exact hg.hasFin
    apply (hw.set j hparent).push
    intro o' ho'
    have ho' : o' = _ := (Option.some.inj ho').symm
    subst ho'
    -- the items written to the file are the denotation
    have hitems : (if (finalized w.fin o.base).2 = true then nodeView (Node.finalize w.fin none) (viewN (srcView o.src) o.base)
        else viewN (srcView o.src) o.base) = D := by
      by_cases hf : (finalized w.fin o.base).2 = true
      · obtain ⟨_, hnf, fl, hnodes⟩ := hown hf
        have hden := hg.den
        unfold Obj.den at hden
        rw [hnodes, denN_append] at hden
        rw [if_pos hf, hub]
        simpa [nodeView, denN, nodeDen] using hden
      · have hf' : (finalized w.fin o.base).2 = false := by simpa using hf
        obtain ⟨_, hbn, _⟩ := hnown hf'
        rw [if_neg hf, hub, hbn]; exact hg.den
    refine ⟨rfl, ?_, ?_, ?_, by simp [isFinalize], ?_⟩
    · simp [chainOK, nodeOK, Node.Fixed]
    · simp only [Obj.den, denN, nodeDen]
      rw [hitems]
      exact hw.finIdem
    · simp only [Obj.denParams, List.flatMap_cons, List.flatMap_nil, nodeParDen, List.append_nil]
      -- params recorded after the read: the parent's params once its source has been started
      have hp := hparent.params_eq (by simp)
      unfold Obj.params at hp
      simp only [List.flatMap_append] at hp
      have hnil : (o.nodes.drop o.base.length).flatMap nodePar = [] := by
        by_cases hf : (finalized w.fin o.base).2 = true
        · obtain ⟨_, hnf, fl, hnodes⟩ := hown hf
          have hdrop : o.nodes.drop o.base.length = [Node.finalize w.fin fl] := by
            conv_lhs => rw [hnodes]
            simp
          rw [hdrop]; rfl
        · have hf' : (finalized w.fin o.base).2 = false := by simpa using hf
          obtain ⟨_, hbn, _⟩ := hnown hf'
          rw [hbn]; simp
      rw [hnil, List.append_nil] at hp
      exact hp
    · intro _
      exact ⟨[], none, rfl, rfl⟩

theorem step_good {D P} {w : World} (hw : WorldGood D P w) (op : Op) :
    WorldGood D P (step w op).1 ∧ OutOK D op (step w op).2 := by
  unfold step
  split
  · rename_i o ho
    exact stepObj_good hw _ o (hw.objs o (getObj_mem ho)) op
  · refine ⟨?_, ?_⟩
    · split
      · exact hw.push (by intro o h; simp at h)
      · exact hw
    · cases op <;> first | trivial | exact Or.inr rfl

theorem runW_good {D P} : ∀ (ops : List Op) {w : World}, WorldGood D P w → WorldGood D P (runW w ops)
  | [], _, hw => hw
  | op :: ops, _, hw => runW_good ops (step_good hw op).1

/-- every read of every history returns the denotation -/
theorem reread' {D P} : ∀ (ops : List Op) {w : World}, WorldGood D P w →
    List.Forall₂ (OutOK D) ops (run w ops)
  | [], _, _ => List.Forall₂.nil
  | op :: ops, _, hw => List.Forall₂.cons (step_good hw op).2 (reread' ops (step_good hw op).1)

/-! ### params once the object has been read -/

def Started (w : World) (j : Nat) : Prop := ∃ o, getObj w j = some o ∧ o.src.started = true

theorem getObj_set_same (w : World) (j : Nat) (o : Obj) (h : j < w.objs.length) : getObj (setObj w j o) j = some o := by
  simp [getObj, setObj, h]

theorem getObj_set_other (w : World) (i j : Nat) (o : Obj) (h : i ≠ j) : getObj (setObj w i o) j = getObj w j := by
  simp [getObj, setObj, List.getElem?_set_ne h]

theorem getObj_push (w : World) (x : Option Obj) (j : Nat) (o : Obj) (h : getObj w j = some o) :
    getObj (pushObj w x) j = some o := by
  unfold getObj at h ⊢
  simp only [pushObj]
  split at h
  · rename_i o' ho'
    have hlt : j < w.objs.length := by
      rcases List.getElem?_eq_some_iff.mp ho' with ⟨hlt, _⟩
      exact hlt
    rw [List.getElem?_append_left hlt, ho']
    exact h
  · simp at h

theorem getObj_lt {w : World} {j : Nat} {o : Obj} (h : getObj w j = some o) : j < w.objs.length := by
  unfold getObj at h
  split at h
  · rename_i o' ho'
    exact (List.getElem?_eq_some_iff.mp ho').1
  · simp at h

theorem stepObj_started (w : World) (i : Nat) (o : Obj) (op : Op) (j : Nat) (ho : getObj w i = some o)
    (h : Started w j) : Started (stepObj w i o op).1 j := by
  obtain ⟨oj, hoj, hst⟩ := h
  have hjlt := getObj_lt hoj
  by_cases hij : i = j
  · subst hij
    have hoo : o = oj := by rw [ho] at hoj; exact Option.some.inj hoj
    subst hoo
    cases op with
    | full on => exact ⟨_, getObj_set_same _ _ _ hjlt, touch_started_mono _ _ hst⟩
    | part on k => exact ⟨_, getObj_set_same _ _ _ hjlt, touch_started_mono _ _ hst⟩
    | params on => exact ⟨o, hoj, hst⟩
    | cache on => exact ⟨o, getObj_push _ _ _ _ hoj, hst⟩
    | chunk on => exact ⟨o, getObj_push _ _ _ _ hoj, hst⟩
    | materialize on =>
      simp only [stepObj]
      split
      · exact ⟨o, getObj_push _ _ _ _ hoj, hst⟩
      · exact ⟨_, getObj_push _ _ _ _ (getObj_set_same _ _ _ hjlt), touch_started _ _ rfl⟩
    | pickle on =>
      simp only [stepObj]
      split
      · split
        · exact ⟨o, getObj_push _ _ _ _ hoj, hst⟩
        · exact ⟨o, getObj_push _ _ _ _ hoj, hst⟩
      · exact ⟨o, getObj_push _ _ _ _ hoj, hst⟩
    | save on => exact ⟨_, getObj_push _ _ _ _ (getObj_set_same _ _ _ hjlt), rfl⟩
  · have hkeep : ∀ o', getObj (setObj w i o') j = some oj := by
      intro o'; rw [getObj_set_other _ _ _ _ hij]; exact hoj
    cases op with
    | full on => exact ⟨oj, hkeep _, hst⟩
    | part on k => exact ⟨oj, hkeep _, hst⟩
    | params on => exact ⟨oj, hoj, hst⟩
    | cache on => exact ⟨oj, getObj_push _ _ _ _ hoj, hst⟩
    | chunk on => exact ⟨oj, getObj_push _ _ _ _ hoj, hst⟩
    | materialize on =>
      simp only [stepObj]
      split
      · exact ⟨oj, getObj_push _ _ _ _ hoj, hst⟩
      · exact ⟨oj, getObj_push _ _ _ _ (hkeep _), hst⟩
    | pickle on =>
      simp only [stepObj]
      split
      · split
        · exact ⟨oj, getObj_push _ _ _ _ hoj, hst⟩
        · exact ⟨oj, getObj_push _ _ _ _ hoj, hst⟩
      · exact ⟨oj, getObj_push _ _ _ _ hoj, hst⟩
    | save on => exact ⟨oj, getObj_push _ _ _ _ (hkeep _), hst⟩

/-- the object `j` stays started whatever happens next -/
theorem step_started (w : World) (op : Op) (j : Nat) (h : Started w j) : Started (step w op).1 j := by
  unfold step
  split
  · rename_i o ho
    exact stepObj_started w _ o op j ho h
  · obtain ⟨oj, hoj, hst⟩ := h
    dsimp only
    split
    · exact ⟨oj, getObj_push _ _ _ _ hoj, hst⟩
    · exact ⟨oj, hoj, hst⟩

theorem runW_started : ∀ (ops : List Op) (w : World) (j : Nat), Started w j → Started (runW w ops) j
  | [], _, _, h => h
  | op :: ops, w, j, h => runW_started ops _ j (step_started w op j h)

theorem run_append : ∀ (a b : List Op) (w : World), run w (a ++ b) = run w a ++ run (runW w a) b
  | [], _, _ => rfl
  | op :: a, b, w => by simp only [List.cons_append, run, runW]; rw [run_append a b]

theorem runW_append : ∀ (a b : List Op) (w : World), runW w (a ++ b) = runW (runW w a) b
  | [], _, _ => rfl
  | op :: a, b, w => by simp only [List.cons_append, runW]; rw [runW_append a b]

theorem params_of_started {D P} {w : World} (hw : WorldGood D P w) (j : Nat) (h : Started w j) :
    (step w (.params j)).2 = .params P := by
  obtain ⟨o, ho, hst⟩ := h
  unfold step
  simp only [Op.on, ho, stepObj]
  rw [(hw.objs o (getObj_mem ho)).params_eq hst]

theorem full_starts (w : World) (j : Nat) (o : Obj) (ho : getObj w j = some o) :
    Started (step w (.full j)).1 j := by
  unfold step
  simp only [Op.on, ho, stepObj]
  exact ⟨_, getObj_set_same _ _ _ (getObj_lt ho), touch_started _ _ rfl⟩

/-- params after a completed read, whatever happened before and in between -/
theorem params_after_read' {D P} {w : World} (hw : WorldGood D P w) (pre mid : List Op) (j : Nat)
    (hj : ∃ o, getObj (runW w pre) j = some o) :
    (run w (pre ++ [.full j] ++ mid ++ [.params j])).getLast? = some (.params P) := by
  obtain ⟨o, ho⟩ := hj
  rw [run_append, List.getLast?_append]
  simp only [run, List.getLast?_singleton, Option.some_or]
  have hw1 : WorldGood D P (runW w (pre ++ [.full j] ++ mid)) := runW_good _ hw
  have hst : Started (runW w (pre ++ [.full j] ++ mid)) j := by
    rw [runW_append, runW_append]
    apply runW_started
    simp only [runW]
    exact full_starts _ _ o ho
  rw [params_of_started hw1 j hst]

theorem getObj_push_new (w : World) (x : Obj) : getObj (pushObj w (some x)) w.objs.length = some x := by
  simp [getObj, pushObj]

theorem setObj_length (w : World) (j : Nat) (o : Obj) : (setObj w j o).objs.length = w.objs.length := by
  simp [setObj]

/-- objects made by `materialize()` / `save()` have been read when they are handed out -/
theorem derived_started (w : World) (j : Nat) (o : Obj) (ho : getObj w j = some o) (op : Op)
    (hop : op = .materialize j ∨ op = .save j) (hnc : op = .materialize j → lastIsCache (finalized w.fin o.base).1 = false) :
    Started (step w op).1 w.objs.length := by
  rcases hop with h | h
  · subst h
    unfold step
    simp only [Op.on, ho, stepObj]
    rw [if_neg (by simpa using hnc rfl)]
    dsimp only
    rw [← setObj_length w j]
    exact ⟨_, getObj_push_new _ _, touch_started _ .all rfl⟩
  · subst h
    unfold step
    simp only [Op.on, ho, stepObj]
    rw [← setObj_length w j]
    exact ⟨_, getObj_push_new _ _, rfl⟩

/-! ### source data -/

def HasItems (w : World) (j : Nat) (xs : List Item) : Prop := ∃ o, getObj w j = some o ∧ o.src.items = xs

theorem stepObj_items (w : World) (i : Nat) (o : Obj) (op : Op) (j : Nat) (xs : List Item)
    (ho : getObj w i = some o) (h : HasItems w j xs) : HasItems (stepObj w i o op).1 j xs := by
  obtain ⟨oj, hoj, hst⟩ := h
  have hjlt := getObj_lt hoj
  by_cases hij : i = j
  · subst hij
    have hoo : o = oj := by rw [ho] at hoj; exact Option.some.inj hoj
    subst hoo
    cases op with
    | full on => exact ⟨_, getObj_set_same _ _ _ hjlt, hst⟩
    | part on k => exact ⟨_, getObj_set_same _ _ _ hjlt, hst⟩
    | params on => exact ⟨o, hoj, hst⟩
    | cache on => exact ⟨o, getObj_push _ _ _ _ hoj, hst⟩
    | chunk on => exact ⟨o, getObj_push _ _ _ _ hoj, hst⟩
    | materialize on =>
      simp only [stepObj]
      split
      · exact ⟨o, getObj_push _ _ _ _ hoj, hst⟩
      · exact ⟨_, getObj_push _ _ _ _ (getObj_set_same _ _ _ hjlt), hst⟩
    | pickle on =>
      simp only [stepObj]
      split
      · split
        · exact ⟨o, getObj_push _ _ _ _ hoj, hst⟩
        · exact ⟨o, getObj_push _ _ _ _ hoj, hst⟩
      · exact ⟨o, getObj_push _ _ _ _ hoj, hst⟩
    | save on => exact ⟨_, getObj_push _ _ _ _ (getObj_set_same _ _ _ hjlt), hst⟩
  · have hkeep : ∀ o', getObj (setObj w i o') j = some oj := by
      intro o'; rw [getObj_set_other _ _ _ _ hij]; exact hoj
    cases op with
    | full on => exact ⟨oj, hkeep _, hst⟩
    | part on k => exact ⟨oj, hkeep _, hst⟩
    | params on => exact ⟨oj, hoj, hst⟩
    | cache on => exact ⟨oj, getObj_push _ _ _ _ hoj, hst⟩
    | chunk on => exact ⟨oj, getObj_push _ _ _ _ hoj, hst⟩
    | materialize on =>
      simp only [stepObj]
      split
      · exact ⟨oj, getObj_push _ _ _ _ hoj, hst⟩
      · exact ⟨oj, getObj_push _ _ _ _ (hkeep _), hst⟩
    | pickle on =>
      simp only [stepObj]
      split
      · split
        · exact ⟨oj, getObj_push _ _ _ _ hoj, hst⟩
        · exact ⟨oj, getObj_push _ _ _ _ hoj, hst⟩
      · exact ⟨oj, getObj_push _ _ _ _ hoj, hst⟩
    | save on => exact ⟨oj, getObj_push _ _ _ _ (hkeep _), hst⟩

theorem step_items (w : World) (op : Op) (j : Nat) (xs : List Item) (h : HasItems w j xs) :
    HasItems (step w op).1 j xs := by
  unfold step
  split
  · rename_i o ho
    exact stepObj_items w _ o op j xs ho h
  · obtain ⟨oj, hoj, hst⟩ := h
    dsimp only
    split
    · exact ⟨oj, getObj_push _ _ _ _ hoj, hst⟩
    · exact ⟨oj, hoj, hst⟩

/-- no history of operations, in either variant, changes the data held by a source -/
theorem source_unchanged' : ∀ (ops : List Op) (w : World) (j : Nat) (xs : List Item),
    HasItems w j xs → HasItems (runW w ops) j xs
  | [], _, _, _, h => h
  | op :: ops, w, j, xs, h => source_unchanged' ops _ j xs (step_items w op j xs h)

/-! ### single instances -/

theorem sessions_ok (n : Node) (u : List Item) (hok : nodeOK n u) (hf : n.Fixed) :
    ∀ ds : List Demand, nodeOK (sessions n u ds) u ∧ (sessions n u ds).Fixed ∧
      ∀ x, nodeDen (sessions n u ds) x = nodeDen n x := by
  intro ds
  induction ds generalizing n with
  | nil => exact ⟨hok, hf, fun _ => rfl⟩
  | cons d ds ih =>
    obtain ⟨h1, h2, h3⟩ := ih (nodeStep n u d).1 (nodeStep_ok n u d hok) (nodeStep_fixed n u d hf)
    exact ⟨h1, h2, fun x => by show nodeDen (sessions (nodeStep n u d).1 u ds) x = _; rw [h3, nodeStep_den]⟩

/-- `pipes.Cache`: whatever reads came before, the next read delivers the upstream sequence -/
theorem cache_replay' (sz : Option Nat) (prot : Bool) (U : List Item) (ds : List Demand) :
    nodeView (sessions (.cache sz prot .unread) U ds) U = U ∧
    nodeOK (sessions (.cache sz prot .unread) U ds) U := by
  obtain ⟨h1, h2, h3⟩ := sessions_ok (.cache sz prot .unread) U trivial trivial ds
  refine ⟨?_, h1⟩
  rw [nodeView_eq_den _ _ h1 h2, h3]; rfl

theorem emptycheck_stable' (p : PureSt) (U : List Item) (ds : List Demand) :
    nodeView (sessions (.finalize p none) U ds) U = (if U = [] then [] else p.f U) := by
  obtain ⟨h1, h2, h3⟩ := sessions_ok (.finalize p none) U trivial trivial ds
  rw [nodeView_eq_den _ _ h1 h2, h3]; rfl

theorem compose_stable' (u : List Item) (ns : List Node) (h : chainOK u ns) (d : Demand) :
    viewN u ns = denN u ns ∧ viewN u (touchN u ns d).1 = denN u ns ∧ chainOK u (touchN u ns d).1 := by
  refine ⟨viewN_eq_denN _ _ h, ?_, touchN_ok _ _ _ h⟩
  rw [viewN_eq_denN _ _ (touchN_ok _ _ _ h), touchN_den]

theorem pure_stage_stable' (u : List Item) (ns : List Node) (h : chainOK u ns) (p : PureSt) (d : Demand) :
    viewN u (ns ++ [.pure p]) = p.f (denN u ns) ∧
    viewN u (touchN u (ns ++ [.pure p]) d).1 = p.f (denN u ns) := by
  have hc : chainOK u (ns ++ [.pure p]) := by
    rw [chainOK_append]; exact ⟨h, by simp [chainOK, nodeOK, Node.Fixed]⟩
  obtain ⟨h1, h2, _⟩ := compose_stable' u _ hc d
  rw [h1, h2, denN_append]
  exact ⟨rfl, rfl⟩

/-- the as-is logged Shuffle keeps its seed as long as no read is abandoned -/
theorem shuffle_complete_reads' (perm : Nat → List Item → List Item) (lg : Bool) (par : Nat → List Nat) (dep : Nat)
    (u : List Item) (ds : List Demand) (h : ∀ d ∈ ds, d = .none ∨ d = .all) :
    sessions (.shuffle .asis perm lg par dep) u ds = .shuffle .asis perm lg par dep := by
  induction ds with
  | nil => rfl
  | cons d ds ih =>
    have hd := h d (List.mem_cons_self)
    have hrest : ∀ d ∈ ds, d = .none ∨ d = .all := fun d' hd' => h d' (List.mem_cons_of_mem _ hd')
    rcases hd with rfl | rfl
    · simp only [sessions, nodeStep]; exact ih hrest
    · simp only [sessions, nodeStep]; exact ih hrest

/-! ### Densify's lookup table -/

theorem feed_append : ∀ (a b tbl : List Nat), feed tbl (a ++ b) = feed (feed tbl a) b
  | [], _, _ => rfl
  | k :: a, b, tbl => by simp only [List.cons_append, feed]; exact feed_append a b _

theorem feed_of_subset : ∀ (a tbl : List Nat), (∀ k ∈ a, k ∈ tbl) → feed tbl a = tbl
  | [], _, _ => rfl
  | k :: a, tbl, h => by
    simp only [feed]
    rw [if_pos (h k (List.mem_cons_self))]
    exact feed_of_subset a tbl (fun k' hk' => h k' (List.mem_cons_of_mem _ hk'))

theorem mem_feed_of_mem : ∀ (a tbl : List Nat) (k : Nat), k ∈ tbl → k ∈ feed tbl a
  | [], _, _, h => h
  | k' :: a, tbl, k, h => by
    simp only [feed]
    apply mem_feed_of_mem a
    split
    · exact h
    · exact List.mem_append_left _ h

theorem mem_feed_self : ∀ (a tbl : List Nat) (k : Nat), k ∈ a → k ∈ feed tbl a
  | k' :: a, tbl, k, h => by
    simp only [feed]
    rcases List.mem_cons.mp h with rfl | h'
    · apply mem_feed_of_mem a
      split
      · assumption
      · simp
    · exact mem_feed_self a _ k h'

theorem feed_prefix_step (K : List Nat) (M m : Nat) :
    feed (feed [] (K.take M)) (K.take m) = feed [] (K.take (max M m)) := by
  by_cases h : m ≤ M
  · rw [Nat.max_eq_left h]
    apply feed_of_subset
    intro k hk
    apply mem_feed_self
    have : K.take m = (K.take M).take m := by rw [List.take_take, Nat.min_eq_left h]
    rw [this] at hk
    exact List.mem_of_mem_take hk
  · have h' : M ≤ m := by omega
    rw [Nat.max_eq_right h']
    have hsplit : K.take m = K.take M ++ (K.take m).drop M := by
      have : K.take M = (K.take m).take M := by rw [List.take_take, Nat.min_eq_left h']
      rw [this, List.take_append_drop]
    conv_lhs => rw [hsplit]
    rw [feed_append]
    have hidem : feed (feed [] (K.take M)) (K.take M) = feed [] (K.take M) :=
      feed_of_subset _ _ (fun k hk => mem_feed_self _ _ k hk)
    rw [hidem, ← feed_append, ← hsplit]

theorem feedHistory_prefix (K : List Nat) : ∀ (ms : List Nat) (M : Nat),
    ∃ M', feedHistory K (feed [] (K.take M)) ms = feed [] (K.take M')
  | [], M => ⟨M, rfl⟩
  | m :: ms, M => by
    simp only [feedHistory]
    rw [feed_prefix_step]
    exact feedHistory_prefix K ms _

theorem densify_lookup_prefix_stable' (K : List Nat) (ms : List Nat) :
    feed (feedHistory K [] ms) K = feed [] K := by
  obtain ⟨M', hM⟩ := feedHistory_prefix K ms 0
  have h0 : feed [] (K.take 0) = [] := by simp [feed]
  rw [h0] at hM
  rw [hM]
  have := feed_prefix_step K M' K.length
  rw [List.take_length] at this
  rw [this]
  have hmax : K.take (max M' K.length) = K := by
    apply List.take_of_length_le
    exact Nat.le_max_right _ _
  rw [hmax]

/-! # Phase 2 -/

/-! ### built-in filters -/

theorem filtNodes_den (att : Item → Attr) : ∀ (fs : List (Filt × List Nat)) (u : List Item),
    denN u (filtNodes att fs) = filtDen att u fs
  | [], _ => rfl
  | (f, p) :: fs, u => by
    simp only [filtNodes, List.map_cons, denN, filtDen]
    exact filtNodes_den att fs _

theorem filtNodes_ok (att : Item → Attr) : ∀ (fs : List (Filt × List Nat)) (u : List Item),
    chainOK u (filtNodes att fs)
  | [], _ => trivial
  | (f, p) :: fs, u => ⟨trivial, trivial, filtNodes_ok att fs _⟩

theorem filter_pipeline_reads' (att : Item → Attr) (fs : List (Filt × List Nat)) (u : List Item) (d : Demand) :
    viewN u (filtNodes att fs) = filtDen att u fs ∧
    viewN u (touchN u (filtNodes att fs) d).1 = filtDen att u fs := by
  obtain ⟨h1, h2, _⟩ := compose_stable' u _ (filtNodes_ok att fs u) d
  rw [h1, h2, filtNodes_den]
  exact ⟨rfl, rfl⟩

/-! ### noise -/

theorem noiseScan_take (step : Nat → Item → Nat × Item) : ∀ (u : List Item) (s k : Nat),
    (noiseScan step s (u.take k)).2 = (noiseScan step s u).2.take k
  | [], s, k => by simp [noiseScan]
  | x :: u, s, 0 => by simp [noiseScan]
  | x :: u, s, k + 1 => by
    simp only [List.take_succ_cons, noiseScan]
    rw [noiseScan_take step u]

theorem noiseFresh_eq (step : Nat → Item → Nat × Item) (seed : Nat) (u : List Item) :
    ∀ ds : List Demand, noiseFresh step seed u ds = ds.map (fun d => d.take (noiseScan step seed u).2)
  | [] => rfl
  | d :: ds => by simp only [noiseFresh, List.map_cons]; rw [noiseFresh_eq step seed u ds]

/-! ### collections -/

theorem stepObj_other (w : World) (i : Nat) (o : Obj) (op : Op) (j : Nat) (hij : i ≠ j)
    (hj : j < w.objs.length) : getObj (stepObj w i o op).1 j = getObj w j := by
  have hpush : ∀ (w' : World) x, w'.objs.length = w.objs.length → getObj (pushObj w' x) j = getObj w' j := by
    intro w' x hl
    simp only [getObj, pushObj]
    rw [List.getElem?_append_left (by omega)]
  have hset : ∀ o', getObj (setObj w i o') j = getObj w j := fun o' => getObj_set_other _ _ _ _ hij
  cases op with
  | full on => exact hset _
  | part on k => exact hset _
  | params on => rfl
  | cache on => exact hpush w _ rfl
  | chunk on => exact hpush w _ rfl
  | materialize on =>
    simp only [stepObj]
    split
    · exact hpush w _ rfl
    · rw [hpush _ _ (setObj_length _ _ _)]; exact hset _
  | pickle on =>
    simp only [stepObj]
    split
    · split
      · exact hpush w _ rfl
      · exact hpush w _ rfl
    · exact hpush w _ rfl
  | save on =>
    simp only [stepObj]
    rw [hpush _ _ (setObj_length _ _ _)]; exact hset _

theorem step_other (w : World) (op : Op) (j : Nat) (hij : op.on ≠ j) (hj : j < w.objs.length) :
    getObj (step w op).1 j = getObj w j := by
  unfold step
  split
  · rename_i o ho
    exact stepObj_other w _ o op j hij hj
  · dsimp only
    split
    · simp only [getObj, pushObj]; rw [List.getElem?_append_left hj]
    · rfl

theorem step_length_le (w : World) (op : Op) : w.objs.length ≤ (step w op).1.objs.length := by
  unfold step
  split
  · rename_i o ho
    cases op <;> simp only [stepObj] <;> (try split) <;> (try split) <;> simp [setObj, pushObj]
  · dsimp only; split <;> simp [pushObj]

theorem collection_members_independent' : ∀ (ops : List Op) (w : World) (j : Nat),
    j < w.objs.length → (∀ op ∈ ops, op.on ≠ j) → getObj (runW w ops) j = getObj w j
  | [], _, _, _, _ => rfl
  | op :: ops, w, j, hj, h => by
    simp only [runW]
    rw [collection_members_independent' ops _ j (Nat.lt_of_lt_of_le hj (step_length_le w op))
      (fun o ho => h o (List.mem_cons_of_mem _ ho))]
    exact step_other w op j (h op List.mem_cons_self) hj

/-! ### caller-owned objects -/

theorem hstep_noedit (h : HWorld) (op : Op) (hne : ∀ j, h.argEdit j = none) :
    (hstep h op).1.caller = h.caller ∧ (hstep h op).1.w = (step h.w op).1 ∧ (hstep h op).2 = (step h.w op).2 ∧
    (hstep h op).1.argEdit = h.argEdit := by
  simp [hstep, hne]

theorem caller_objects_unchanged' : ∀ (ops : List Op) (h : HWorld), (∀ j, h.argEdit j = none) →
    (hrunW h ops).caller = h.caller ∧ hrun h ops = run h.w ops
  | [], _, _ => ⟨rfl, rfl⟩
  | op :: ops, h, hne => by
    obtain ⟨h1, h2, h3, h4⟩ := hstep_noedit h op hne
    have hne' : ∀ j, (hstep h op).1.argEdit j = none := by rw [h4]; exact hne
    obtain ⟨i1, i2⟩ := caller_objects_unchanged' ops (hstep h op).1 hne'
    refine ⟨?_, ?_⟩
    · simp only [hrunW]; rw [i1, h1]
    · simp only [hrun, run]; rw [i2, h2, h3]

/-! ### per-instance memoisation -/

theorem lookup_filter_ne {κ β} [BEq κ] [LawfulBEq κ] (k k' : κ) (hk : k' ≠ k) : ∀ es : List (κ × β),
    (es.filter (fun e => e.1 != k)).lookup k' = es.lookup k'
  | [] => rfl
  | (a, b) :: es => by
    by_cases ha : a = k
    · have hka : (k' == a) = false := by rw [ha]; simpa using hk
      have hflt : (a != k) = false := by rw [ha]; simp
      rw [List.filter_cons_of_neg (by simp [hflt])]
      simp only [List.lookup, hka]
      exact lookup_filter_ne k k' hk es
    · have hne : (a != k) = true := by simpa using ha
      rw [List.filter_cons_of_pos (by simpa using hne)]
      simp only [List.lookup]
      rw [lookup_filter_ne k k' hk es]

/-- one unbounded call: the value of its key is now fixed, no other key changes, a known key keeps its value -/
theorem memo_call_none (draw : Nat → Nat → Nat → Nat) (m : Memo) (i a : Nat) :
    (m.call none draw i a).1.entries.lookup (i, a) = some (m.call none draw i a).2 ∧
    (∀ k v, m.entries.lookup k = some v → (m.call none draw i a).1.entries.lookup k = some v) := by
  unfold Memo.call
  cases h : m.entries.lookup (i, a) with
  | some v =>
    refine ⟨by simp [List.lookup], ?_⟩
    intro k v' hk
    by_cases hka : k = (i, a)
    · subst hka
      rw [h] at hk
      simp [List.lookup, Option.some.inj hk]
    · have : (k == (i, a)) = false := by simpa using hka
      simp only [List.lookup, this]
      rw [lookup_filter_ne (i, a) k hka]; exact hk
  | none =>
    refine ⟨by simp [List.lookup], ?_⟩
    intro k v' hk
    by_cases hka : k = (i, a)
    · subst hka; rw [h] at hk; simp at hk
    · have : (k == (i, a)) = false := by simpa using hka
      simp only [List.lookup, this]; exact hk

theorem memo_read_none (draw : Nat → Nat → Nat → Nat) : ∀ (qs : List (Nat × Nat)) (m : Memo),
    (∀ k v, m.entries.lookup k = some v → (Memo.read none draw m qs).1.entries.lookup k = some v) ∧
    (Memo.read none draw m qs).2 = qs.filterMap (fun q => (Memo.read none draw m qs).1.entries.lookup q) ∧
    (∀ q ∈ qs, ((Memo.read none draw m qs).1.entries.lookup q).isSome)
  | [], m => ⟨fun _ _ h => h, rfl, fun _ h => by simp at h⟩
  | (i, a) :: qs, m => by
    obtain ⟨c1, c2⟩ := memo_call_none draw m i a
    obtain ⟨r1, r2, r3⟩ := memo_read_none draw qs (m.call none draw i a).1
    simp only [Memo.read]
    refine ⟨fun k v h => r1 k v (c2 k v h), ?_, ?_⟩
    · have hq := r1 (i, a) _ c1
      simp only [List.filterMap_cons, hq]
      rw [← r2]
    · intro q hq
      rcases List.mem_cons.mp hq with rfl | hq'
      · rw [r1 (i, a) _ c1]; rfl
      · exact r3 q hq'

theorem memo_after_mono (draw : Nat → Nat → Nat → Nat) : ∀ (qss : List (List (Nat × Nat))) (m : Memo) k v,
    m.entries.lookup k = some v → (Memo.after none draw m qss).entries.lookup k = some v
  | [], _, _, _, h => h
  | q :: qss, m, k, v, h => memo_after_mono draw qss _ k v ((memo_read_none draw q m).1 k v h)

theorem memo_stable_across_reads' (draw : Nat → Nat → Nat → Nat) (m : Memo) (qs : List (Nat × Nat))
    (mids : List (List (Nat × Nat))) :
    (Memo.read none draw (Memo.after none draw (Memo.read none draw m qs).1 mids) qs).2 = (Memo.read none draw m qs).2 := by
  obtain ⟨_, a2, a3⟩ := memo_read_none draw qs m
  obtain ⟨b1, b2, _⟩ := memo_read_none draw qs (Memo.after none draw (Memo.read none draw m qs).1 mids)
  rw [b2, a2]
  apply List.filterMap_congr
  intro q hq
  obtain ⟨v, hv⟩ := Option.isSome_iff_exists.mp (a3 q hq)
  rw [hv]
  exact b1 q v (memo_after_mono draw mids _ q v hv)

/-! # Phase 3 -/

theorem content_stage_reads' (dec : Item → C10.Inter) (enc : C10.Inter → Item) (cfg : C10.Cfg) (st : C10.Step) (par : List Nat)
    (u : List Item) (ns : List Node) (h : chainOK u ns) (d : Demand) :
    viewN u (ns ++ [.pure (contentPure dec enc cfg st par)]) = contentF dec enc cfg st (denN u ns) ∧
    viewN u (touchN u (ns ++ [.pure (contentPure dec enc cfg st par)]) d).1 = contentF dec enc cfg st (denN u ns) :=
  pure_stage_stable' u ns h (contentPure dec enc cfg st par) d

/-! ### aliasing -/

theorem astage_keeps_store (s : AStage) (hs : s.writesInput = false) (st : Store) (as : List Nat) :
    (s.run (st, as)).1.take st.length = st := by
  cases s with
  | copyMap g => simp [AStage.run]
  | share => simp [AStage.run]
  | inPlace g => simp [AStage.writesInput] at hs

theorem astage_store_grows (s : AStage) (hs : s.writesInput = false) (st : Store) (as : List Nat) :
    ∃ ext, (s.run (st, as)).1 = st ++ ext := by
  cases s with
  | copyMap g => exact ⟨_, rfl⟩
  | share => exact ⟨[], by simp [AStage.run]⟩
  | inPlace g => simp [AStage.writesInput] at hs

theorem runStages_store_grows : ∀ (ss : List AStage), (∀ s ∈ ss, s.writesInput = false) → ∀ (st : Store) (as : List Nat),
    ∃ ext, (runStages ss (st, as)).1 = st ++ ext
  | [], _, st, _ => ⟨[], by simp [runStages]⟩
  | s :: ss, h, st, as => by
    obtain ⟨e1, h1⟩ := astage_store_grows s (h s List.mem_cons_self) st as
    have hrun : s.run (st, as) = (st ++ e1, (s.run (st, as)).2) := by rw [← h1]
    obtain ⟨e2, h2⟩ := runStages_store_grows ss (fun x hx => h x (List.mem_cons_of_mem _ hx)) (st ++ e1) (s.run (st, as)).2
    refine ⟨e1 ++ e2, ?_⟩
    simp only [runStages]
    rw [hrun, h2, List.append_assoc]

theorem no_stage_writes_input' (ss : List AStage) (h : ∀ s ∈ ss, s.writesInput = false) (st : Store) (held : List Nat) :
    (readOnce ss st held).1.take st.length = st := by
  obtain ⟨ext, he⟩ := runStages_store_grows ss h st held
  unfold readOnce
  rw [he]; simp

theorem deliver_copy (st vals : List Nat) :
    ((List.range vals.length).map (· + st.length)).map (fun a => (st ++ vals).getD a 0) = vals := by
  apply List.ext_getElem
  · simp
  · intro i h1 h2
    simp at h1
    simp [List.getD, List.getElem?_append_right, h1]

theorem astage_deliver_congr (s : AStage) (hs : s.writesInput = false) (st1 st2 : Store) (as1 as2 : List Nat)
    (h : as1.map (fun a => st1.getD a 0) = as2.map (fun a => st2.getD a 0)) :
    deliver (s.run (st1, as1)) = deliver (s.run (st2, as2)) := by
  cases s with
  | copyMap g =>
    simp only [AStage.run, deliver]
    have e1 := deliver_copy st1 (as1.map (fun a => g (st1.getD a 0)))
    have e2 := deliver_copy st2 (as2.map (fun a => g (st2.getD a 0)))
    rw [e1, e2]
    have := congrArg (List.map g) h
    simp only [List.map_map] at this ⊢
    exact this
  | share => simpa [AStage.run, deliver] using h
  | inPlace g => simp [AStage.writesInput] at hs

theorem runStages_deliver_congr : ∀ (ss : List AStage), (∀ s ∈ ss, s.writesInput = false) → ∀ (st1 st2 : Store) (as1 as2 : List Nat),
    as1.map (fun a => st1.getD a 0) = as2.map (fun a => st2.getD a 0) →
    deliver (runStages ss (st1, as1)) = deliver (runStages ss (st2, as2))
  | [], _, _, _, _, _, h => by simpa [runStages, deliver] using h
  | s :: ss, hs, st1, st2, as1, as2, h => by
    simp only [runStages]
    have := astage_deliver_congr s (hs s List.mem_cons_self) st1 st2 as1 as2 h
    exact runStages_deliver_congr ss (fun x hx => hs x (List.mem_cons_of_mem _ hx)) (s.run (st1, as1)).1 (s.run (st2, as2)).1
      (s.run (st1, as1)).2 (s.run (st2, as2)).2 this

theorem second_read_same' (ss : List AStage) (h : ∀ s ∈ ss, s.writesInput = false) (st : Store) (held : List Nat)
    (hv : ∀ a ∈ held, a < st.length) :
    deliver (readOnce ss (readOnce ss st held).1 held) = deliver (readOnce ss st held) := by
  obtain ⟨ext, he⟩ := runStages_store_grows ss h st held
  unfold readOnce
  apply runStages_deliver_congr ss h
  rw [he]
  apply List.map_congr_left
  intro a ha
  simp [List.getD, List.getElem?_append_left (hv a ha)]

/-! ### save / from_save -/

theorem load_save_batches' (n : Nat) : ∀ xs : List Item, loadBatches (saveBatches n xs) = xs := by
  intro xs
  induction xs using saveBatches.induct n with
  | case1 => simp [saveBatches, loadBatches]
  | case2 x xs ih =>
    rw [saveBatches]
    simp only [loadBatches, List.flatten_cons] at ih ⊢
    rw [ih, List.take_append_drop]

/-! # Phase 4 -/

theorem fit_stage_reads' (sd : List Rat → Rat) (dec : List Item → C11.Ctxs) (enc : C11.Ctxs → List Item) (s : FitStage) (par : List Nat)
    (u : List Item) (ns : List Node) (h : chainOK u ns) (d : Demand) :
    viewN u (ns ++ [.pure (fitPure sd dec enc s par)]) = enc (s.apply sd (dec (denN u ns))) ∧
    viewN u (touchN u (ns ++ [.pure (fitPure sd dec enc s par)]) d).1 = enc (s.apply sd (dec (denN u ns))) :=
  pure_stage_stable' u ns h (fitPure sd dec enc s par) d

theorem fit_chain_den (sd : List Rat → Rat) (dec : List Item → C11.Ctxs) (enc : C11.Ctxs → List Item) (hde : ∀ c, dec (enc c) = c)
    (u : List Item) : ∀ (ss : List (FitStage × List Nat)) (ns : List Node), chainOK u ns →
    chainOK u (ns ++ ss.map (fun s => Node.pure (fitPure sd dec enc s.1 s.2))) ∧
    dec (denN u (ns ++ ss.map (fun s => Node.pure (fitPure sd dec enc s.1 s.2)))) = fitDen sd (ss.map (·.1)) (dec (denN u ns))
  | [], ns, h => by simpa [fitDen] using h
  | s :: ss, ns, h => by
    have hc : chainOK u (ns ++ [Node.pure (fitPure sd dec enc s.1 s.2)]) := by
      rw [chainOK_append]; exact ⟨h, by simp [chainOK, nodeOK, Node.Fixed]⟩
    obtain ⟨h1, h2⟩ := fit_chain_den sd dec enc hde u ss _ hc
    have e : ns ++ List.map (fun s => Node.pure (fitPure sd dec enc s.1 s.2)) (s :: ss)
        = (ns ++ [Node.pure (fitPure sd dec enc s.1 s.2)]) ++ ss.map (fun s => Node.pure (fitPure sd dec enc s.1 s.2)) := by simp
    rw [e]
    refine ⟨h1, ?_⟩
    rw [h2, denN_append]
    show fitDen sd (ss.map (·.1)) (dec (enc (s.1.apply sd (dec (denN u ns))))) = _
    rw [hde]
    simp [fitDen]

theorem fit_pipeline_reads' (sd : List Rat → Rat) (dec : List Item → C11.Ctxs) (enc : C11.Ctxs → List Item) (hde : ∀ c, dec (enc c) = c)
    (u : List Item) (ns : List Node) (h : chainOK u ns) (ss : List (FitStage × List Nat)) (d : Demand) :
    dec (viewN u (ns ++ ss.map (fun s => Node.pure (fitPure sd dec enc s.1 s.2)))) = fitDen sd (ss.map (·.1)) (dec (denN u ns)) ∧
    dec (viewN u (touchN u (ns ++ ss.map (fun s => Node.pure (fitPure sd dec enc s.1 s.2))) d).1) = fitDen sd (ss.map (·.1)) (dec (denN u ns)) := by
  obtain ⟨hc, hd⟩ := fit_chain_den sd dec enc hde u ss ns h
  obtain ⟨h1, h2, _⟩ := compose_stable' u _ hc d
  rw [h1, h2]
  exact ⟨hd, hd⟩

theorem fit_reads_fresh' (sd : List Rat → Rat) (s : FitStage) (c : C11.Ctxs) :
    ∀ ds : List Demand, fitReadsFresh sd s c ds = ds.map (fun d => demTake d (s.apply sd c))
  | [] => rfl
  | d :: ds => by simp [fitReadsFresh, fit_reads_fresh' sd s c ds]

theorem ctxsDrop_zero (c : C11.Ctxs) : ctxsDrop 0 c = c := by cases c <;> simp [ctxsDrop]

/-- the kept-iterator variant agrees with the real one exactly as long as nothing has been pulled -/
theorem fit_kept_unread' (sd : List Rat → Rat) (s : FitStage) (c : C11.Ctxs) (d : Demand) :
    ∀ n : Nat, fitReadsKept sd s c 0 (List.replicate n .none ++ [d]) = fitReadsFresh sd s c (List.replicate n .none ++ [d])
  | 0 => by simp [fitReadsKept, fitReadsFresh, ctxsDrop_zero]
  | n + 1 => by
    have := fit_kept_unread' sd s c d n
    simp only [List.replicate_succ, List.cons_append, fitReadsKept, fitReadsFresh, ctxsDrop_zero, fitPulled, Nat.add_zero]
    rw [this]

/-! ### aliasing, general form -/

theorem gstage_store_grows {α : Type} (d : α) (s : GStage α) (hs : s.writesInput = false) (st : List α) (as : List Nat) :
    ∃ ext, (s.run d (st, as)).1 = st ++ ext := by
  cases s with
  | alloc F => exact ⟨_, rfl⟩
  | share => exact ⟨[], by simp [GStage.run]⟩
  | pick sel => exact ⟨[], by simp [GStage.run]⟩
  | write F => simp [GStage.writesInput] at hs

theorem grunStages_store_grows {α : Type} (d : α) : ∀ (ss : List (GStage α)) (_ : ∀ s ∈ ss, s.writesInput = false) (st : List α) (as : List Nat),
    ∃ ext, (grunStages d ss (st, as)).1 = st ++ ext
  | [], _, st, as => ⟨[], by simp [grunStages]⟩
  | s :: ss, h, st, as => by
    obtain ⟨e1, h1⟩ := gstage_store_grows d s (h s (by simp)) st as
    have hrun : s.run d (st, as) = (st ++ e1, (s.run d (st, as)).2) := by rw [← h1]
    obtain ⟨e2, h2⟩ := grunStages_store_grows d ss (fun x hx => h x (by simp [hx])) (st ++ e1) (s.run d (st, as)).2
    refine ⟨e1 ++ e2, ?_⟩
    rw [grunStages, hrun, h2, List.append_assoc]

theorem gno_stage_writes_input' {α : Type} (d : α) (ss : List (GStage α)) (h : ∀ s ∈ ss, s.writesInput = false) (st : List α) (held : List Nat) :
    (greadOnce d ss st held).1.take st.length = st := by
  obtain ⟨ext, he⟩ := grunStages_store_grows d ss h st held
  unfold greadOnce
  rw [he]; simp

theorem gdeliver_alloc {α : Type} (d : α) (st vals : List α) :
    gvals d (st ++ vals) ((List.range vals.length).map (· + st.length)) = vals := by
  apply List.ext_getElem
  · simp [gvals]
  · intro i h1 h2
    simp [gvals] at h1
    simp [gvals, List.getD, List.getElem?_append_right, h1]

theorem gvals_pick {α : Type} (d : α) (st : List α) (as : List Nat) (idx : List Nat) :
    gvals d st (idx.filterMap (fun i => as[i]?)) = idx.filterMap (fun i => (gvals d st as)[i]?) := by
  unfold gvals
  rw [List.map_filterMap]
  apply List.filterMap_congr
  intro i _
  simp [List.getElem?_map]

theorem gstage_deliver_congr {α : Type} (d : α) (s : GStage α) (hs : s.writesInput = false) (st1 st2 : List α) (as1 as2 : List Nat)
    (h : gvals d st1 as1 = gvals d st2 as2) :
    gdeliver d (s.run d (st1, as1)) = gdeliver d (s.run d (st2, as2)) := by
  cases s with
  | alloc F =>
    simp only [GStage.run, gdeliver]
    rw [gdeliver_alloc, gdeliver_alloc, h]
  | share => simpa [GStage.run, gdeliver] using h
  | pick sel =>
    have hl : as1.length = as2.length := by
      have := congrArg List.length h
      simpa [gvals] using this
    simp only [GStage.run, gdeliver]
    rw [gvals_pick, gvals_pick, h, hl]
  | write F => simp [GStage.writesInput] at hs

theorem grunStages_deliver_congr {α : Type} (d : α) : ∀ (ss : List (GStage α)) (_ : ∀ s ∈ ss, s.writesInput = false)
    (st1 st2 : List α) (as1 as2 : List Nat), gvals d st1 as1 = gvals d st2 as2 →
    gdeliver d (grunStages d ss (st1, as1)) = gdeliver d (grunStages d ss (st2, as2))
  | [], _, st1, st2, as1, as2, hv => by simpa [grunStages, gdeliver] using hv
  | s :: ss, h, st1, st2, as1, as2, hv => by
    rw [grunStages, grunStages]
    have := gstage_deliver_congr d s (h s (by simp)) st1 st2 as1 as2 hv
    exact grunStages_deliver_congr d ss (fun x hx => h x (by simp [hx]))
      (s.run d (st1, as1)).1 (s.run d (st2, as2)).1 (s.run d (st1, as1)).2 (s.run d (st2, as2)).2 this

theorem gsecond_read_same' {α : Type} (d : α) (ss : List (GStage α)) (h : ∀ s ∈ ss, s.writesInput = false) (st : List α) (held : List Nat)
    (hv : ∀ a ∈ held, a < st.length) :
    gdeliver d (greadOnce d ss (greadOnce d ss st held).1 held) = gdeliver d (greadOnce d ss st held) := by
  obtain ⟨ext, he⟩ := grunStages_store_grows d ss h st held
  unfold greadOnce
  apply grunStages_deliver_congr d ss h
  rw [he]
  unfold gvals
  apply List.map_congr_left
  intro a ha
  simp [List.getD, List.getElem?_append_left (hv a ha)]

/-- every stage built from Scale / Impute / Noise (`FitStage.toG`) and the sharing / selecting stages is non-writing -/
theorem fit_toG_no_write (sd : List Rat → Rat) (s : FitStage) : (s.toG sd).writesInput = false := rfl

/-- objects that a sharing / selecting pipeline delivers are objects that existed before the read -/
theorem gpick_delivers_held {α : Type} (d : α) (s : GStage α) (hs : s = .share ∨ ∃ sel, s = .pick sel) (st : List α) (as : List Nat) :
    ∀ a ∈ (s.run d (st, as)).2, a ∈ as := by
  rcases hs with rfl | ⟨sel, rfl⟩
  · intro a ha; simpa [GStage.run] using ha
  · intro a ha
    simp only [GStage.run, List.mem_filterMap] at ha
    obtain ⟨i, _, hi⟩ := ha
    exact List.mem_of_getElem? hi

/-! # Phase 5: translator obligations — the extracted source (`Generated/C04Stages.lean`) is what the model assumes -/

theorem stage_table_matches_source' :
    Generated.extracted = true ∧
    Generated.envStateful = stageRows "env" ∧ Generated.pipeStateful = stageRows "pipe" ∧ Generated.srcStateful = stageRows "src" ∧
    Generated.envClasses = modelEnvClasses ∧
    Generated.envHeld = modelEnvHeld ∧ Generated.pipeHeld = [] ∧ Generated.srcHeld = [] := by
  refine ⟨rfl, ?_, ?_, ?_, ?_, ?_, rfl, rfl⟩ <;> decide

/-- every attribute the source writes outside `__init__` may change in the model (`stateAllowed`), and nothing else may:
for a class name outside the table no attribute is allowed -/
theorem stage_table_sound' :
    (∀ r ∈ Generated.envStateful ++ Generated.pipeStateful ++ Generated.srcStateful, ∀ a ∈ r.2, stateAllowed [r.1] a = true) ∧
    (∀ (mro : List String) (a : String), (∀ r ∈ stageTable, r.cls ∉ mro) → stateAllowed mro a = false) := by
  refine ⟨by decide, ?_⟩
  intro mro a h
  unfold stateAllowed
  rw [List.any_eq_false]
  intro r hr
  have := h r hr
  simp [this]

theorem cache_shortcut_matches_source' (w : World) (j : Nat) (o : Obj) :
    Node.cache Generated.shortcutCacheSlice Generated.shortcutCacheProtected (if Generated.cacheStartsUnread then .unread else .done []) = shortcutCacheNode ∧
    Generated.cacheDefaultSlice = some 25 ∧ Generated.cacheDefaultProtected = false ∧
    stepObj w j o (.cache j) =
      (pushObj w (some { src := o.src, nodes := (finalized w.fin (o.base ++ [shortcutCacheNode])).1,
                         ownFin := (finalized w.fin (o.base ++ [shortcutCacheNode])).2 }), .derived) ∧
    Generated.chunkCacheDefault = true ∧ Generated.chunkJoins = "Chunk" ∧ Generated.chunkIsIdentity = true ∧
    (∀ u, chunkP.f u = u) ∧
    stepObj w j o (.chunk j) =
      (pushObj w (some { src := o.src, nodes := (finalized w.fin (o.base ++ [.pure chunkP, shortcutCacheNode])).1,
                         ownFin := (finalized w.fin (o.base ++ [.pure chunkP, shortcutCacheNode])).2 }), .derived) := by
  refine ⟨rfl, rfl, rfl, rfl, rfl, by decide, rfl, fun _ => rfl, rfl⟩

theorem materialize_matches_source' (w : World) (j : Nat) (o : Obj) :
    (∀ n : Node, keptByMaterialize n = Generated.nocache (isCache n) n.prot) ∧
    Node.cache Generated.materializeCacheSlice Generated.materializeCacheProtected .unread = materializeCacheNode ∧
    Generated.materializeOnlyWhenLastNotCache = true ∧ Generated.materializeForcesRead = true ∧ Generated.materializeFinalizesFirst = true ∧
    (lastIsCache (finalized w.fin o.base).1 = true →
      stepObj w j o (.materialize j) = (pushObj w (some { src := o.src, nodes := (finalized w.fin o.base).1, ownFin := false }), .derived)) ∧
    (lastIsCache (finalized w.fin o.base).1 = false →
      stepObj w j o (.materialize j) =
        (let m : Obj := { src := o.src, nodes := (finalized w.fin o.base).1.filter keptByMaterialize ++ [materializeCacheNode], ownFin := false }
         (pushObj (setObj w j { o with src := (m.touch .all).src }) (some (m.touch .all)), .derived))) := by
  refine ⟨fun n => by cases n <;> simp [keptByMaterialize, isCache, Node.prot, Generated.nocache], rfl, rfl, rfl, rfl, ?_, ?_⟩
  · intro h; simp [stepObj, h]
  · intro h; simp [stepObj, h, materializeCacheNode]

theorem pipeline_constants_match_source' (fin : PureSt) (ns : List Node) :
    Generated.finalizeWrap = ["BatchSafe", "Finalize"] ∧
    Generated.finalizeTest = [("e", "BatchSafe"), ("e._filter", "Finalize")] ∧
    Generated.finalizeHolds = ["EmptyCheck"] ∧
    finalized fin ns = (if ns.any isFinalize then (ns, false) else (ns ++ [.finalize fin Generated.emptyCheckInit], true)) ∧
    Generated.envCacheCopies = true ∧
    Generated.shuffleLoggedFactor = loggedSeedFactor ∧ Generated.shuffleLoggedKeys = loggedKeys ∧
    Generated.batchSafeJoin = ["Unbatch", "self._filter", "Batch"] ∧
    (∀ b ∈ Generated.saveBatchSizes, b = saveBatchModel + 1) ∧ Generated.saveBatchSizes ≠ [] := by
  refine ⟨by decide, by decide, by decide, rfl, rfl, rfl, by decide, by decide, by decide, by decide⟩

/-! # Phase 5: Noise with integer draws on content -/

theorem noise_int_row' (lo hi : Int) : ∀ (r : List C11.Val) (s : Nat),
    (noiseIntRow lo hi s r).1 = iterNext (r.filter drawsNoise).length s ∧ (noiseIntRow lo hi s r).2.length = r.length := by
  intro r
  induction r with
  | nil => intro s; simp [noiseIntRow, iterNext]
  | cons v vs ih =>
    intro s
    cases v with
    | num q =>
      have h : drawsNoise (C11.Val.num q) = true := rfl
      simp [noiseIntRow, List.filter_cons, h, iterNext, C05.randint, ih]
    | nan =>
      have h : drawsNoise C11.Val.nan = true := rfl
      simp [noiseIntRow, List.filter_cons, h, iterNext, C05.randint, ih]
    | nil =>
      have h : drawsNoise C11.Val.nil = false := rfl
      simp [noiseIntRow, List.filter_cons, h, ih]
    | str t =>
      have h : drawsNoise (C11.Val.str t) = false := rfl
      simp [noiseIntRow, List.filter_cons, h, ih]

theorem scanRows_take' (step : Nat → List C11.Val → Nat × List C11.Val) : ∀ (rows : List (List C11.Val)) (s k : Nat),
    (scanRows step s rows).take k = scanRows step s (rows.take k) := by
  intro rows
  induction rows with
  | nil => intro s k; simp [scanRows]
  | cons r rs ih =>
    intro s k
    cases k with
    | zero => simp [scanRows]
    | succ k => simp [scanRows, ih]

theorem noise_int_reads' (sd : List Rat → Rat) (seed lo hi : Int) (rows : List (List C11.Val)) (ds : List Demand) :
    fitReadsFresh sd (FitStage.noiseInt seed lo hi) (.dense rows) ds
      = ds.map (fun d => demTake d (.dense (scanRows (noiseIntRow lo hi) (C05.normInt seed) rows))) := by
  rw [fit_reads_fresh']
  rfl

/-! ## Phase 6: what runs when a read is abandoned -/

theorem abandon_table_matches_source' :
    Generated.abandonRows = abandonTable.map TryRow.tuple ∧
    (Generated.abandonRows.all (fun t => (TryRow.mk t.1 t.2.1 t.2.2.1 t.2.2.2.1 t.2.2.2.2).silent)) = true ∧
    cacheExitAct Generated.cacheFillHandlers = .nothing ∧ Generated.cacheFillFinally = false := by
  refine ⟨by decide, by decide, by decide, rfl⟩

theorem abandon_table_sound' :
    (∀ r ∈ abandonTable, r.silent = true ∧ r.runsOnAbandon = false) ∧
    (∀ r ∈ abandonTable, r.kind = "try" → abandonObsAllowed r.file r.fn "header" = true) ∧
    (∀ r ∈ abandonTable, r.kind = "with" → abandonObsAllowed r.file r.fn "with" = true) ∧
    (∀ (file fn kind : String), kind ≠ "header" → kind ≠ "with" → abandonObsAllowed file fn kind = false) ∧
    (∀ (file fn kind : String), (∀ r ∈ abandonTable, r.fn ≠ fn) → abandonObsAllowed file fn kind = false) := by
  refine ⟨by decide, by decide, by decide, ?_, ?_⟩
  · intro file fn kind h1 h2
    simp [abandonObsAllowed, h1, h2]
  · intro file fn kind h
    unfold abandonObsAllowed
    split
    · rw [List.any_eq_false]
      intro r hr
      simp [h r hr]
    · split
      · rw [List.any_eq_false]
        intro r hr
        simp [h r hr]
      · rfl

theorem cacheStepX_nothing (sz : Option Nat) (c r : List Item) (d : Demand) :
    cacheStepX .nothing sz c r d = cacheStep sz c r d := by
  cases d <;> rfl

/-- with the source's exit action the explicit session IS the cache case of `nodeStep` -/
theorem cache_session_is_nodeStep' (sz : Option Nat) (prot : Bool) (st : CacheSt) (u : List Item) (d : Demand) :
    (nodeStep (.cache sz prot st) u d).1 = .cache sz prot (cacheSessX (cacheExitAct Generated.cacheFillHandlers) sz u st d) := by
  have hx : cacheExitAct Generated.cacheFillHandlers = .nothing := by decide
  rw [hx]
  cases d <;> cases st <;> simp [nodeStep, cacheSessX, cacheStepX_nothing]

theorem cacheStepP6_ok (sz : Option Nat) (u c r : List Item) (h : c ++ r = u) (d : Demand) :
    CacheOK u (cacheStep sz c r d).1 := by
  cases d with
  | none => simpa [cacheStep, CacheOK] using h
  | all => simpa [cacheStep, CacheOK] using h
  | pull k =>
    simp only [cacheStep, CacheOK]
    rw [fill_append]; exact h

theorem cacheStepX_ok (x : ExitAct) (hx : x ≠ .dropIter) (sz : Option Nat) (u c r : List Item) (h : c ++ r = u) (d : Demand) :
    CacheOK u (cacheStepX x sz c r d).1 := by
  cases x with
  | nothing => rw [cacheStepX_nothing]; exact cacheStepP6_ok sz u c r h d
  | dropIter => exact absurd rfl hx
  | reset =>
    cases d with
    | pull k => simp [cacheStepX, CacheOK]
    | none => exact cacheStepP6_ok sz u c r h .none
    | all => exact cacheStepP6_ok sz u c r h .all

theorem cacheSessX_ok (x : ExitAct) (hx : x ≠ .dropIter) (sz : Option Nat) (u : List Item) (st : CacheSt) (h : CacheOK u st) (d : Demand) :
    CacheOK u (cacheSessX x sz u st d) := by
  cases st with
  | unread =>
    cases d with
    | none => simpa [cacheSessX] using h
    | pull k => simpa [cacheSessX] using cacheStepX_ok x hx sz u [] u (by simp) (.pull k)
    | all => simpa [cacheSessX] using cacheStepX_ok x hx sz u [] u (by simp) .all
  | prog c r =>
    cases d with
    | none => simpa [cacheSessX] using h
    | pull k => simpa [cacheSessX] using cacheStepX_ok x hx sz u c r h (.pull k)
    | all => simpa [cacheSessX] using cacheStepX_ok x hx sz u c r h .all
  | done c =>
    cases d <;> simpa [cacheSessX] using h

theorem cacheOK_view (sz : Option Nat) (prot : Bool) (u : List Item) (st : CacheSt) (h : CacheOK u st) :
    nodeView (.cache sz prot st) u = u := by
  cases st <;> simpa [nodeView, CacheOK] using h

/-- every history of sessions (complete, abandoned after any k, never started), whatever runs at an abandon as long as it is
nothing or the handler's reset: the buffer invariant holds afterwards and the next read delivers the upstream sequence -/
theorem cache_abandon_history' (x : ExitAct) (hx : x ≠ .dropIter) (sz : Option Nat) (prot : Bool) (u : List Item) :
    ∀ (ds : List Demand) (st : CacheSt), CacheOK u st →
      CacheOK u (ds.foldl (cacheSessX x sz u) st) ∧ nodeView (.cache sz prot (ds.foldl (cacheSessX x sz u) st)) u = u
  | [], st, h => ⟨h, cacheOK_view sz prot u st h⟩
  | d :: ds, st, h => by
    simpa using cache_abandon_history' x hx sz prot u ds _ (cacheSessX_ok x hx sz u st h d)

/-- a `finally: self._iter = None` around the fill loop: one abandoned read leaves a truncated cache that is served for ever -/
theorem cache_finally_counterexample' :
    cacheSessX .dropIter (some 2) [1, 2, 3] .unread (.pull 1) = .done [1, 2] ∧
    nodeView (.cache (some 2) false (cacheSessX .dropIter (some 2) [1, 2, 3] .unread (.pull 1))) [1, 2, 3] = [1, 2] ∧
    nodeView (.cache (some 2) false (cacheSessX .nothing (some 2) [1, 2, 3] .unread (.pull 1))) [1, 2, 3] = [1, 2, 3] := by
  refine ⟨rfl, by decide, by decide⟩


end Coba.C04
